import argparse
import os
import sys


def main():
    ap = argparse.ArgumentParser()
    ap.add_argument("pid")
    ap.add_argument("--tier", default=os.environ.get("VERIF_TIER", "quick"),
                    choices=["quick", "thorough"])
    ap.add_argument("--replay", default=None)
    ap.add_argument("--jobs", type=int, default=int(os.environ.get("VERIF_JOBS", "16")))
    a = ap.parse_args()
    seed = int(os.environ.get("VERIF_SEED", "0") or 0)
    from vf import core
    rc = core.run_property(a.pid.upper(), a.tier, seed, a.jobs, a.replay)
    sys.stdout.flush()
    sys.exit(rc)


if __name__ == "__main__":
    main()
