"""Tiny classic (nifty.cl) models shared by the VI-driver checks (C22, C25, C27)."""
import numpy as np


def two_key_model(nonlinear=True):
    """3-pixel model with a linear key `a` and an exp key `b`; Gaussian likelihood."""
    import nifty.cl as ift
    dom = ift.RGSpace(3)
    a = ift.FieldAdapter(dom, "a")
    b = ift.FieldAdapter(dom, "b")
    sig = a + (b.exp() if nonlinear else 0.5 * b)
    R = ift.makeOp(ift.makeField(dom, np.array([1.0, 0.5, 2.0])))
    data = ift.makeField(dom, np.array([0.7, -0.4, 1.9]))
    N = ift.ScalingOperator(dom, 0.25, sampling_dtype=float)
    lh = ift.GaussianEnergy(data=data, inverse_covariance=N.inverse) @ (R @ sig)
    return lh


def four_key_model():
    """like two_key_model but with four latent keys (more room for key-order effects)"""
    import nifty.cl as ift
    dom = ift.RGSpace(3)
    a, b, c, d = (ift.FieldAdapter(dom, k) for k in "abcd")
    sig = a + b.exp() + 0.5 * c + d.ptw("sin")
    R = ift.makeOp(ift.makeField(dom, np.array([1.0, 0.5, 2.0])))
    data = ift.makeField(dom, np.array([0.7, -0.4, 1.9]))
    N = ift.ScalingOperator(dom, 0.25, sampling_dtype=float)
    return ift.GaussianEnergy(data=data, inverse_covariance=N.inverse) @ (R @ sig)


def pristine_random_state():
    """State of nifty.cl.random as a freshly started script would see it."""
    import pickle
    return pickle.dumps(([np.random.SeedSequence(42)], [np.random.default_rng(np.random.SeedSequence(42))]))


def reset_random():
    import nifty.cl as ift
    ift.random.setState(pristine_random_state())


def minimizers(n=4):
    import nifty.cl as ift
    ic_samp = ift.AbsDeltaEnergyController(deltaE=1e-8, iteration_limit=30)
    ic_newton = ift.AbsDeltaEnergyController(deltaE=1e-8, iteration_limit=n, convergence_level=2)
    return ift.NewtonCG(ic_newton), ic_samp


def quiet():
    import logging
    logging.getLogger("NIFTy").setLevel(logging.ERROR)


def field_bytes(f):
    import nifty.cl as ift
    if isinstance(f, ift.MultiField):
        return tuple((k, field_bytes(f[k])) for k in f.keys())
    a = f.asnumpy()
    return (str(a.dtype), a.shape, a.tobytes().hex())


def samplelist_digest(sl, mean=None):
    items = [field_bytes(s) for s in sl.iterator()]
    d = dict(n=sl.n_samples, items=items, cls=type(sl).__name__)
    if mean is not None:
        d["mean"] = field_bytes(mean)
    return d
