"""C35 Response operators compute their documented quantity.

Mode P (configuration enumeration + basis enumeration).  Every case builds one operator from a small
alphabet and applies it to the COMPLETE unit basis of its input space (TIMES and ADJOINT_TIMES), so the
comparison with the independent reference (vf/ref/c35_ref.py) is decided for all inputs.  Families:

  mask    MaskOperator for ALL 2^n masks (n <= 6 pixels, 1-d / 2-d / product domains, bool / int / float
          flag fields): selection matrix of the unflagged pixels in C order, adjoint = transpose.
  pad     FieldZeroPadder: all (shape, new_shape >= shape) pairs of the alphabet, central / end padding,
          position of the padded space in a product domain; index-level reference; target geometry.
  regrid  RegriddingOperator: all (shape, new_shape <= shape) pairs; linear interpolation at the target
          pixel coordinates j * (n d / m); exact on every multilinear monomial; target distances.
  interp  LinearInterpolator: periodic tensor-product hat weights at every sampling position of the
          position alphabet; exact on every multilinear monomial at every non-wrapping position.
  los     LOSResponse: every ordered pair of the end-point alphabet (pixel centres, cell corners, points
          outside the box, generic points) on 1-d / 2-d / 3-d grids against Liang-Barsky clipped
          piecewise-constant line integrals; with `sigmas`: survival-weighted integrals (mid-cell rule
          the operator documents as 'expected integral', plus a rigorous distance to the exact one).
  nufft   Nufft / Gridder against the explicit Fourier sums at a position alphabet for several requested
          accuracies (relative l2 error <= 5 epsilon); VariablePositionNufft value and Jacobian against the
          explicit sum and its analytic derivative; ShiftedPositionFFT at zero / integer / fractional shifts.
  slos    nifty.re SamplingCartesianGridLOS: midpoint sampling of the multilinear interpolant (explicit
          weights), exact line integrals of affine fields for EVERY number of sampling points, distance to
          the exact integral of the interpolant within a rigorous O(1/n^2) bound, declared target shape.
"""
import itertools
import json
import warnings

import numpy as np

from vf.core import ok, bad, skip

ID = "C35"
LEVEL = "exploration"
JAX = True
RULE = ("case = (family, grid shape + distances, constructor configuration: mask bits | new shape, central flag, "
        "placement | sampling-position class | start point with all end points of the alphabet, sigmas | positions, "
        "epsilon | broadcasting mode, number of sampling points); each case applies the operator to the complete unit "
        "basis in TIMES and ADJOINT_TIMES; non-trivial = a non-empty matrix was compared with the independent reference "
        "and the structural event of the family happened (>= 1 pixel flagged and >= 1 kept; padding/regridding changed "
        "the shape; >= 1 line crossed >= 2 cells; interpolation weights strictly inside a cell; requested accuracy "
        "met on a non-degenerate grid)")
ASSUMPTIONS = [
    "grids are tiny (<= 36 pixels); numeric values (distances, generic points, field values) are seed-selected alphabet values; structure is exhaustive over the stated alphabets",
    "LOSResponse: lines lying inside a cell-boundary hyperplane are excluded (the integral of a piecewise-constant field is ambiguous there); zero-length lines are excluded (the constructor raises); "
    "tolerance 3e-6 * max(1, length) (weights are stored in float32 and every line is shortened by 1e-7 of its length at both ends in the code)",
    "LOSResponse with sigmas: the reference applies the documented survival function of 1/length ~ N(1/L, sigma) at the mid-distance of every traversed cell; the exact expected integral is "
    "only required within the rigorous bound length * oscillation of the weight per cell",
    "Nufft/Gridder/VariablePositionNufft: accuracy demanded = 5 * requested epsilon + 2e-13 in the relative l2 norm per basis vector (ducc's documented error measure); complex input only "
    "(ducc rejects real input, a documented rejection)",
    "LinearInterpolator: pixel i sits at coordinate i*d, periodic (documented); multilinear exactness is demanded only for positions inside the non-wrapping box [0, (n-1) d]; "
    "domains mixing spaces of different dimensionality raise TypeError (announced in the code) and are skipped",
    "FieldZeroPadder(central=True): the axis is in FFT order; for even length the Nyquist entry is duplicated (documented: 'not split up')",
    "SamplingCartesianGridLOS: node i of axis a sits at coordinate i * N_a d_a / (N_a - 1) (the location -> index map of the code, pinned by test_sampling_cartesian_grid_los; the docstring "
    "does not define the placement); axes of length 1 and sampling points on or beyond the last node give NaN and are outside the premise; interpolation order 1 only",
    "ShiftedPositionFFT at fractional shifts: the grid is the centred window m = -(n//2) .. n-n//2-1 (what FFTShift + type-2 NUFFT evaluate); zero and integer shifts are window independent",
    "no GPU (cupy / cufinufft) paths",
]


# ===================================================================================== helpers
class Fail(Exception):
    def __init__(self, what, key, detail=None):
        Exception.__init__(self, what)
        self.what, self.key, self.detail = what, key, detail


def _R():
    from vf.ref import c35_ref as R
    return R


def _dist(shape, seed, salt=0):
    base = [0.5, 2.0, 0.8, 1.3]
    return [round(base[(a + salt) % 4] * (1. + 0.07 * ((seed + a + salt) % 5)), 4) for a in range(len(shape))]


def _place(ift, X, place):
    U = ift.UnstructuredDomain(2)
    if place == "alone":
        return [X], 0
    if place == "U-first":
        return [U, X], 1
    if place == "U-last":
        return [X, U], 0
    if place == "RG-first":
        return [ift.RGSpace((2,), distances=0.7), X], 1
    raise ValueError(place)


def _prepost(spaces, idx):
    pre = int(np.prod([s.size for s in spaces[:idx]], dtype=int))
    post = int(np.prod([s.size for s in spaces[idx + 1:]], dtype=int))
    return pre, post


def _cmatrix(ift, op, mode, din, dout, name, dtypes=("f8", "c16"), same_dtype=True):
    """Complex matrix pair (A_re, A_im): images of the real unit vectors (float64 fields) and of the imaginary
    unit vectors (complex128 fields).  Checks domain identity and (optionally) dtype preservation."""
    n, m = din.size, dout.size
    out = {}
    for dt in dtypes:
        A = np.zeros((m, n), dtype=np.complex128)
        for j in range(n):
            v = np.zeros(n, dtype=np.float64 if dt == "f8" else np.complex128)
            v[j] = 1. if dt == "f8" else 1j
            try:
                y = op.apply(ift.makeField(din, v.reshape(din.shape)), mode)
            except Exception as e:
                raise Fail("%s raised %s: %s (input dtype %s)" % (name, type(e).__name__, str(e).strip().split("\n")[-1][:120], v.dtype),
                           "%s|raises|%s" % (name, type(e).__name__))
            if y.domain is not dout:
                raise Fail("%s: result domain %r is not the declared one" % (name, y.domain), "%s|result-domain" % name)
            a = np.asarray(y.asnumpy())
            if same_dtype and a.dtype != v.dtype:
                raise Fail("%s: output dtype %s for input dtype %s" % (name, a.dtype, v.dtype), "%s|output-dtype|%s->%s" % (name, v.dtype, a.dtype))
            A[:, j] = a.reshape(-1)
        out[dt] = A
    return out


def _cmp(A, B, tol, what, key, scale=None):
    A, B = np.asarray(A), np.asarray(B)
    if A.shape != B.shape:
        raise Fail("%s: shape %s vs %s" % (what, A.shape, B.shape), key)
    if A.size == 0:
        return 0.
    s = scale if scale is not None else max(1., float(np.abs(B).max()))
    d = np.abs(A - B)
    if not (np.all(np.isfinite(A)) and d.max() <= tol * s):
        i = np.unravel_index(np.argmax(np.nan_to_num(d, nan=np.inf)), A.shape)
        raise Fail("%s: max deviation %.3e at %s: got %s, expected %s" % (what, float(np.nanmax(d)) if np.isfinite(d).any() else np.inf,
                                                                       i, A[i], B[i]), key)
    return float(d.max())


def _check_linear_pair(ift, op, W, name, tol=1e-12):
    """Real-input and imaginary-input images agree with one complex-linear matrix W (TIMES) and W^T (ADJOINT)."""
    dom, tgt = op.domain, op.target
    T = _cmatrix(ift, op, ift.LinearOperator.TIMES, dom, tgt, name + "|TIMES")
    _cmp(T["f8"], W, tol, "%s TIMES on real unit vectors differs from the reference" % name, "%s|TIMES|differs-from-definition" % name)
    _cmp(T["c16"], 1j * W, tol, "%s TIMES on imaginary unit vectors differs from i * reference" % name, "%s|TIMES|complex-input" % name)
    A = _cmatrix(ift, op, ift.LinearOperator.ADJOINT_TIMES, tgt, dom, name + "|ADJOINT")
    _cmp(A["f8"], W.T, tol, "%s ADJOINT_TIMES differs from the transposed reference" % name, "%s|ADJOINT|differs-from-definition" % name)
    _cmp(A["c16"], 1j * W.T, tol, "%s ADJOINT_TIMES on imaginary unit vectors differs" % name, "%s|ADJOINT|complex-input" % name)
    return 4 * (dom.size + tgt.size)


# ===================================================================================== case space
def _shapes_1_2(tier, nmax1, nmax2):
    out = [[n] for n in range(1, nmax1 + 1)]
    out += [list(s) for s in itertools.product(range(1, nmax2 + 1), repeat=2)]
    return out


MASK_DOMS = [["R", [1]], ["R", [2]], ["R", [3]], ["R", [4]], ["R", [2, 2]], ["R", [5]], ["R", [6]], ["R", [2, 3]], ["R", [3, 2]],
             ["UxR", 2, [3]], ["RxR", [2], [2]], ["RxU", [3], 2]]
LOS_GRIDS_Q = [[3], [4], [2, 3], [3, 3], [2, 2, 2]]
LOS_GRIDS_T = [[5], [1], [4, 3], [1, 3], [3, 2, 2], [4, 4]]


def cases(tier, seed):
    seed = int(seed)
    quick = tier == "quick"
    cs = []

    def add(**kw):
        kw["seed"] = seed
        cs.append(kw)
    # ---- mask: all 2^n masks
    for dom in MASK_DOMS:
        n = int(np.prod(dom[1])) if dom[0] == "R" else {"UxR": 6, "RxR": 4, "RxU": 6}[dom[0]]
        for fdt in ("bool", "int", "float"):
            for bits in range(2 ** n):
                add(fam="mask", dom=dom, fdt=fdt, bits=bits, n=n)
    # ---- pad
    for shp in _shapes_1_2(tier, 5 if quick else 7, 3 if quick else 4):
        for delta in itertools.product(range(0, 3 if quick else 4), repeat=len(shp)):
            new = [a + b for a, b in zip(shp, delta)]
            for central in (False, True):
                for harm in (False, True):
                    for place in ("alone", "U-first", "U-last") + (() if quick else ("RG-first",)):
                        add(fam="pad", shape=shp, new=new, central=central, harmonic=harm, place=place)
    for shp, new in ([([2, 3, 2], [3, 3, 4]), ([2, 2, 3], [4, 3, 3])] if quick else
                     [([2, 3, 2], [3, 3, 4]), ([2, 2, 3], [4, 3, 3]), ([3, 2, 4], [5, 4, 4]), ([1, 2, 3], [2, 4, 5])]):
        for central in (False, True):
            add(fam="pad", shape=shp, new=new, central=central, harmonic=True, place="alone")
    # ---- regrid
    for shp in _shapes_1_2(tier, 6 if quick else 9, 3 if quick else 5):
        for new in itertools.product(*[range(1, n + 1) for n in shp]):
            for place in ("alone", "U-first", "U-last") + (() if quick else ("RG-first",)):
                add(fam="regrid", shape=shp, new=list(new), place=place)
    for shp, new in [([3, 2, 3], [2, 2, 1]), ([2, 3, 4], [2, 2, 3])]:
        add(fam="regrid", shape=shp, new=new, place="alone")
    # ---- interp
    idoms = [[[1]], [[2]], [[3]], [[4]], [[5]], [[2, 3]], [[3, 3]], [[1, 4]], [[2, 2, 2]], [[2], [3]], [[2, 3], [3, 2]], [[2], [2, 3]]]
    if not quick:
        idoms += [[[7]], [[4, 5]], [[2, 3, 2]], [[3], [2], [2]], [[3, 1]]]
    for d in idoms:
        for pcls in ("nodes", "midcells", "generic", "wrapcell", "far"):
            add(fam="interp", spaces=d, pcls=pcls)
    # ---- los
    for g in LOS_GRIDS_Q + ([] if quick else LOS_GRIDS_T):
        npts = len(_los_points(g, _dist(g, seed), seed))
        for si in range(npts):
            add(fam="los", shape=g, start=si, sig=None)
    for g in [[4], [4, 4]] + ([] if quick else [[3, 3, 2], [6], [5, 3]]):
        for rel_sig in (0.05, 0.2):
            for trunc in (3., 1.5):
                add(fam="los", shape=g, start=None, sig=rel_sig, trunc=trunc)
    # ---- nufft
    ngrids = [[1], [2], [3], [4], [5], [2, 3], [4, 4], [3, 2], [2, 3, 2]] + ([] if quick else [[6], [7], [5, 4], [1, 3], [3, 3, 2], [2, 2, 4]])
    for g in ngrids:
        for eps in (1e-3, 1e-6, 2e-10, 1e-12):
            add(fam="nufft", op="Nufft", shape=g, eps=eps)
    for g in [[2, 2], [2, 4], [4, 4], [4, 2]] + ([] if quick else [[6, 4], [2, 6]]):
        for eps in (1e-3, 1e-6, 2e-10, 1e-12):
            add(fam="nufft", op="Gridder", shape=g, eps=eps)
    for g in [[3], [4], [2, 3], [4, 3]] + ([] if quick else [[5], [3, 3], [2, 3, 2]]):
        for pre in (None, 2):
            for eps in (1e-6, 1e-11):
                add(fam="nufft", op="VarNufft", shape=g, eps=eps, pre=pre)
    for g in [[3], [4], [2, 3]] + ([] if quick else [[5], [4, 3], [2, 2, 2]]):
        for pre in (None, 2):
            dirs = [None] + ([0] if len(g) > 1 else []) + ([1] if len(g) > 1 else [])
            for sd in dirs:
                for delta in ("zero", "unit", "fraction") + (("decl",) if pre is not None and sd is None else ()):
                    add(fam="nufft", op="ShiftedFFT", shape=g, eps=1e-11, pre=pre, dirs=sd, delta=delta)
    # ---- sampling los
    for g in [[3], [5], [2, 3], [4, 4], [2, 2, 2]] + ([] if quick else [[2], [7], [3, 5], [3, 2, 3]]):
        for bmode in ("both", "start-shared", "end-shared"):
            for n in (1, 2, 3, 7, 50) + (() if quick else (500,)):
                add(fam="slos", shape=g, bmode=bmode, n=n)
    for g in ([[1, 4]]):
        add(fam="slos", shape=g, bmode="both", n=3)
    for g in [[3], [2, 3], [2, 2, 2]]:
        for bmode in ("both", "start-shared", "end-shared", "single"):
            add(fam="slos_target", shape=g, bmode=bmode)
    return cs


# ===================================================================================== mask
def _mask_domain(ift, dom):
    if dom[0] == "R":
        return ift.DomainTuple.make(ift.RGSpace(tuple(dom[1])))
    if dom[0] == "UxR":
        return ift.DomainTuple.make((ift.UnstructuredDomain(dom[1]), ift.RGSpace(tuple(dom[2]))))
    if dom[0] == "RxR":
        return ift.DomainTuple.make((ift.RGSpace(tuple(dom[1])), ift.RGSpace(tuple(dom[2]), distances=0.3)))
    if dom[0] == "RxU":
        return ift.DomainTuple.make((ift.RGSpace(tuple(dom[1])), ift.UnstructuredDomain(dom[2])))
    raise ValueError(dom)


def _run_mask(c):
    import nifty.cl as ift
    dom = _mask_domain(ift, c["dom"])
    n = dom.size
    flagged = np.array([(c["bits"] >> i) & 1 for i in range(n)], dtype=bool)
    vals = {"bool": flagged, "int": np.where(flagged, 3, 0).astype(np.int64),
            "float": np.where(flagged, 0.5, 0.)}[c["fdt"]]
    op = ift.MaskOperator(ift.makeField(dom, vals.reshape(dom.shape)))
    keep = np.flatnonzero(~flagged)
    if op.domain is not dom:
        raise Fail("domain is not the flags' domain", "MaskOperator|domain")
    t = op.target
    if not (len(t) == 1 and isinstance(t[0], ift.UnstructuredDomain) and tuple(t.shape) == (keep.size,)):
        raise Fail("target %r, documented UnstructuredDomain(%d) = number of unflagged pixels" % (t, keep.size), "MaskOperator|target-size")
    if op.capability != 3:
        raise Fail("capability %d" % op.capability, "MaskOperator|capability")
    S = np.zeros((keep.size, n))
    S[np.arange(keep.size), keep] = 1.
    napp = _check_linear_pair(ift, op, S, "MaskOperator", tol=0.)
    g = _R().signed_fill(n, c["seed"], 3)
    y = op(ift.makeField(dom, g.reshape(dom.shape))).asnumpy()
    if not np.array_equal(y, g[keep]):
        raise Fail("masking a generic field does not return exactly the unflagged pixel values", "MaskOperator|values")
    kind = "none-flagged" if keep.size == n else ("all-flagged" if keep.size == 0 else "partial")
    return ok(nontrivial=kind == "partial", outcome="mask|%s|%s|%s" % (c["dom"][0], c["fdt"], kind), stats=dict(applications=napp))


# ===================================================================================== pad
def _run_pad(c):
    import nifty.cl as ift
    R = _R()
    shp, new = c["shape"], c["new"]
    dist = _dist(shp, c["seed"])
    X = ift.RGSpace(tuple(shp), distances=tuple(dist), harmonic=c["harmonic"])
    spaces, idx = _place(ift, X, c["place"])
    dom = ift.DomainTuple.make(tuple(spaces))
    op = ift.FieldZeroPadder(dom, tuple(new), space=idx, central=c["central"])
    Y = op.target[idx]
    if not (isinstance(Y, ift.RGSpace) and tuple(Y.shape) == tuple(new) and Y.harmonic == c["harmonic"]
            and np.allclose(Y.distances, dist, rtol=1e-14, atol=0)):
        raise Fail("padded space %r, documented RGSpace(%s, same distances %s, harmonic=%s)" % (Y, new, dist, c["harmonic"]),
                   "FieldZeroPadder|target-geometry")
    if any(op.target[i] != dom[i] for i in range(len(dom)) if i != idx) or op.domain is not dom or op.capability != 3:
        raise Fail("domain / other sub-spaces / capability wrong", "FieldZeroPadder|declaration")
    P = R.kron_all([R.pad_matrix_1d(n, N, c["central"]) for n, N in zip(shp, new)])
    pre, post = _prepost(spaces, idx)
    W = R.embed(P, pre, post)
    tag = "central" if c["central"] else "end"
    napp = _check_linear_pair(ift, op, W, "FieldZeroPadder|%s" % tag, tol=0.)
    changed = list(shp) != list(new)
    even = any(n % 2 == 0 and N != n for n, N in zip(shp, new))
    return ok(nontrivial=changed, outcome="pad|%s|%dd|%s|%s" % (tag, len(shp), c["place"], "unchanged" if not changed else ("even-axis" if even else "odd-axes")),
              stats=dict(applications=napp))


# ===================================================================================== regrid
def _run_regrid(c):
    import nifty.cl as ift
    R = _R()
    shp, new = c["shape"], c["new"]
    dist = _dist(shp, c["seed"], 1)
    X = ift.RGSpace(tuple(shp), distances=tuple(dist))
    spaces, idx = _place(ift, X, c["place"])
    dom = ift.DomainTuple.make(tuple(spaces))
    op = ift.RegriddingOperator(dom, tuple(new), space=idx)
    Y = op.target[idx]
    nd = [d * n / m for d, n, m in zip(dist, shp, new)]
    if not (isinstance(Y, ift.RGSpace) and tuple(Y.shape) == tuple(new) and not Y.harmonic and np.allclose(Y.distances, nd, rtol=1e-13, atol=0)):
        raise Fail("regridded space %r, expected shape %s with distances %s (same extent)" % (Y, new, nd), "RegriddingOperator|target-geometry")
    if any(op.target[i] != dom[i] for i in range(len(dom)) if i != idx) or op.domain is not dom or op.capability != 3:
        raise Fail("domain / other sub-spaces / capability wrong", "RegriddingOperator|declaration")
    Wx = R.kron_all([R.regrid_matrix_1d(n, m) for n, m in zip(shp, new)])
    pre, post = _prepost(spaces, idx)
    W = R.embed(Wx, pre, post)
    napp = _check_linear_pair(ift, op, W, "RegriddingOperator" + ("|size-1-axis" if min(shp) == 1 else ""), tol=1e-12)
    # documented meaning: linear interpolation, i.e. exact for every multilinear function of the coordinates
    if len(spaces) == 1:
        src = [np.arange(n) * d for n, d in zip(shp, dist)]
        tgt = [np.arange(m) * d for m, d in zip(new, nd)]
        for S in R.monomials(len(shp)):
            if any(shp[a] == 1 for a in S):
                continue            # a single node cannot carry a slope
            f = R.monomial_on_nodes(shp, src, S)
            want = R.monomial_on_nodes(new, tgt, S)
            got = op(ift.makeField(dom, f)).asnumpy()
            _cmp(got, want, 1e-12, "regridding of the multilinear monomial x_%s is not exact" % (S,), "RegriddingOperator|monomial-not-exact")
    changed = list(shp) != list(new)
    frac = any((j * n) % m != 0 for n, m in zip(shp, new) for j in range(m))
    return ok(nontrivial=changed, outcome="regrid|%dd|%s|%s" % (len(shp), c["place"], "unchanged" if not changed else ("fractional" if frac else "node-aligned")),
              stats=dict(applications=napp))


# ===================================================================================== interp
def _interp_positions(shape, dist, pcls, seed):
    R = _R()
    nd = len(shape)
    if pcls == "nodes":
        pts = [[i * d for i, d in zip(idx, dist)] for idx in itertools.product(*[range(n) for n in shape])]
    elif pcls == "midcells":
        pts = [[(i + 0.5) * d for i, d in zip(idx, dist)] for idx in itertools.product(*[range(max(1, n - 1)) for n in shape])]
    elif pcls == "generic":
        k = 12
        u = [R.fill(k, seed, 20 + a) for a in range(nd)]
        pts = [[u[a][j] * max(shape[a] - 1, 0) * dist[a] for a in range(nd)] for j in range(k)]
    elif pcls == "wrapcell":
        k = 6
        u = [R.fill(k, seed, 30 + a) for a in range(nd)]
        pts = [[(shape[a] - 1 + 0.05 + 0.9 * u[a][j]) * dist[a] for a in range(nd)] for j in range(k)]
    elif pcls == "far":
        k = 8
        u = [R.fill(k, seed, 40 + a, -3.3, 4.7) for a in range(nd)]
        pts = [[u[a][j] * shape[a] * dist[a] for a in range(nd)] for j in range(k)]
        pts += [[-0.25 * d for d in dist], [n * d for n, d in zip(shape, dist)], [-n * d for n, d in zip(shape, dist)]]
    else:
        raise ValueError(pcls)
    return np.array(pts, dtype=float).T.reshape(nd, -1)


def _run_interp(c):
    import nifty.cl as ift
    R = _R()
    spaces_s = c["spaces"]
    shape = [n for s in spaces_s for n in s]
    dist = _dist(shape, c["seed"], 2)
    spaces, off = [], 0
    for s in spaces_s:
        spaces.append(ift.RGSpace(tuple(s), distances=tuple(dist[off:off + len(s)])))
        off += len(s)
    dom = ift.DomainTuple.make(tuple(spaces))
    pts = _interp_positions(shape, dist, c["pcls"], c["seed"])
    try:
        op = ift.LinearInterpolator(dom, pts)
    except TypeError as e:
        if len(set(len(s) for s in spaces_s)) > 1:
            return skip("LinearInterpolator rejects domains mixing spaces of different dimensionality (announced limitation)")
        raise
    if op.domain is not dom or tuple(op.target.shape) != (pts.shape[1],) or op.capability != 3:
        raise Fail("domain/target/capability wrong: %r" % (op.target,), "LinearInterpolator|declaration")
    W = R.interp_matrix_periodic(shape, dist, pts)
    napp = _check_linear_pair(ift, op, W, "LinearInterpolator", tol=1e-12)
    if np.abs(W.sum(axis=1) - 1.).max() > 1e-12:
        raise Fail("harness: reference weights do not sum to one", "harness")
    nmono = 0
    inside = np.all((pts >= 0) & (pts <= (np.array(shape)[:, None] - 1) * np.array(dist)[:, None] * (1 + 1e-15)), axis=0)
    if inside.any():
        nodes = [np.arange(n) * d for n, d in zip(shape, dist)]
        for S in R.monomials(len(shape)):
            f = R.monomial_on_nodes(shape, nodes, S)
            got = op(ift.makeField(dom, f)).asnumpy()[inside]
            want = np.prod(pts[list(S)][:, inside], axis=0) if S else np.ones(int(inside.sum()))
            _cmp(got, want, 1e-12, "interpolation of the multilinear monomial x_%s is not exact at a non-wrapping position" % (S,),
                 "LinearInterpolator|monomial-not-exact", scale=max(1., float(np.abs(f).max())))
            nmono += 1
    strictly = bool(np.any((W > 1e-9) & (W < 1 - 1e-9)))
    return ok(nontrivial=strictly or c["pcls"] == "nodes", outcome="interp|%s|%dd|%dspaces|%s" % (c["pcls"], len(shape), len(spaces_s), "monomials" if nmono else "weights-only"),
              stats=dict(applications=napp, monomial_checks=nmono))


# ===================================================================================== los
def _los_points(shape, dist, seed):
    R = _R()
    nd = len(shape)
    pts = []
    pts.append([0.] * nd)                                                    # centre of pixel 0
    pts.append([(n - 1) * d for n, d in zip(shape, dist)])                   # centre of the last pixel
    pts.append([-0.5 * d for d in dist])                                     # lower box corner
    pts.append([(n - 0.5) * d for n, d in zip(shape, dist)])                 # upper box corner
    pts.append([(n // 2 + 0.5) * d if n > 1 else 0.1 * d for n, d in zip(shape, dist)])   # an interior cell corner
    pts.append([-1.3 * d for d in dist])                                     # outside, below
    pts.append([(n + 0.8) * d for n, d in zip(shape, dist)])                 # outside, above
    pts.append([(-0.9 * d if a % 2 == 0 else (n + 0.4) * d) for a, (n, d) in enumerate(zip(shape, dist))])  # outside, mixed
    for j in range(3):                                                       # generic interior points
        u = R.fill(nd, seed, 50 + j)
        pts.append([(-0.5 + u[a] * shape[a]) * dist[a] for a in range(nd)])
    u = R.fill(nd, seed, 60)
    pts.append([pts[8][0]] + [(-0.5 + u[a] * shape[a]) * dist[a] for a in range(1, nd)])   # shares coordinate 0 with a generic point (axis-parallel in 2-d+)
    return [[round(float(x), 6) for x in p] for p in pts]


def _seg_class(a, b):
    d = np.asarray(b) - np.asarray(a)
    nz = int(np.count_nonzero(d))
    return "axis-parallel" if nz == 1 and len(d) > 1 else ("diagonal" if nz > 1 and len(set(np.round(np.abs(d[d != 0]), 9))) == 1 and len(d) > 1 else "generic")


def _run_los(c):
    import nifty.cl as ift
    R = _R()
    shape = c["shape"]
    dist = _dist(shape, c["seed"], 3)
    dom = ift.DomainTuple.make(ift.RGSpace(tuple(shape), distances=tuple(dist)))
    N = dom.size
    if c["sig"] is None:
        P = _los_points(shape, _dist(shape, c["seed"]), c["seed"])
        # the alphabet is generated for the geometry of this case
        P = _los_points(shape, dist, c["seed"])
        a = P[c["start"]]
        ends = [b for j, b in enumerate(P) if j != c["start"] and b != a]
        amb = [b for b in ends if R.along_boundary(a, b, dist)]
        ends = [b for b in ends if not R.along_boundary(a, b, dist)]
        if not ends:
            return skip("all lines from this start point lie inside cell-boundary hyperplanes")
        st = np.array([a] * len(ends), dtype=float).T
        en = np.array(ends, dtype=float).T
        with warnings.catch_warnings():
            warnings.simplefilter("ignore")
            op = ift.LOSResponse(dom, st, en)
        if op.domain is not dom or tuple(op.target.shape) != (len(ends),) or op.capability != 3:
            raise Fail("domain/target/capability wrong", "LOSResponse|declaration")
        T = _cmatrix(ift, op, 1, dom, op.target, "LOSResponse|TIMES")
        A = _cmatrix(ift, op, 2, op.target, dom, "LOSResponse|ADJOINT")
        crossed = 0
        for i, b in enumerate(ends):
            row = R.los_row(a, b, shape, dist)
            L = float(np.linalg.norm(np.array(b) - np.array(a)))
            crossed += int(np.count_nonzero(row) >= 2)
            where = "inside" if abs(row.sum() - L) < 1e-9 * max(1., L) else ("outside" if row.sum() == 0 else "partly-outside")
            key = "LOSResponse|line-integral|%s|%s" % (_seg_class(a, b), where)
            tol = 3e-6 * max(1., L)
            _cmp(T["f8"][i].real, row, tol, "line %s -> %s: cell lengths differ from the clipped segment lengths" % (a, b), key, scale=1.)
            _cmp(T["c16"][i], 1j * row, tol, "line %s -> %s on imaginary input" % (a, b), key + "|complex-input", scale=1.)
        _cmp(A["f8"], T["f8"].T, 1e-12, "LOSResponse ADJOINT_TIMES is not the transpose of TIMES", "LOSResponse|adjoint-not-transpose")
        _cmp(A["c16"], T["c16"].T, 1e-12, "LOSResponse ADJOINT_TIMES (imaginary input) is not the transpose", "LOSResponse|adjoint-not-transpose")
        return ok(nontrivial=crossed > 0, outcome="los|%dd|%s" % (len(shape), "multi-cell" if crossed else "single-cell"),
                  stats=dict(applications=4 * (N + len(ends)), lines=len(ends), lines_excluded_boundary=len(amb)))
    # ---- uncertain end points
    P = _los_points(shape, dist, c["seed"])
    inner = [P[0], P[1], P[8], P[9], P[10]]
    pairs = [(a, b) for a in inner for b in inner if a != b and not R.along_boundary(a, b, dist)]
    st = np.array([p[0] for p in pairs], dtype=float).T
    en = np.array([p[1] for p in pairs], dtype=float).T
    Ls = np.linalg.norm(en - st, axis=0)
    sig = c["sig"] / Ls                               # sigma of 1/length, relative to 1/L
    if np.any(1. / Ls - c["trunc"] * sig <= 0):
        return skip("truncation too high for this sigma (documented ValueError)")
    with warnings.catch_warnings():
        warnings.simplefilter("ignore")
        op = ift.LOSResponse(dom, st, en, sigmas=sig, truncation=c["trunc"])
    T = _cmatrix(ift, op, 1, dom, op.target, "LOSResponse|TIMES")
    A = _cmatrix(ift, op, 2, op.target, dom, "LOSResponse|ADJOINT")
    worst = 0.
    for i, (a, b) in enumerate(pairs):
        rm, rx, bd = R.los_row_parallax(a, b, shape, dist, sig[i], c["trunc"])
        hi = 1. / (1. / Ls[i] - c["trunc"] * sig[i])
        tol = 3e-6 * max(1., hi)
        _cmp(T["f8"][i].real, rm, tol, "line %s -> %s with sigma: weights differ from survival(mid-distance) * length in cell" % (a, b),
             "LOSResponse|parallax|mid-cell-weights", scale=1.)
        dev = np.abs(T["f8"][i].real - rx)
        if np.any(dev > bd + tol):
            j = int(np.argmax(dev - bd))
            raise Fail("line %s -> %s with sigma: cell %d weight %.6g is farther from the exact expected length %.6g than the rigorous bound %.3g"
                       % (a, b, j, T["f8"][i].real[j], rx[j], bd[j]), "LOSResponse|parallax|expected-integral")
        worst = max(worst, float(dev.max()))
    _cmp(A["f8"], T["f8"].T, 1e-12, "LOSResponse ADJOINT_TIMES is not the transpose of TIMES", "LOSResponse|adjoint-not-transpose")
    return ok(nontrivial=True, outcome="los|%dd|parallax" % len(shape), stats=dict(applications=4 * (N + len(pairs)), lines=len(pairs)),
              detail=dict(max_dev_from_exact_expected_integral=worst))


# ===================================================================================== nufft
def _positions(shape, dist, seed):
    R = _R()
    nd = len(shape)
    ext = [n * d for n, d in zip(shape, dist)]
    pts = [[0.] * nd, [1. / e for e in ext], [0.5 / e for e in ext]]        # zero, one and half a frequency pixel (in 1/extent units)
    for j in range(3):
        u = R.fill(nd, seed, 70 + j, -1., 1.)
        pts.append([u[a] / dist[a] * 0.5 for a in range(nd)])               # generic inside the Nyquist band
    u = R.fill(nd, seed, 80, -1., 1.)
    pts.append([(3. + u[a]) / dist[a] for a in range(nd)])                   # beyond one period
    return np.array(pts, dtype=float)


def _rel_l2(got, want, norm=None):
    """l2 error relative to `norm` (default: |want|); a unit input against unimodular Fourier factors has norm sqrt(N)."""
    got, want = np.asarray(got).reshape(-1), np.asarray(want).reshape(-1)
    if got.shape != want.shape:
        return float("inf")
    nrm = float(np.linalg.norm(want)) if norm is None else float(norm)
    return float(np.linalg.norm(got - want) / max(nrm, 1e-300))


def _run_nufft(c):
    import nifty.cl as ift
    R = _R()
    shape, eps = c["shape"], c["eps"]
    dist = [round(d * 0.4, 4) for d in _dist(shape, c["seed"], 1)]
    X = ift.RGSpace(tuple(shape), distances=tuple(dist))
    N = X.size
    tol = 5. * eps + 2e-13
    if c["op"] in ("Nufft", "Gridder"):
        pos = _positions(shape, dist, c["seed"])
        op = ift.Nufft(X, pos, eps) if c["op"] == "Nufft" else ift.Gridder(X, pos, eps)
        name = c["op"]
        if tuple(op.domain.shape) != (len(pos),) or op.target[0] != X or op.capability != 3:
            raise Fail("domain/target/capability wrong", "%s|declaration" % name)
        E = R.nufft_phase(shape, dist, pos)                                 # (npos, N)
        worst = 0.
        for j in range(len(pos)):
            for v in (1., 1j):
                x = np.zeros(len(pos), dtype=np.complex128)
                x[j] = v
                y = np.asarray(op(ift.makeField(op.domain, x)).asnumpy())
                if np.iscomplexobj(y) or y.shape != tuple(shape):
                    raise Fail("%s TIMES output dtype/shape %s %s" % (name, y.dtype, y.shape), "%s|TIMES|output-type" % name)
                e = _rel_l2(y, np.real(v * E[j]), np.sqrt(N))
                worst = max(worst, e)
                if not e <= tol:
                    raise Fail("%s TIMES: relative l2 error %.2e > 5 * requested epsilon %.1e (point %d = %s)" % (name, e, eps, j, pos[j]),
                               "%s|TIMES|accuracy-worse-than-epsilon" % name)
        for k in range(N):
            g = np.zeros(N)
            g[k] = 1.
            y = np.asarray(op.adjoint_times(ift.makeField(op.target, g.reshape(shape))).asnumpy())
            want = np.conj(E[:, k])
            e = _rel_l2(y, want, np.sqrt(len(pos)))
            worst = max(worst, e)
            if y.shape != (len(pos),) or not e <= tol:
                raise Fail("%s ADJOINT_TIMES: relative l2 error %.2e > 5 * requested epsilon %.1e (grid pixel %d)" % (name, e, eps, k),
                           "%s|ADJOINT|accuracy-worse-than-epsilon" % name)
        return ok(nontrivial=N > 1, outcome="nufft|%s|%dd|eps=%g" % (name, len(shape), eps), stats=dict(applications=2 * len(pos) + N),
                  detail=dict(worst_rel_l2=worst))
    pre = c["pre"]
    pre_dom = None if pre is None else ift.UnstructuredDomain(pre)
    ntr = 1 if pre is None else pre
    ks = [k.reshape(-1) for k in R.centred_modes(shape)]
    if c["op"] == "VarNufft":
        npnt = 3
        op = ift.VariablePositionNufft(X, npnt, eps, pre_dom)
        coord = _positions(shape, dist, c["seed"])[[3, 4, 6]]
        gvals = (R.signed_fill(ntr * N, c["seed"], 5) + 1j * R.signed_fill(ntr * N, c["seed"], 6)).reshape(ntr, N)
        gdom, cdom = op.domain["grid"], op.domain["coord"]
        if tuple(gdom.shape) != ((() if pre is None else (pre,)) + tuple(shape)) or tuple(cdom.shape) != (npnt, len(shape)) or \
                tuple(op.target.shape) != ((() if pre is None else (pre,)) + (npnt,)):
            raise Fail("documented domain/target shapes violated", "VariablePositionNufft|declaration")
        x = ift.MultiField.from_dict({"grid": ift.makeField(gdom, gvals.reshape(gdom.shape)), "coord": ift.makeField(cdom, coord)}, op.domain)
        E = np.conj(R.nufft_phase(shape, dist, coord))                      # exp(-2 pi i k d coord), (npnt, N)
        want = gvals @ E.T                                                  # (ntr, npnt)
        lin = op(ift.Linearization.make_var(x))
        got = np.asarray(lin.val.asnumpy()).reshape(ntr, npnt)
        got0 = np.asarray(op(x).asnumpy()).reshape(ntr, npnt)
        for g_, lab in ((got, "linearization"), (got0, "field")):
            e = _rel_l2(g_, want)
            if not e <= tol:
                raise Fail("VariablePositionNufft value (%s): relative l2 error %.2e > 5 eps" % (lab, e), "VariablePositionNufft|value|accuracy")
        # Jacobian: d val[t, j] / d grid[t, k] = E[j, k];  d val[t, j] / d coord[j, a] = sum_k grid[t, k] (-2 pi i k_a d_a) E[j, k]
        jac = lin.jac
        worst = 0.
        for t in range(ntr):
            for k in range(N):
                for v in (1., 1j):
                    dg = np.zeros((ntr, N), dtype=np.complex128)
                    dg[t, k] = v
                    dx = ift.MultiField.from_dict({"grid": ift.makeField(gdom, dg.reshape(gdom.shape)), "coord": ift.full(cdom, 0.)}, op.domain)
                    y = np.asarray(jac(dx).asnumpy()).reshape(ntr, npnt)
                    w = np.zeros((ntr, npnt), dtype=np.complex128)
                    w[t] = v * E[:, k]
                    if not _rel_l2(y, w, np.sqrt(npnt)) <= tol:
                        raise Fail("Jacobian w.r.t. grid differs from the explicit Fourier factor", "VariablePositionNufft|jacobian|grid")
        dco = np.zeros((ntr, npnt, npnt, len(shape)), dtype=np.complex128)       # d val[t, j] / d coord[j', a]
        for a in range(len(shape)):
            D = (gvals * (-2j * np.pi * ks[a] * dist[a])[None, :]) @ E.T
            for j in range(npnt):
                dco[:, j, j, a] = D[:, j]
        for j in range(npnt):
            for a in range(len(shape)):
                dc = np.zeros((npnt, len(shape)))
                dc[j, a] = 1.
                dx = ift.MultiField.from_dict({"grid": ift.full(gdom, 0. + 0j), "coord": ift.makeField(cdom, dc)}, op.domain)
                y = np.asarray(jac(dx).asnumpy()).reshape(ntr, npnt)
                e = float(np.linalg.norm(y - dco[:, :, j, a]) / max(np.linalg.norm(dco[:, :, j, a]), 1e-300))
                worst = max(worst, e)
                if not e <= 20 * tol:
                    raise Fail("Jacobian w.r.t. coord[%d,%d] differs from the analytic derivative of the Fourier sum (rel %.2e)" % (j, a, e),
                               "VariablePositionNufft|jacobian|coord")
        # adjoint Jacobian: Re <y, J dx> = Re <J^+ y, dx> on the basis of the target
        for t in range(ntr):
            for j in range(npnt):
                for v in (1., 1j):
                    yv = np.zeros((ntr, npnt), dtype=np.complex128)
                    yv[t, j] = v
                    r = jac.adjoint_times(ift.makeField(op.target, yv.reshape(op.target.shape)))
                    rg = np.asarray(r["grid"].asnumpy()).reshape(ntr, N)
                    rc = np.asarray(r["coord"].asnumpy()).reshape(npnt, len(shape))
                    wg = np.zeros((ntr, N), dtype=np.complex128)
                    wg[t] = v * np.conj(E[j])
                    wc = np.real(np.conj(dco[t, j]) * v)                   # (npnt, ndim): Re(conj(d val / d coord) y)
                    if not (_rel_l2(rg, wg, np.sqrt(N)) <= tol and np.abs(rc - wc).max() <= 20 * tol * max(1., np.abs(dco).max())):
                        raise Fail("adjoint Jacobian differs from the conjugate transpose of the analytic Jacobian", "VariablePositionNufft|jacobian|adjoint")
        return ok(nontrivial=True, outcome="nufft|VarNufft|%dd|pre=%s|eps=%g" % (len(shape), pre, eps),
                  stats=dict(applications=2 * ntr * N + npnt * len(shape) + 2 * ntr * npnt), detail=dict(worst_coord_jac_rel=worst))
    # ---- ShiftedPositionFFT
    dirs = c["dirs"]
    op = ift.ShiftedPositionFFT(X, eps, pre_dom, dirs)
    H = X.get_default_codomain()
    ndir = len(shape) if dirs is None else 1
    ddom = op.domain["delta_coord"]
    doc_dshape = (() if pre is None else (pre,)) + tuple(shape) + (ndir,)
    want_dshape = tuple(shape) + (ndir,)               # one shift per frequency pixel, shared by all pre_domain entries
    if tuple(op.target.shape) != (() if pre is None else (pre,)) + tuple(shape) or op.target[-1] != H or \
            tuple(op.domain["grid"].shape) != (() if pre is None else (pre,)) + tuple(shape):
        raise Fail("documented grid domain / target of ShiftedPositionFFT violated: %r -> %r" % (op.domain, op.target), "ShiftedPositionFFT|declaration")
    doc_mismatch = tuple(ddom.shape) != doc_dshape
    if tuple(ddom.shape) not in (doc_dshape, want_dshape):
        raise Fail("delta_coord has shape %s, documented %s" % (ddom.shape, doc_dshape), "ShiftedPositionFFT|delta_coord-domain")
    want_dshape = tuple(ddom.shape)
    act = list(range(len(shape))) if dirs is None else [dirs]
    if c["delta"] in ("zero", "decl"):
        delta = np.zeros(want_dshape)
    elif c["delta"] == "unit":
        delta = np.ones(want_dshape)
    else:
        delta = R.fill(int(np.prod(want_dshape)), c["seed"], 9, -0.9, 0.9).reshape(want_dshape)
    gvals = (R.signed_fill(ntr * N, c["seed"], 5) + 1j * R.signed_fill(ntr * N, c["seed"], 6)).reshape((ntr,) + tuple(shape))
    gdom = op.domain["grid"]
    x = ift.MultiField.from_dict({"grid": ift.makeField(gdom, gvals.reshape(gdom.shape)), "delta_coord": ift.makeField(ddom, delta)}, op.domain)
    got = np.asarray(op(x).asnumpy()).reshape((ntr,) + tuple(shape))
    # documented: FFT on the regular grid (volume convention) evaluated at the frequencies (fftfreq index + delta) * hdist
    dl = delta.reshape((ntr,) + tuple(shape) + (ndir,)) if delta.ndim == len(shape) + 2 else np.broadcast_to(delta, (ntr,) + tuple(shape) + (ndir,))
    want = np.zeros((ntr,) + tuple(shape), dtype=np.complex128)
    hd = [1. / (n * d) for n, d in zip(shape, dist)]
    # pixel m of an axis sits at m d for the centred window m = -(n//2) .. n - n//2 - 1 (pixel index m mod n): for grid
    # frequencies this is the plain DFT; between them it is the band-limited interpolation the NUFFT evaluates
    xs = np.meshgrid(*[np.where(np.arange(n) < n - n // 2, np.arange(n), np.arange(n) - n) * d for n, d in zip(shape, dist)], indexing="ij")
    vol = float(np.prod(dist))
    for t in range(ntr):
        for kidx in np.ndindex(*shape):
            f = []
            for a in range(len(shape)):
                ka = kidx[a] if kidx[a] < (shape[a] + 1) // 2 else kidx[a] - shape[a]          # numpy.fft.fftfreq ordering
                sh = dl[(t,) + kidx + (act.index(a),)] if a in act else 0.
                f.append((ka + sh) * hd[a])
            ph = sum(f[a] * xs[a] for a in range(len(shape)))
            want[(t,) + kidx] = vol * np.sum(gvals[t] * np.exp(-2j * np.pi * ph))
    e = _rel_l2(got, want)
    if not e <= 20 * tol:
        raise Fail("ShiftedPositionFFT(delta=%s) differs from the explicit Fourier sum at the shifted frequencies: rel l2 %.2e" % (c["delta"], e),
                   "ShiftedPositionFFT|value|%s" % c["delta"])
    if doc_mismatch and c["delta"] == "decl":
        raise Fail("delta_coord has shape %s (no pre_domain axis: one shift shared by all pre_domain entries), documented (pre_domain, grid_domain, ndim) = %s; "
                   "values are correct for the shared shift" % (ddom.shape, doc_dshape), "ShiftedPositionFFT|delta_coord-domain-lacks-pre_domain")
    return ok(nontrivial=True, outcome="nufft|ShiftedFFT|%dd|pre=%s|dirs=%s|%s" % (len(shape), pre, "all" if dirs is None else "one", c["delta"]),
              stats=dict(applications=1), detail=dict(rel_l2=e))


# ===================================================================================== sampling los (nifty.re)
def _slos_segments(shape, spacing, seed):
    R = _R()
    nd = len(shape)
    ext = [(n - 1) * s for n, s in zip(shape, spacing)]
    P = [[0.] * nd, [0.999 * e for e in ext], [0.5 * e for e in ext]]
    for j in range(3):
        u = R.fill(nd, seed, 90 + j, 0.02, 0.97)
        P.append([u[a] * ext[a] for a in range(nd)])
    P.append([P[3][0]] + [0.9 * e for e in ext[1:]])
    return [[round(float(x), 6) for x in p] for p in P]


def _run_slos(c):
    import jax
    import nifty.re as jft
    R = _R()
    shape, n = c["shape"], c["n"]
    dist = _dist(shape, c["seed"], 2)
    if min(shape) == 1:
        # premise boundary: an axis of length 1 has no cell; the operator answers NaN (loud), never a number
        op = jft.SamplingCartesianGridLOS(np.zeros((1, len(shape))), np.array([[0.5 * d for d in dist]]), shape=tuple(shape), distances=tuple(dist), n_sampling_points=n)
        y = np.asarray(op(np.ones(tuple(shape))))
        if np.all(np.isfinite(y)):
            return ok(nontrivial=False, outcome="slos|size-1-axis|finite")
        return skip("axis of length 1: no interpolation cell, the operator returns NaN (outside the premise)")
    spacing = [N * d / (N - 1) for N, d in zip(shape, dist)]               # node spacing implied by the location -> index map
    P = _slos_segments(shape, spacing, c["seed"])
    if c["bmode"] == "both":
        pairs = [(a, b) for a in P for b in P if a != b]
        st, en = np.array([p[0] for p in pairs]), np.array([p[1] for p in pairs])
        out_shape = (len(pairs),)
    elif c["bmode"] == "start-shared":
        pairs = [(P[3], b) for b in P if b != P[3]]
        st, en = np.array(P[3]), np.array([p[1] for p in pairs])
        out_shape = (len(pairs),)
    else:
        pairs = [(a, P[4]) for a in P if a != P[4]]
        st, en = np.array([p[0] for p in pairs]), np.array(P[4])
        out_shape = (len(pairs),)
    op = jft.SamplingCartesianGridLOS(st, en, shape=tuple(shape), distances=tuple(dist), n_sampling_points=n)
    N = int(np.prod(shape))
    cols = []
    for k in range(N):
        e = np.zeros(N)
        e[k] = 1.
        y = np.asarray(op(e.reshape(shape)))
        if y.shape != out_shape:
            raise Fail("output shape %s, expected one value per line %s" % (y.shape, out_shape), "SamplingCartesianGridLOS|output-shape")
        cols.append(y)
    W = np.array(cols).T
    Wref = np.array([R.sampling_los_row(a, b, shape, spacing, n) for a, b in pairs])
    _cmp(W, Wref, 1e-12, "sampled weights differ from midpoint sampling of the multilinear interpolant", "SamplingCartesianGridLOS|weights",
         scale=max(1., float(np.abs(Wref).max())))
    # linearity beyond the basis + exactness for affine fields, for EVERY number of sampling points
    nodes = [np.arange(Na) * s for Na, s in zip(shape, spacing)]
    for S in R.monomials(len(shape)):
        if len(S) > 1:
            continue
        f = R.monomial_on_nodes(shape, nodes, S) + (0.3 if S else 0.)
        got = np.asarray(op(f))
        want = np.array([np.linalg.norm(np.array(b) - np.array(a)) * ((0.5 * (a[S[0]] + b[S[0]]) + 0.3) if S else 1.) for a, b in pairs])
        _cmp(got, want, 1e-11, "line integral of the affine field x_%s is not exact with %d sampling points" % (S, n),
             "SamplingCartesianGridLOS|affine-not-exact", scale=max(1., float(np.abs(want).max())))
    # distance to the exact integral of the interpolant: rigorous composite-midpoint bound
    g = R.signed_fill(N, c["seed"], 8).reshape(shape)
    got = np.asarray(op(g))
    gmax = float(np.abs(g).max())
    worst = 0.
    for i, (a, b) in enumerate(pairs):
        ex = R.interpolant_line_integral(g, a, b, spacing)
        L = float(np.linalg.norm(np.array(b) - np.array(a)))
        di = np.abs((np.array(b) - np.array(a)) / np.array(spacing))
        lip = 2. * gmax * di.sum()                  # |d/dt| of the interpolant along the line
        curv = 4. * gmax * di.sum() ** 2            # |d2/dt2| inside a cell
        ncross = int(np.ceil(di).sum()) + 1
        bound = L * (curv / (24. * n * n) + min(ncross, n) * lip / (4. * n * n)) + 1e-12 * L * gmax
        worst = max(worst, abs(got[i] - ex) / max(bound, 1e-300))
        if abs(got[i] - ex) > bound:
            raise Fail("line %s -> %s: sampled integral %.8g differs from the exact integral of the interpolant %.8g by more than the midpoint-rule bound %.3g (n=%d)"
                       % (a, b, got[i], ex, bound, n), "SamplingCartesianGridLOS|not-converging-to-line-integral")
    return ok(nontrivial=True, outcome="slos|%dd|%s|n=%d" % (len(shape), c["bmode"], n), stats=dict(applications=N + 4, lines=len(pairs)),
              detail=dict(worst_fraction_of_bound=worst))


def _run_slos_target(c):
    """Model contract: `target` is the shape/dtype structure of what `__call__` returns."""
    import jax
    import nifty.re as jft
    shape = c["shape"]
    dist = _dist(shape, c["seed"], 2)
    nd = len(shape)
    a = np.array([[0.1 * d for d in dist], [0.2 * d for d in dist], [0.3 * d for d in dist], [0.05 * d for d in dist]])
    b = np.array([[0.6 * d * (n - 1) for n, d in zip(shape, dist)]] * 4) + a
    st, en = {"both": (a, b), "start-shared": (a[0], b), "end-shared": (a, b[0]), "single": (a[0], b[0])}[c["bmode"]]
    op = jft.SamplingCartesianGridLOS(st, en, shape=tuple(shape), distances=tuple(dist), n_sampling_points=4)
    y = np.asarray(op(np.ones(tuple(shape))))
    L = np.linalg.norm(np.atleast_2d(en) - np.atleast_2d(st), axis=1)
    if c["bmode"] == "single":
        # documented: start and end may both have shape (n_dim,): ONE line, one value (shape () or (1,))
        if y.size != 1 or not np.allclose(y.reshape(-1), L, rtol=1e-12, atol=0):
            raise Fail("start and end of shape (n_dim,) = one line of length %.6g through a unit field, but the model returns %s (vmapped over the coordinates)"
                       % (L[0], y), "SamplingCartesianGridLOS|single-line|mapped-over-coordinates")
    else:
        if y.shape != (4,):
            raise Fail("output shape %s, expected one value per line (4,)" % (y.shape,), "SamplingCartesianGridLOS|output-shape")
        if not np.allclose(y, L, rtol=1e-12, atol=0):
            raise Fail("integral of the unit field %s is not the line length %s" % (y, L), "SamplingCartesianGridLOS|unit-field")
    ev = jax.eval_shape(op, op.domain)
    tshape = tuple(getattr(op.target, "shape", ()))
    if tshape != y.shape or tuple(ev.shape) != y.shape:
        raise Fail("declared target shape %s, but the model returns shape %s (start %s, end %s)" % (tshape, y.shape, np.shape(st), np.shape(en)),
                   "SamplingCartesianGridLOS|declared-target-shape")
    return ok(nontrivial=True, outcome="slos_target|%s" % c["bmode"])


# ===================================================================================== dispatch
_FAM = {"mask": _run_mask, "pad": _run_pad, "regrid": _run_regrid, "interp": _run_interp, "los": _run_los, "nufft": _run_nufft, "slos": _run_slos, "slos_target": _run_slos_target}


def run(case):
    try:
        return _FAM[case["fam"]](case)
    except Fail as f:
        return bad(f.what, finding_key=f.key, detail=f.detail)


def finish(run):
    fam = {}
    for o, n in run.outcomes.items():
        fam[o.split("|")[0]] = fam.get(o.split("|")[0], 0) + n
    return dict(cases_passing_per_family=fam)
