"""C34 Lanczos, stochastic log-determinant and ELBO estimators are exact in the limit.

Mode P (configuration / basis enumeration) with the probe draw behind a seam.

part "tri"   every SPD matrix of the alphabet (spectrum kind x eigenbasis kind, n <= 6) x EVERY probe
             (all e_i, all e_i +- e_j, all 2^n sign patterns) x every order 1..n+1 x every
             re-orthogonalisation mode (+ the public `lanczos_tridiag`): the tridiagonal equals the Jacobi
             matrix of the spectral measure of (A, z) (Householder reference, not a Lanczos recurrence); at
             order >= Krylov dimension its spectrum is the support of the measure (all / extreme eigenvalues),
             below it the extreme Ritz values obey the Kaniel-Paige bound and interlace.
part "quad"  `_slq_gauss_radau` is run with ONE scripted probe at a time (the Rademacher draw
             `jax.random.rademacher` is replaced by a key-driven table look-up): for every probe the Gauss value is
             z^T log(A) z exactly once order >= Krylov dimension (also after projecting out exact eigenvectors,
             for the extra trace-inverse function, dense and call-able operators, all re-orthogonalisation modes);
             below that it is the unique m-point Gauss rule of the measure (which over-estimates log);
             Radau values bracket the exact value.
part "est"   the estimators themselves with ALL 2^n sign patterns (resp. all scaled basis vectors) served as the
             probe set, for every split of the probes into micro-batches: estimate = log det A exactly for
             order >= n, standard error = closed form; eager = compiled; float32 option.
part "elbo"  linear Gaussian models (shape x response kind x noise x data): `estimate_evidence_lower_bound`
             (JAX and classic) with all eigenvalues = closed form (per sample and mean) <= log-evidence, with equality
             for the exact posterior (sigma-point samples reproduce the posterior covariance exactly); same value
             eager/jit, signal/data/auto space, one go / resumed from the saved eigensystem at every split point,
             eigsh / SLQ remainder with every number of exact eigenvalues (all sign patterns served), analytic prior term.
"""
import itertools
import os
import shutil
import tempfile
import warnings

import numpy as np

from vf.core import ok, bad, skip
from vf.ref import c34_ref as RF

ID = "C34"
LEVEL = "exploration"
RULE = ("case = one configuration: (tri|quad|est: dimension n, order, re-orthogonalisation / API / operator form / "
        "Radau / number of deflated eigenvectors / probe set / micro-batch size / eager-jit / dtype) and inside the case "
        "EVERY matrix of the alphabet (spectra lin/geo/degenerate-top/pairs/const/fill x bases eye/rot/block/ones/"
        "hadamard) x EVERY probe (e_i, e_i+-e_j, all 2^n sign patterns); (elbo: model with all numbers written out x "
        "flavour x space x method x jit x resume split x n_batches 10/1/2/3 x analytic prior x posterior kind). non-trivial = the library "
        "routine ran and at least one probe / value was decided against the reference (for quad/est: exactness at "
        "order >= Krylov dimension or the Gauss rule below it)")
ASSUMPTIONS = [
    "the only randomness of the SLQ estimators is jax.random.rademacher(batch_key, (bsz, n)) with batch keys "
    "jax.random.split(key, num_batches+1) (mirrored by the seam; any other key reaches the seam as NaN probes and is reported)",
    "numeric values are alphabet values (eigenvalues in [0.2, 5], gaps >= 0.1 or exactly degenerate; responses with "
    "singular values >= 0.4); structure (probes, orders, splits, options) is exhaustive",
    "probes whose spectral weights fall in (1e-26, 1e-7) have an ill-conditioned Krylov dimension and are skipped (counted)",
    "ELBO premise: samples represent Q = N(pos, metric^-1) (antithetic sigma points with second moment exactly D); "
    "no relevant eigenvalue in (1, 1+1e-2) other than exact ones (early-stop window); simple non-unit spectrum (ARPACK)",
    "zero padding after a Lanczos breakdown is only demanded as decoupling (|beta| <= 1e-8): in floating point the "
    "breakdown residual can exceed the absolute threshold 1e-12 and one harmless extra node appears",
    "compared at 1e-9 (tridiagonal: times max(1, 1e-3/smallest spectral weight); quadrature) / 1e-8 (ELBO) relative to "
    "the natural scale of the quantity",
]

TOL_T = 1e-9
TOL_Q = 1e-9
TOL_E = 1e-8
KEY0 = 0          # integer seed handed to the library; the seam mirrors PRNGKey(KEY0)

_ncase = [0]


# ======================================================================================
#                                          cases
# ======================================================================================
def cases(tier, seed):
    quick = tier == "quick"
    out = []
    dims = (2, 3, 4) if quick else (2, 3, 4, 5, 6)
    for n in dims:
        for order in range(1, n + 2):
            apis = ["public", "none", "full", "partial1"] + ([] if quick else ["partial2"])
            if n in (4, 6):
                apis.append("public2d")
            for api in apis:
                out.append(dict(part="tri", n=n, order=order, api=api, seed=seed))
    for n in dims:
        for order in range(1, n + 2):
            if quick:
                cfgs = [("none", "dense", False, 0), ("full", "callable", True, 0), ("none", "callable", False, 1),
                        ("partial", "dense", True, n - 1)]
            else:
                cfgs = [(ro, mf, ra, nd_) for ro in ("none", "partial", "full") for mf, ra in (("dense", False), ("callable", True))
                        for nd_ in sorted({0, 1, n - 1})]
            for ro, mf, ra, nd_ in cfgs:
                if order > n and nd_ > 0 and quick:
                    continue
                out.append(dict(part="quad", n=n, order=order, reorth=ro, matform=mf, radau=ra, ndefl=nd_, seed=seed,
                                check="main"))
        for ro, nd_ in itertools.product(("none", "full"), sorted({1, n - 1})):
            # probes lying entirely inside the deflated eigenspace must contribute nothing (own cases, own finding)
            out.append(dict(part="quad", n=n, order=n, reorth=ro, matform="dense", radau=False, ndefl=nd_, seed=seed,
                            check="deflated"))
    for n in dims:
        for order in sorted({1, n, n + 1} | (set() if quick else {max(1, n - 1)})):
            for pset in ("signs", "basis"):
                for api in ("public-dense", "public-callable", "from-lanczos", "slq-B1", "slq-B3", "slq-Ball"):
                    if quick and pset == "basis" and api in ("public-callable", "slq-B1"):
                        continue
                    out.append(dict(part="est", n=n, order=order, pset=pset, api=api, jit=True, dtype="f64", seed=seed))
        for api in ("public-dense", "public-callable") + (() if quick else ("slq-B3",)):
            if quick and n > 3:
                continue
            out.append(dict(part="est", n=n, order=n, pset="signs", api=api, jit=False, dtype="f64", seed=seed))
        out.append(dict(part="est", n=n, order=n, pset="signs", api="public-dense", jit=True, dtype="f32", seed=seed))
    out.sort(key=lambda c: (c["n"], ("tri", "quad", "est").index(c["part"]), c["order"]))
    # ---------------------------------------------------------------- ELBO
    el = []
    for spec in RF.model_specs(tier, seed):
        nrel = min(spec["ns"], spec["nd"])
        big = max(spec["ns"], spec["nd"]) >= 4
        base = dict(part="elbo", model=spec, seed=seed, shape="%dx%d" % (spec["ns"], spec["nd"]), rkind=spec["rkind"],
                    noise=spec["noise"])          # top-level copies: addressable by VERIF_FILTER

        def add(**kw):
            c = dict(base)
            c.update(dict(flavour="re", mode="all", space="signal", mjit=True, sjit=False, analytic=False, q="exact",
                          k=nrel, nbatches=10, slqopt="default"))
            c.update(kw)
            el.append(c)
        def sched(nbs):
            # resume x batch schedule: every split k with n_batches in nbs (for n_rel >= 4 and n_batches 2/3 some splits
            # lie strictly inside a batch that is not the last one), JAX signal/data and classic
            for nb, k, (fl_, sp_) in itertools.product(nbs, range(1, nrel + 1),
                                                       (("re", "signal"), ("re", "data"), ("cl", "signal"))):
                add(flavour=fl_, space=sp_, mode="resume-all", k=k, nbatches=nb)
                if k == 1:
                    add(flavour=fl_, space=sp_, mode="resume-neig", k=k, nbatches=nb)
        if spec.get("sched"):
            add()
            add(space="data")
            add(flavour="cl")
            sched((2, 3))
            continue
        if nrel >= 3 and not quick and spec["noise"] == 1.0:
            sched((2, 3))
        # JAX, all eigenvalues, option product
        for space, mjit, analytic, mode in itertools.product(("signal", "data", "auto"), (True, False), (False, True),
                                                              ("all", "neig")):
            if (quick or big) and not mjit and not (space == "signal" and mode == "all"):
                continue
            if (quick or big) and space == "auto" and (analytic or mode == "neig"):
                continue
            add(space=space, mjit=mjit, analytic=analytic, mode=mode)
        for analytic in (False, True):
            add(q="shift", analytic=analytic)
        # JAX, resumed at every split point (first leg saves the eigensystem, second leg loads it)
        for space, k, mode in itertools.product(("signal", "data"), range(1, nrel + 1), ("all", "neig")):
            if (quick or big) and mode == "neig" and k != 1:
                continue
            add(mode="resume-" + mode, space=space, k=k)
        if nrel >= 2 and not quick:
            add(mode="resume-all", k=1, nbatches=1)
        # JAX, SLQ remainder with k exact eigenvalues, all sign patterns served
        for space, k in itertools.product(("signal", "data"), range(0, nrel)):
            for sjit, analytic in ((False, False), (False, True), (True, True)):
                if (quick or big) and (sjit, analytic) == (False, False):
                    continue
                add(mode="slq", space=space, k=k, sjit=sjit, analytic=analytic)
        if not quick or (spec["ns"], spec["nd"]) == (3, 2):
            add(mode="slq", k=0, slqopt="full-B3", analytic=True)
            if nrel >= 2:          # Radau bounds need >= 1 exact eigenvalue (documented) and a non-empty remainder
                add(mode="slq", k=1, slqopt="radau", analytic=False, space="data")
                add(mode="slq", k=1, slqopt="radau", analytic=False)
        # classic
        for analytic, mode in itertools.product((False, True), ("all", "neig")):
            add(flavour="cl", analytic=analytic, mode=mode)
        add(flavour="cl", q="shift")
        for k, mode in itertools.product(range(1, nrel + 1), ("all", "neig")):
            add(flavour="cl", mode="resume-" + mode, k=k)
        if nrel >= 2:
            add(flavour="cl", mode="resume-all", k=1, nbatches=1)
    return out + el


# ======================================================================================
#                                   the probe seam
# ======================================================================================
class ProbeSeam:
    """Replaces `jax.random.rademacher` (looked up on the module at call time by nifty.re.num.lanczos) by a pure-JAX
    table look-up driven by the batch key: batch b of the library's own key schedule gets rows [b*B, (b+1)*B) of
    `probes`, the remainder batch the last `rem` rows.  Unknown keys / shapes give NaN probes (loud)."""

    def __init__(self, key, num_samples, B, probes):
        import jax
        import jax.numpy as jnp
        self.jax, self.jnp = jax, jnp
        B = min(int(B), int(num_samples))
        self.B = B
        self.nb, self.rem = divmod(int(num_samples), B)
        self.table = jax.random.key_data(jax.random.split(key, self.nb + 1)).reshape(self.nb + 1, -1)
        P = jnp.asarray(probes)
        self.n = P.shape[1]
        padrows = (self.nb + 1) * B - P.shape[0]
        self.PP = jnp.concatenate([P, jnp.full((padrows, self.n), jnp.nan, dtype=P.dtype)], axis=0)
        self.calls = []

    def _fake(self, key, shape, dtype=None):
        jax, jnp = self.jax, self.jnp
        kd = jax.random.key_data(key).reshape(-1)
        eq = jnp.all(self.table == kd[None, :], axis=1)
        idx = jnp.argmax(eq)
        shape = tuple(int(s) for s in shape)
        self.calls.append(shape)
        if len(shape) != 2 or shape[1] != self.n or shape[0] not in (self.B, self.rem) or shape[0] == 0:
            return jnp.full(shape, jnp.nan, dtype=dtype or self.PP.dtype)
        out = jax.lax.dynamic_slice(self.PP, (idx * self.B, 0), (shape[0], self.n))
        out = jnp.where(jnp.any(eq), out, jnp.nan)
        return out.astype(dtype or self.PP.dtype)

    def __enter__(self):
        self._orig = self.jax.random.rademacher
        self.jax.random.rademacher = self._fake
        return self

    def __exit__(self, *a):
        self.jax.random.rademacher = self._orig
        return False


# ======================================================================================
#                                   shared reference cache
# ======================================================================================
_CACHE = {}


def _alphabet(n, seed, few=False):
    key = (n, seed, few)
    if key not in _CACHE:
        mats = RF.matrices(n, seed, few=few)
        _CACHE[key] = dict(mats=mats, probes=RF.probes(n), meas={})
    return _CACHE[key]


def _measures(alpha, mi, ndefl, zs=None):
    """Per-probe spectral measures of matrix mi (probes deflated by the top-ndefl exact eigenvectors)."""
    tag = (mi, ndefl, None if zs is None else zs.tobytes())
    if tag not in alpha["meas"]:
        name, A, lam, U = alpha["mats"][mi]
        Q = None
        if ndefl:
            w, V = np.linalg.eigh(A)
            Q = V[:, ::-1][:, :ndefl].copy()
        Z = [z for _, z in alpha["probes"]] if zs is None else list(zs)
        alpha["meas"][tag] = (Q, [RF.Measure(A, z, proj=Q) for z in Z])
    return alpha["meas"][tag]


def _housekeeping():
    _ncase[0] += 1
    if _ncase[0] % 20 == 0:
        import gc
        import jax
        jax.clear_caches()
        gc.collect()


# ======================================================================================
#                                   part tri
# ======================================================================================
def run_tri(case):
    import jax
    import jax.numpy as jnp
    from nifty.re.num import lanczos as lz
    n, order, api, seed = case["n"], case["order"], case["api"], case["seed"]
    alpha = _alphabet(n, seed)
    labels = [l for l, _ in alpha["probes"]]
    Z = np.array([z for _, z in alpha["probes"]])
    public = api.startswith("public")
    if public:
        shp = (2, n // 2) if api == "public2d" else (n,)

        def one(A, v):
            T, basis = lz.lanczos_tridiag(lambda X: (A @ X.reshape(-1)).reshape(X.shape), v.reshape(shp), order=order)
            return T, basis.reshape(order, n)
    else:
        mode, rk = dict(none=(0, 1), partial1=(1, 1), partial2=(1, 2), full=(2, order))[api]

        def one(A, v):
            al, off, bf = lz._lanczos_tridiag(v / jnp.linalg.norm(v), lambda x: A @ x, order=order, eps=1e-12,
                                              reorth_mode=mode, reorth_k=rk)
            return al, off
    f = jax.jit(jax.vmap(one, in_axes=(None, 0)))
    st = dict(probe_evals=0, breakdowns=0, full_order=0, below_order=0, ambiguous=0, undetected_breakdown=0)
    worst = 0.
    for mi, (name, A, lam, U) in enumerate(alpha["mats"]):
        r0, r1 = [np.asarray(x) for x in f(jnp.asarray(A), jnp.asarray(Z))]
        _, meas = _measures(alpha, mi, 0)
        scale = max(1., float(np.abs(lam).max()))
        for pi, ms in enumerate(meas):
            where = "matrix %s, probe %s, n=%d order=%d api=%s" % (name, labels[pi], n, order, api)
            if ms.ambiguous:
                st["ambiguous"] += 1
                continue
            st["probe_evals"] += 1
            if public:
                T, V = r0[pi], r1[pi]
                al, off = np.diag(T).copy(), np.diag(T, 1).copy()
                rest = T - np.diag(al) - np.diag(off, 1) - np.diag(np.diag(T, -1), -1)
                if np.abs(rest).max(initial=0.) > 0 or np.abs(np.diag(T, -1) - off).max(initial=0.) > 1e-14 * scale:
                    return bad("lanczos_tridiag output is not a symmetric tridiagonal matrix (%s)" % where,
                               finding_key="lanczos|public|not-symmetric-tridiagonal", detail=dict(T=T.tolist()))
            else:
                al, off = r0[pi], r1[pi]
            if not (np.all(np.isfinite(al)) and np.all(np.isfinite(off))):
                return bad("non-finite Lanczos coefficients (%s)" % where, finding_key="lanczos|%s|non-finite" % api,
                           detail=dict(alpha=al.tolist(), off=off.tolist()))
            a, b = ms.jacobi()
            kr = ms.kr
            k = min(order, kr)
            err = max(np.abs(al[:k] - a[:k]).max(initial=0.), np.abs(off[:k - 1] - b[:k - 1]).max(initial=0.))
            worst = max(worst, err / scale)
            # the Jacobi matrix is an ill-conditioned function of the measure when a weight is tiny
            tolT = TOL_T * max(1., 1e-3 / float(ms.w.min()))
            if err > tolT * scale:
                return bad("Lanczos tridiagonal differs from the Jacobi matrix of the spectral measure by %.3g (%s)"
                           % (err, where), finding_key="lanczos|%s|tridiagonal-mismatch|%s" % (
                               api, "after-breakdown" if order > kr else "regular"),
                           detail=dict(alpha=al.tolist(), off=off.tolist(), ref_alpha=a.tolist(), ref_beta=b.tolist(),
                                       A=A.tolist(), z=Z[pi].tolist()))
            if order > kr:
                st["breakdowns"] += 1
                if abs(off[kr - 1]) > 1e-8 * scale:
                    return bad("no decoupling at the Krylov dimension %d: beta=%.3g (%s)" % (kr, off[kr - 1], where),
                               finding_key="lanczos|%s|no-decoupling-after-breakdown" % api,
                               detail=dict(alpha=al.tolist(), off=off.tolist(), A=A.tolist(), z=Z[pi].tolist()))
                if np.abs(al[kr:]).max(initial=0.) > 0 or np.abs(off[kr - 1:]).max(initial=0.) > 0:
                    st["undetected_breakdown"] += 1
            Tk = np.diag(al[:k]) + np.diag(off[:k - 1], 1) + np.diag(off[:k - 1], -1)
            th = np.linalg.eigvalsh(Tk)
            if order >= kr:
                st["full_order"] += 1
                e = np.abs(np.sort(th) - np.sort(ms.nodes)).max(initial=0.)
                if e > 10 * TOL_T * scale:
                    return bad("spectrum of the order-%d tridiagonal misses the operator's eigenvalues by %.3g (%s)"
                               % (order, e, where), finding_key="lanczos|%s|spectrum-at-full-order" % api,
                               detail=dict(ritz=th.tolist(), nodes=ms.nodes.tolist()))
            else:
                st["below_order"] += 1
                tol = 10 * TOL_T * scale
                gmax = ms.nodes[-1] - th[-1]
                gmin = th[0] - ms.nodes[0]
                if gmax < -tol or gmin < -tol:
                    return bad("Ritz values leave the spectral interval (%s)" % where,
                               finding_key="lanczos|%s|ritz-outside-spectrum" % api,
                               detail=dict(ritz=th.tolist(), nodes=ms.nodes.tolist()))
                bmax, bmin = ms.kaniel_paige_gap(order, "max"), ms.kaniel_paige_gap(order, "min")
                if gmax > bmax + tol or gmin > bmin + tol:
                    return bad("extreme Ritz value violates the Kaniel-Paige bound: gaps %.3g/%.3g bounds %.3g/%.3g (%s)"
                               % (gmax, gmin, bmax, bmin, where), finding_key="lanczos|%s|kaniel-paige" % api,
                               detail=dict(ritz=th.tolist(), nodes=ms.nodes.tolist(), w=ms.w.tolist()))
            if public:
                Vk = V[:k]
                z = Z[pi] / np.linalg.norm(Z[pi])
                e1 = np.abs(Vk @ Vk.T - np.eye(k)).max(initial=0.)
                e2 = np.abs(Vk[0] - z).max()
                e3 = np.abs(Vk @ A @ Vk.T - Tk).max(initial=0.)
                if max(e1, e2, e3 / scale) > tolT:
                    return bad("lanczos_tridiag basis: orthonormality %.3g, first vector %.3g, V A V^T - T %.3g (%s)"
                               % (e1, e2, e3, where), finding_key="lanczos|public|basis",
                               detail=dict(V=V.tolist(), T=T.tolist(), A=A.tolist()))
    rel = "<" if order < n else ("=" if order == n else ">")
    return ok(nontrivial=st["probe_evals"] > 0, outcome="tri|%s|order%sn" % (api, rel), stats=st,
              detail=dict(worst_rel_err=worst, matrices=len(alpha["mats"]), probes=len(labels)))


# ======================================================================================
#                                   part quad
# ======================================================================================
def _inv_c(x):
    return 1. / x - 1.


def run_quad(case):
    import jax
    import jax.numpy as jnp
    from nifty.re.num import lanczos as lz
    n, order, seed = case["n"], case["order"], case["seed"]
    reorth, matform, radau, ndefl = case["reorth"], case["matform"], case["radau"], case["ndefl"]
    only_deflated = case.get("check") == "deflated"
    alpha = _alphabet(n, seed)
    labels = [l for l, _ in alpha["probes"]]
    Z = np.array([z for _, z in alpha["probes"]])
    key = jax.random.PRNGKey(KEY0)
    seams = []

    def one(A, z, Q, lo, hi):
        seam = ProbeSeam(key, 1, 1, z[None, :])
        seams.append(seam)
        kw = dict(lam_min=lo, lam_max=hi, compute_radau=True) if radau else {}
        with seam:
            out = lz._slq_gauss_radau(A if matform == "dense" else (lambda v: A @ v), jnp.log, order, 1, key=key, n=n,
                                      deflate_eigvecs=Q if ndefl else None, extra_fns={"inv": _inv_c},
                                      reorthogonalize=reorth, reorth_k=2, **kw)
        return (out["estimate"], out["extra_inv_estimate"], out.get("radau_lo", jnp.nan), out.get("radau_hi", jnp.nan),
                out["stochastic_se"])
    f = jax.jit(jax.vmap(one, in_axes=(None, 0, None, None, None)))
    st = dict(probe_evals=0, exact_decided=0, exact_after_breakdown=0, gauss_rule_decided=0, radau_brackets=0,
              ambiguous=0, fully_deflated=0)
    worst = 0.
    for mi, (name, A, lam, U) in enumerate(alpha["mats"]):
        Q, meas = _measures(alpha, mi, ndefl)
        Qj = jnp.asarray(Q) if ndefl else jnp.zeros((n, 0))
        lo, hi = 0.5 * lam.min(), 1.5 * lam.max()
        est, inv, rlo, rhi, se = [np.asarray(x) for x in f(jnp.asarray(A), jnp.asarray(Z), Qj, lo, hi)]
        if not seams or not seams[0].calls:
            return bad("the probe seam was never reached (the estimator no longer draws through jax.random.rademacher)",
                       finding_key="seam|not-reached")
        for pi, ms in enumerate(meas):
            where = "matrix %s, probe %s, n=%d order=%d reorth=%s %s deflated=%d" % (
                name, labels[pi], n, order, reorth, matform, ndefl)
            det = dict(A=A.tolist(), z=Z[pi].tolist(), est=float(est[pi]))
            if ms.ambiguous:
                st["ambiguous"] += 1
                continue
            st["probe_evals"] += 1
            if not np.isnan(se[pi]):
                return bad("stochastic_se of a single probe is %r, documented NaN (%s)" % (se[pi], where),
                           finding_key="slq|single-probe-se-not-nan")
            if ms.kr == 0:
                st["fully_deflated"] += 1
                if only_deflated:
                    for nm, v in (("log", est[pi]), ("extra-fn", inv[pi])):
                        if not abs(v) <= 1e-9:
                            return bad("probe lying inside the deflated eigenspace contributes %.6g to the %s trace "
                                       "instead of 0 (%s)" % (v, nm, where),
                                       finding_key="slq|deflated-probe-nonzero|%s" % nm,
                                       detail=dict(det, Q=Q.tolist(), value=float(v)))
                continue
            if only_deflated:
                continue
            exact, exact_inv = ms.quad(np.log), ms.quad(_inv_c)
            sc = ms.norm2 * max(1., float(np.abs(np.log(ms.nodes)).max()))
            sci = ms.norm2 * max(1., float(np.abs(_inv_c(ms.nodes)).max()))
            cls = "after-breakdown" if order > ms.kr else "no-breakdown"
            if order >= ms.kr:
                st["exact_decided"] += 1
                st["exact_after_breakdown"] += int(order > ms.kr)
                e, ei = abs(est[pi] - exact), abs(inv[pi] - exact_inv)
                worst = max(worst, e / sc)
                if not e <= TOL_Q * sc:
                    return bad("Gauss quadrature of order %d >= Krylov dimension %d is not exact: %.12g vs z^T log(A) z "
                               "= %.12g (%s)" % (order, ms.kr, est[pi], exact, where),
                               finding_key="slq|inexact-at-full-order|log|%s|reorth=%s" % (cls, reorth),
                               detail=dict(det, exact=exact, kr=ms.kr))
                if not ei <= TOL_Q * sci:
                    return bad("extra function 1/x-1 at order %d >= Krylov dimension %d: %.12g vs %.12g (%s)"
                               % (order, ms.kr, inv[pi], exact_inv, where),
                               finding_key="slq|inexact-at-full-order|extra-fn|%s|reorth=%s" % (cls, reorth),
                               detail=dict(det, exact=exact_inv, kr=ms.kr))
            else:
                st["gauss_rule_decided"] += 1
                g, _ = ms.gauss(order, np.log)
                gi, _ = ms.gauss(order, _inv_c)
                if g < exact - 1e-12 * sc:
                    raise AssertionError("harness: reference Gauss rule under-estimates log")
                if not (abs(est[pi] - g) <= 10 * TOL_Q * sc and abs(inv[pi] - gi) <= 10 * TOL_Q * sci):
                    return bad("order-%d Gauss value %.12g / %.12g differs from the Gauss rule of the measure %.12g / %.12g (%s)"
                               % (order, est[pi], inv[pi], g, gi, where),
                               finding_key="slq|gauss-rule-mismatch|reorth=%s" % reorth, detail=dict(det, gauss=g))
            if radau:
                st["radau_brackets"] += 1
                if not (np.isfinite(rlo[pi]) and np.isfinite(rhi[pi])):
                    return bad("Radau value not finite with endpoints well outside the spectrum (%s)" % where,
                               finding_key="slq|radau|non-finite", detail=det)
                if not (rlo[pi] <= exact + TOL_Q * sc and exact <= rhi[pi] + TOL_Q * sc):
                    return bad("Radau values [%.12g, %.12g] do not bracket z^T log(A) z = %.12g (%s)"
                               % (rlo[pi], rhi[pi], exact, where), finding_key="slq|radau|no-bracket|%s" % cls,
                               detail=dict(det, lo=float(rlo[pi]), hi=float(rhi[pi]), exact=exact))
                if order > ms.kr and max(abs(rlo[pi] - exact), abs(rhi[pi] - exact)) > TOL_Q * sc:
                    return bad("Radau after breakdown is not the exact value: [%.12g, %.12g] vs %.12g (%s)"
                               % (rlo[pi], rhi[pi], exact, where), finding_key="slq|radau|after-breakdown-inexact",
                               detail=det)
    rel = "<" if order < n else ("=" if order == n else ">")
    if only_deflated:
        return ok(nontrivial=st["fully_deflated"] > 0, outcome="quad|deflated-probes|%s" % reorth, stats=st)
    return ok(nontrivial=st["exact_decided"] + st["gauss_rule_decided"] > 0,
              outcome="quad|%s|%s|radau=%d|defl=%s|order%sn" % (reorth, matform, radau, "0" if not ndefl else
                                                              ("1" if ndefl == 1 else "n-1"), rel),
              stats=st, detail=dict(worst_rel_err=worst))


# ======================================================================================
#                                   part est
# ======================================================================================
def run_est(case):
    import jax
    import jax.numpy as jnp
    from nifty.re.num import lanczos as lz
    n, order, pset, api, jit, seed = case["n"], case["order"], case["pset"], case["api"], case["jit"], case["seed"]
    f32 = case["dtype"] == "f32"
    alpha = _alphabet(n, seed, few=not jit)
    P = RF.sign_patterns(n) if pset == "signs" else np.sqrt(n) * np.eye(n)
    N = P.shape[0]
    key = jax.random.PRNGKey(KEY0)
    B = dict(B1=1, B3=3, Ball=N).get(api.split("-")[-1], N)
    seams = []
    dt = jnp.float32 if f32 else None

    def call(A, Pj):
        if api == "from-lanczos":
            T = jax.vmap(lambda v: lz.lanczos_tridiag(lambda x: A @ x, v, order=order)[0])(Pj)
            return lz.stochastic_logdet_from_lanczos(T, n), jnp.nan
        seam = ProbeSeam(key, N, B, Pj)
        seams.append(seam)
        with seam:
            if api == "public-dense":
                return lz.stochastic_lq_logdet(A, order, N, KEY0 if not jit else key, dtype=dt), jnp.nan
            if api == "public-callable":
                return lz.stochastic_lq_logdet(lambda v: A @ v, order, N, KEY0 if not jit else key, shape0=n, dtype=dt), jnp.nan
            out = lz._slq_gauss_radau(A, jnp.log, order, N, key=key, probe_batch_size=B, reorthogonalize="full")
            return out["estimate"], out["stochastic_se"]
    f = jax.jit(call) if jit else call
    st = dict(estimates=0, exact_decided=0, gauss_rule_decided=0, se_checked=0, probe_evals=0)
    tq = 3e-4 if f32 else TOL_Q
    for mi, (name, A, lam, U) in enumerate(alpha["mats"]):
        _, meas = _measures(alpha, mi, 0, zs=P)
        if any(ms.ambiguous for ms in meas):
            continue
        est, se = f(jnp.asarray(A), jnp.asarray(P))
        est, se = float(est), float(se)
        if seams and not seams[0].calls:
            return bad("the probe seam was never reached", finding_key="seam|not-reached")
        st["estimates"] += 1
        st["probe_evals"] += N
        where = "matrix %s, n=%d order=%d probes=%s api=%s jit=%s dtype=%s" % (name, n, order, pset, api, jit, case["dtype"])
        logdet = float(np.linalg.slogdet(A)[1])
        krmax = max(ms.kr for ms in meas)
        vals = np.array([ms.gauss(order, np.log)[0] for ms in meas])
        sc = n * max(1., float(np.abs(np.log(lam)).max()))
        det = dict(A=A.tolist(), estimate=est, logdet=logdet, seam_calls=[list(c) for s in seams[:1] for c in s.calls])
        if order >= krmax:
            if abs(vals.mean() - logdet) > 1e-10 * sc:
                raise AssertionError("harness: mean of exact probe values is not the log-determinant")
            st["exact_decided"] += 1
            if not abs(est - logdet) <= tq * sc:
                return bad("estimate with %s probe set at order %d >= dimension is %.12g, log det A = %.12g (%s)"
                           % ("the complete" if pset == "signs" else "the basis", order, est, logdet, where),
                           finding_key="slq|estimator-not-logdet|%s|%s" % (api, "jit" if jit else "eager"), detail=det)
        else:
            st["gauss_rule_decided"] += 1
            if not (abs(est - vals.mean()) <= 10 * tq * sc and est >= logdet - tq * sc):
                return bad("estimate %.12g differs from the mean %.12g of the per-probe Gauss rules (log det %.12g) (%s)"
                           % (est, vals.mean(), logdet, where),
                           finding_key="slq|estimator-gauss-mean|%s" % api, detail=det)
        if api.startswith("slq"):
            st["se_checked"] += 1
            se_ref = float(np.sqrt(vals.var(ddof=1) / N)) if N > 1 else float("nan")
            if not abs(se - se_ref) <= 10 * tq * sc:
                return bad("stochastic_se %.12g differs from sqrt(var/N) = %.12g of the probe values (%s)"
                           % (se, se_ref, where), finding_key="slq|standard-error|%s" % api, detail=dict(det, se=se))
    rel = "<" if order < n else ("=" if order == n else ">")
    return ok(nontrivial=st["estimates"] > 0, outcome="est|%s|%s|%s|%s|order%sn" % (
        api, pset, "jit" if jit else "eager", case["dtype"], rel), stats=st)


# ======================================================================================
#                                   part elbo
# ======================================================================================
def _quiet():
    import logging
    for nm in ("NIFTy", "nifty", "nifty.re", "jax"):
        logging.getLogger(nm).setLevel(logging.CRITICAL)
    try:
        from nifty.re.logger import logger
        logger.setLevel(logging.CRITICAL)
    except Exception:   # noqa
        pass
    try:
        import nifty.cl as ift
        ift.logger.setLevel(logging.CRITICAL)
    except Exception:   # noqa
        pass


def _build_re(ref, pos, res):
    import jax.numpy as jnp
    import nifty.re as jft
    Rj, nv = jnp.asarray(ref.R), jnp.asarray(ref.nvar)
    with warnings.catch_warnings():
        warnings.simplefilter("ignore")
        g = jft.Gaussian(jnp.asarray(ref.d), noise_cov_inv=lambda t: t / nv, noise_std_inv=lambda t: t / jnp.sqrt(nv))
        lh = g.amend(lambda x: Rj @ x, domain=jft.ShapeWithDtype((ref.ns,), jnp.float64))
    smp = jft.Samples(pos=jnp.asarray(pos), samples=jnp.asarray(res))
    return lh, smp


def _build_cl(ref, pos, res):
    import nifty.cl as ift
    dom, tgt = ift.UnstructuredDomain(ref.ns), ift.UnstructuredDomain(ref.nd)
    Rm = ref.R

    class Dense(ift.LinearOperator):
        def __init__(self):
            self._domain = ift.DomainTuple.make(dom)
            self._target = ift.DomainTuple.make(tgt)
            self._capability = self.TIMES | self.ADJOINT_TIMES

        def apply(self, x, mode):
            self._check_input(x, mode)
            v = x.asnumpy()
            return ift.makeField(self._tgt(mode), Rm @ v if mode == self.TIMES else Rm.T @ v)
    icov = ift.DiagonalOperator(ift.makeField(tgt, 1. / ref.nvar), sampling_dtype=np.float64)
    lh = ift.GaussianEnergy(data=ift.makeField(tgt, ref.d), inverse_covariance=icov) @ Dense()
    ham = ift.StandardHamiltonian(lh)
    smp = ift.ResidualSampleList(ift.makeField(dom, pos), [ift.makeField(dom, r) for r in res], [False] * len(res))
    return ham, smp


def _fl(x):
    v = getattr(x, "val", x)
    if hasattr(v, "asnumpy"):
        v = v.asnumpy()
    return float(np.asarray(v))


def _call_elbo(flavour, built, neig, tmp=None, **kw):
    """-> (elbo sample values, stats as floats)"""
    with warnings.catch_warnings():
        warnings.simplefilter("ignore")
        if flavour == "re":
            from nifty.re.evidence_lower_bound import estimate_evidence_lower_bound as f
            es, st = f(built[0], built[1], neig, verbose=False, output_directory=tmp, **kw)
            return np.asarray(es, dtype=np.float64), {k: _fl(v) for k, v in st.items()}
        from nifty.cl.evidence_lower_bound import estimate_evidence_lower_bound as f
        kw = {k: v for k, v in kw.items() if k not in ("trace_log_space", "metric_jit")}
        es, st = f(built[0], built[1], neig, verbose=False, output_directory=tmp, **kw)
        return np.array([_fl(s) for s in es.iterator()]), {k: _fl(v) for k, v in st.items()}


def run_elbo(case):
    _quiet()
    spec = case["model"]
    ref = RF.LinGauss(spec)
    if not ref.premise_ok():
        return skip("model has a relevant eigenvalue inside the early-stop window or a degenerate non-unit spectrum")
    fl, mode, space, k = case["flavour"], case["mode"], case["space"], case["k"]
    analytic, q = case["analytic"], case["q"]
    ns, nd, nrel = ref.ns, ref.nd, ref.nrel
    pos, res, shift = ref.sigma_samples(q)
    samples = [pos + r for r in res]
    built = _build_re(ref, pos, res) if fl == "re" else _build_cl(ref, pos, res)
    if fl == "cl" and space != "signal":
        return skip("classic implementation has no data-space option")
    use_data = fl == "re" and (space == "data" or (space == "auto" and nd <= ns))
    ev = ref.ev_dat[:nrel] + 1. if use_data else ref.ev_sig[:nrel]        # relevant metric eigenvalues, descending
    # ---- closed forms -----------------------------------------------------------------
    if analytic:
        prior = 0.5 * (float(np.trace(ref.D)) + float(pos @ pos))
        en = np.array([ref.lh(s) for s in samples]) + prior
    else:
        en = np.array([ref.ham(s) for s in samples])
    full_samples = 0.5 * ns - 0.5 * ref.logdet - en
    full_mean = float(full_samples.mean())
    closed = ref.logev - 0.5 * float(shift @ ref.M @ shift)          # log-evidence minus KL(Q || posterior)
    scale = max(1., abs(ref.logev), float(np.abs(en).max()))
    if abs(full_mean - closed) > 1e-10 * scale:
        raise AssertionError("harness: the two closed forms of the ELBO disagree (%r vs %r)" % (full_mean, closed))
    tol = TOL_E * scale
    tag = "%s|%s" % (fl, "data" if use_data else "signal")
    common = dict(analytic_prior_term=analytic)
    if fl == "re":
        common.update(trace_log_space=space, metric_jit=case["mjit"])
    st = dict(elbo_calls=0)
    det = dict(closed_form=closed, logev=ref.logev)

    def check_full(es, stt, what, lower_ref=0., lower_tol=1e-9):
        st["elbo_calls"] += 1
        det.update(elbo_mean=stt.get("elbo_mean"), lower_error=stt.get("lower_error"))
        if es.shape != full_samples.shape or not np.all(np.isfinite(es)):
            return bad("%s: elbo samples malformed: %r" % (what, es), finding_key="elbo|%s|malformed" % tag)
        e = float(np.abs(es - full_samples).max())
        if e > tol:
            return bad("%s: ELBO samples differ from the closed form by %.3g (mean %.12g vs %.12g)"
                       % (what, e, stt["elbo_mean"], full_mean),
                       finding_key="elbo|%s|%s|closed-form%s" % (tag, mode.split("-")[0],
                                                                  "|analytic-prior" if analytic else ""),
                       detail=dict(det, got=es.tolist(), want=full_samples.tolist()))
        if abs(stt["elbo_mean"] - full_mean) > tol:
            return bad("%s: elbo_mean %.12g is not the mean of the samples %.12g" % (what, stt["elbo_mean"], full_mean),
                       finding_key="elbo|%s|mean-of-samples" % tag, detail=det)
        if stt["elbo_mean"] > ref.logev + tol:
            return bad("%s: ELBO %.12g exceeds the log-evidence %.12g" % (what, stt["elbo_mean"], ref.logev),
                       finding_key="elbo|%s|exceeds-log-evidence" % tag, detail=det)
        if not abs(stt["lower_error"] - lower_ref) <= max(lower_tol, TOL_E) * max(1., abs(lower_ref)):
            return bad("%s: lower_error %.6g, closed form %.6g" % (what, stt["lower_error"], lower_ref),
                       finding_key="elbo|%s|%s|lower-error" % (tag, mode.split("-")[0]), detail=det)
        sd = float(np.std(full_samples, ddof=1))
        if fl == "re" and not (abs(stt["elbo_up"] - (full_mean + sd)) <= tol
                               and abs(stt["elbo_lw"] - (full_mean - sd - lower_ref)) <= tol + lower_tol):
            return bad("%s: elbo_up / elbo_lw are not mean +- std (- lower_error)" % what,
                       finding_key="elbo|%s|up-lw" % tag, detail=dict(det, stats=stt))
        return None

    outcome = "elbo|%s|%s|%s|%s" % (tag, mode, "analytic" if analytic else "sampled", q)
    # ---- all eigenvalues in one go -------------------------------------------------------
    if mode in ("all", "neig"):
        kw = dict(common, compute_all=True) if mode == "all" else dict(common)
        es, stt = _call_elbo(fl, built, nrel, None, **kw)
        b = check_full(es, stt, "one go (%s)" % mode)
        if b:
            return b
        if fl == "re":
            outcome += "|mjit=%d" % case["mjit"]
        return ok(nontrivial=True, outcome=outcome, stats=st, value=stt["elbo_mean"], group=_group(case), detail=det)
    # ---- resumed ---------------------------------------------------------------------------
    if mode.startswith("resume"):
        tmp = tempfile.mkdtemp(prefix="c34_")
        try:
            kw = dict(common, n_batches=case["nbatches"])
            es1, st1 = _call_elbo(fl, built, k, tmp, **kw)
            st["elbo_calls"] += 1
            pre = os.path.join(tmp, "metric_%s" % ("data" if use_data else "signal"))
            if not (os.path.exists(pre + "_eigenvalues.npy") and os.path.exists(pre + "_eigenvectors.npy")):
                return bad("first leg (n_eigenvalues=%d, output_directory set) did not save the eigensystem: %s"
                           % (k, sorted(os.listdir(tmp))), finding_key="elbo|%s|resume|nothing-saved" % tag)
            w, V = np.load(pre + "_eigenvalues.npy"), np.load(pre + "_eigenvectors.npy")
        finally:
            shutil.rmtree(tmp, ignore_errors=True)
        if w.shape != (k,) or V.shape != ((nd if use_data else ns), k):
            return bad("saved eigensystem has shapes %s %s for k=%d" % (w.shape, V.shape, k),
                       finding_key="elbo|%s|resume|saved-shape" % tag)
        wref = ev[:k] - (1. if use_data else 0.)
        if np.abs(np.sort(w)[::-1] - wref).max() > tol:
            return bad("saved eigenvalues %s are not the %d largest %s" % (w, k, wref),
                       finding_key="elbo|%s|resume|saved-eigenvalues" % tag)
        # closed form of the truncated estimate and of its stated lower error
        if k < nrel:
            part = full_samples + 0.5 * float(np.sum(np.log(ev[k:])))
            low = 0.5 * (nrel - k) * float(np.log(ev[k - 1]))
            stopped = abs(ev[k - 1] - 1.) < 1e-3
            if not stopped:
                if np.abs(es1 - part).max() > tol or abs(st1["lower_error"] - low) > tol:
                    return bad("first leg with %d of %d eigenvalues: samples differ from the truncated closed form by "
                               "%.3g, lower_error %.6g vs %.6g" % (k, nrel, np.abs(es1 - part).max(), st1["lower_error"], low),
                               finding_key="elbo|%s|partial|closed-form" % tag, detail=det)
            if not (st1["elbo_mean"] + tol >= full_mean >= st1["elbo_mean"] - st1["lower_error"] - tol):
                return bad("first leg: full ELBO %.12g outside [mean - lower_error, mean] = [%.12g, %.12g]"
                           % (full_mean, st1["elbo_mean"] - st1["lower_error"], st1["elbo_mean"]),
                           finding_key="elbo|%s|partial|bracket" % tag, detail=det)
        kw = dict(common, n_batches=case["nbatches"], resume_eigenvectors=V, resume_eigenvalues=w)
        if mode == "resume-all":
            kw["compute_all"] = True
        es, stt = _call_elbo(fl, built, nrel, None, **kw)
        b = check_full(es, stt, "resumed at split %d of %d (%s)" % (k, nrel, mode))
        if b:
            return b
        outcome += "|split=%s" % ("end" if k == nrel else k) + ("|nb=%d" % case["nbatches"] if case["nbatches"] != 10 else "")
        return ok(nontrivial=True, outcome=outcome, stats=st, value=stt["elbo_mean"], group=_group(case), detail=det)
    # ---- SLQ remainder: k exact eigenvalues, every sign pattern served ------------------------
    if mode == "slq":
        import jax
        osz = nd if use_data else ns
        S = RF.sign_patterns(osz)
        N = S.shape[0]
        opt = case["slqopt"]
        slq_kwargs = {}
        B = min(8, N)
        if opt == "full-B3":
            slq_kwargs = dict(reorthogonalize="full", probe_batch_size=3)
            B = 3
        seam = ProbeSeam(jax.random.PRNGKey(KEY0), N, B, S)
        kw = dict(common, trace_log_method="slq", slq_order=osz, slq_num_samples=N, slq_key=KEY0, slq_jit=case["sjit"],
                  use_radau_as_bound=(opt == "radau"))
        if slq_kwargs:
            kw["slq_kwargs"] = slq_kwargs
        try:
            with seam:
                es, stt = _call_elbo("re", built, k, None, **kw)
        except ValueError as e:
            # lam_min is the unit (signal) / zero (data) eigenvalue itself; when the remaining spectrum contains it and
            # the order saturates the Krylov space the library refuses loudly -> outside the premise of the Radau option
            if opt == "radau" and "Gauss-Radau quadrature failed" in str(e):
                return skip("Radau endpoint coincides with an eigenvalue of the remaining spectrum (library raises ValueError)")
            raise
        if k < nrel and not seam.calls:
            return bad("the probe seam was never reached", finding_key="seam|not-reached")
        # closed form of the one-sigma error: probes deflated by the k top eigenvectors of the operator
        Aop = ref.Md if use_data else ref.M
        wv, Vv = np.linalg.eigh(Aop)
        Q = Vv[:, ::-1][:, :k]
        f = np.log1p if use_data else np.log
        finv = (lambda x: 1. / (1. + x) - 1.) if use_data else _inv_c
        ms = [RF.Measure(Aop, z, proj=Q) for z in S]
        v_log = np.array([m.quad(f) for m in ms])
        v_inv = np.array([m.quad(finv) for m in ms])
        rem_ref = float(np.sum(f(np.sort(wv)[::-1][k:])))
        if abs(v_log.mean() - rem_ref) > 1e-10 * max(1., abs(rem_ref)):
            raise AssertionError("harness: mean over all sign patterns is not the remaining trace")
        low = 0.5 * float(np.sqrt(v_log.var(ddof=1) / N))
        if analytic:
            low += 0.5 * float(np.sqrt(v_inv.var(ddof=1) / N))
        if abs(stt.get("trace_log_slq", np.nan) - rem_ref) > tol:
            return bad("SLQ remainder with all %d sign patterns at order %d = operator size is %.12g, exact remaining "
                       "trace-log %.12g (k=%d exact eigenvalues)" % (N, osz, stt.get("trace_log_slq"), rem_ref, k),
                       finding_key="elbo|%s|slq|remainder-not-exact" % tag, detail=dict(det, seam_calls=seam.calls))
        if opt == "radau":
            # lower_error = 0.5*max(0, tail_hi - remainder): with order >= every Krylov dimension + breakdown both
            # Radau values are >= / <= the exact value; only the bracket is demanded
            if not (stt["trace_log_tail_lo"] <= rem_ref + tol <= stt["trace_log_tail_hi"] + 2 * tol):
                return bad("Radau tail bounds [%.12g, %.12g] do not contain the exact remainder %.12g"
                           % (stt["trace_log_tail_lo"], stt["trace_log_tail_hi"], rem_ref),
                           finding_key="elbo|%s|slq|radau-tail-bracket" % tag, detail=det)
            low = stt["lower_error"]
            if low < -1e-12:
                return bad("negative lower_error %.3g" % low, finding_key="elbo|%s|slq|negative-lower-error" % tag)
        b = check_full(es, stt, "slq remainder after %d exact eigenvalues (%s)" % (k, opt), lower_ref=low, lower_tol=1e-8)
        if b:
            return b
        outcome += "|exact=%s|sjit=%d|%s|batches=%d" % ("0" if k == 0 else ("n-1" if k == nrel - 1 else k), case["sjit"],
                                                      opt, len(seam.calls))
        return ok(nontrivial=True, outcome=outcome, stats=dict(st, probe_evals=N), value=stt["elbo_mean"],
                  group=_group(case), detail=det)
    raise ValueError(mode)


def _group(case):
    m = case["model"]
    return "%d,%d,%s,%s,%s|%s|%s" % (m["ns"], m["nd"], m["rkind"], m["noise"], m["dkind"], case["q"],
                                    "analytic" if case["analytic"] else "sampled")


# ======================================================================================
def run(case):
    os.environ.setdefault("TF_CPP_MIN_LOG_LEVEL", "3")     # XLA "slow compile" alarms on an oversubscribed machine
    try:
        return dict(tri=run_tri, quad=run_quad, est=run_est, elbo=run_elbo)[case["part"]](case)
    finally:
        _housekeeping()


def collect(run, case, out):
    if out.get("status") == "ok" and "value" in out:
        run.__dict__.setdefault("c34_groups", {}).setdefault(out["group"], []).append(
            (out["value"], "%s/%s/%s" % (case["flavour"], case["space"], case["mode"])))


def finish(run):
    """Agreement across implementations / spaces / jit / resume splits / trace-log methods (1e-8) per model."""
    groups = getattr(run, "c34_groups", {})
    nvar, worst = 0, 0.
    for g, vals in sorted(groups.items()):
        v = np.array([x for x, _ in vals])
        spread = float(v.max() - v.min())
        worst = max(worst, spread)
        nvar += len(vals)
        if spread > 2 * TOL_E * max(1., float(np.abs(v).max())):
            lo, hi = vals[int(v.argmin())], vals[int(v.argmax())]
            run.violations.append((dict(group=g), bad(
                "ELBO of one model differs between variants by %.3g: %s=%.12g vs %s=%.12g" % (spread, lo[1], lo[0], hi[1], hi[0]),
                finding_key="elbo|variants-disagree")))
    parts = {}
    for o, c in run.outcomes.items():
        parts[o.split("|")[0]] = parts.get(o.split("|")[0], 0) + c
    need = ("tri", "quad", "est", "elbo")
    missing = [p for p in need if not parts.get(p)]
    if missing and not run.violations and "filtered_by" not in run.extra:
        run.violations.append((dict(vacuity=missing), bad("no passing case in part(s) %s" % missing,
                                                          finding_key="harness|vacuous-part")))
    return dict(agreement_groups=len(groups), agreement_variants=nvar, agreement_worst_spread=worst, cases_per_part=parts)
