"""C07 Fields are immutable once constructed.

Mode H: all histories  construct -> (<=2 handle derivations) -> (<=2 writes),
interleaved with operator applications, on the real objects.  Oracle: a
private copy taken at construction equals the field's content (and the
outputs of operators built from the field) after every step, whether or not
the write raised.
"""
import itertools

import numpy as np

from vf.core import ok, bad, skip

ID = "C07"
LEVEL = "exploration"
RULE = ("case = (constructor, dtype, root handle); inside a case ALL chains of <=2 handle derivations x ALL "
        "sequences of 1..2 writes are executed on freshly constructed fields; non-trivial = the write was "
        "attempted through a handle that shares memory with the field (np.shares_memory), i.e. it would have "
        "changed the field had it succeeded")
ASSUMPTIONS = [
    "handles = the source array object itself and everything obtained from the field; arrays that aliased the "
    "source buffer BEFORE construction (pre-existing views / the base of a view) cannot be protected by any flag "
    "and are outside the alphabet",
    "deliberate circumvention (ndarray.setflags(write=True), ctypes) is outside the alphabet",
]

CONSTRUCTORS = ["Field(AnyArray(a))", "Field(a)", "from_raw", "makeField", "cast_domain", "real", "imag",
                "binop", "mf_from_raw", "mf_from_dict", "full", "astype_same", "scalar_mul",
                # source arrays that are ndarray SUBCLASS instances (user subclass, memory map)
                "Field(a:subclass)", "makeField(a:subclass)", "AnyArray(a:subclass)", "makeField(a:memmap)",
                # zero-dimensional source arrays (scalar domain)
                "from_raw(0d)", "makeField(0d)", "Field(0d)", "mf_from_raw(0d)",
                # source arrays whose shape differs from the domain's but whose size matches (rejected by the
                # library today; if a constructor ever accepts them the result must still be unreachable)
                "makeField(a:extra-axis)", "from_raw(a:extra-axis)", "Field(a:extra-axis)", "mf_from_raw(a:extra-axis)",
                "makeField(a:flat)", "from_raw(a:flat)", "Field(a:flat)"]
ROOTS = ["source", "val", "raw", "asnumpy", "val.val"]

DERIV_NP = ["view", "reshape", "ellipsis", "slice", "T", "asarray", "real", "ravel"]
DERIV_AA = ["view", "reshape", "ellipsis", "slice", "T", "real", "val"]
WRITES_NP = ["setitem0", "setall", "setempty", "iadd", "ufunc_out", "copyto", "fill", "sort", "flat", "put", "imul", "place"]
WRITES_AA = ["setitem0", "setall", "iadd", "ufunc_out", "imul"]


class _SubArr(np.ndarray):
    """a user-defined ndarray subclass"""


_KEEP = []


def _mk(constructor, dtype):
    """returns (field-like, source array or None, list of (name, Field) leaves to watch)"""
    import nifty.cl as ift
    dom = ift.RGSpace(3)
    cplx = dtype == "c16"
    base = np.array([1.5, -2.0, 0.25]) + (1j * np.array([0.5, 1.0, -3.0]) if cplx else 0)
    a = np.array(base)   # fresh, owns its data
    if constructor.endswith("(0d)"):
        sd = ift.DomainTuple.scalar_domain()
        z = np.array(base[0])          # 0-d, owns its data
        if constructor.startswith("from_raw"):
            return ift.Field.from_raw(sd, z), z
        if constructor.startswith("makeField"):
            return ift.makeField(sd, z), z
        if constructor.startswith("mf_from_raw"):
            return ift.MultiField.from_raw(ift.MultiDomain.make({"k": sd}), {"k": z}), z
        return ift.Field(sd, z), z
    if constructor.endswith(":extra-axis)") or constructor.endswith(":flat)"):
        if constructor.endswith(":flat)"):
            dom2, a = ift.RGSpace((1, 3)), np.array(base)
        else:
            dom2, a = dom, np.array(base.reshape(3, 1))
        try:
            if constructor.startswith("makeField"):
                return ift.makeField(dom2, a), a
            if constructor.startswith("from_raw"):
                return ift.Field.from_raw(dom2, a), a
            if constructor.startswith("mf_from_raw"):
                return ift.MultiField.from_raw(ift.MultiDomain.make({"k": dom2}), {"k": a}), a
            return ift.Field(ift.DomainTuple.make(dom2), a), a
        except (ValueError, TypeError):
            return None, "rejected"
    if constructor.endswith(":subclass)"):
        a = a.view(_SubArr)
        if constructor.startswith("Field("):
            return ift.Field(ift.DomainTuple.make(dom), a), a
        if constructor.startswith("AnyArray("):
            return ift.Field(ift.DomainTuple.make(dom), ift.AnyArray(a)), a
        return ift.makeField(dom, a), a
    if constructor.endswith(":memmap)"):
        import tempfile
        tf = tempfile.NamedTemporaryFile(prefix="c07_mm_", suffix=".dat")
        mm = np.memmap(tf.name, dtype=base.dtype, mode="w+", shape=base.shape)
        mm[...] = base
        _KEEP.append(tf)
        if len(_KEEP) > 4:
            _KEEP.pop(0).close()
        return ift.makeField(dom, mm), mm
    if constructor == "Field(AnyArray(a))":
        return ift.Field(ift.DomainTuple.make(dom), ift.AnyArray(a)), a
    if constructor == "Field(a)":
        return ift.Field(ift.DomainTuple.make(dom), a), a
    if constructor == "from_raw":
        return ift.Field.from_raw(dom, a), a
    if constructor == "makeField":
        return ift.makeField(dom, a), a
    if constructor == "cast_domain":
        return ift.makeField(dom, a).cast_domain(ift.UnstructuredDomain(3)), a
    if constructor == "real":
        return ift.makeField(dom, a).real, a
    if constructor == "imag":
        if not cplx:
            return None, None
        return ift.makeField(dom, a).imag, a
    if constructor == "binop":
        return ift.makeField(dom, a) + ift.makeField(dom, np.array(base)), None
    if constructor == "scalar_mul":
        return 1. * ift.makeField(dom, a), a
    if constructor == "astype_same":
        return ift.makeField(dom, a).astype(a.dtype), a
    if constructor == "full":
        return ift.full(dom, base[0]), None
    if constructor == "mf_from_raw":
        return ift.MultiField.from_raw(ift.MultiDomain.make({"k": dom}), {"k": a}), a
    if constructor == "mf_from_dict":
        return ift.MultiField.from_dict({"k": ift.makeField(dom, a)}), a
    raise ValueError(constructor)


def _leaf(f):
    import nifty.cl as ift
    return f["k"] if isinstance(f, ift.MultiField) else f


def _root(f, a, root):
    lf = _leaf(f)
    if root == "source":
        return a
    if root == "val":
        return lf.val
    if root == "raw":
        return lf.raw
    if root == "asnumpy":
        return lf.asnumpy()
    if root == "val.val":
        return lf.val.val
    raise ValueError(root)


def _derive(h, d):
    import nifty.cl as ift
    if isinstance(h, ift.AnyArray):
        if d == "view":
            return h.view()
        if d == "reshape":
            return h.reshape(-1)
        if d == "ellipsis":
            return h[...]
        if d == "slice":
            return h[0:2]
        if d == "T":
            return h.T
        if d == "real":
            return h.real
        if d == "val":
            return h.val
    else:
        if d == "view":
            return h.view()
        if d == "reshape":
            return h.reshape(-1)
        if d == "ellipsis":
            return h[...]
        if d == "slice":
            return h[0:2]
        if d == "T":
            return h.T
        if d == "asarray":
            return np.asarray(h)
        if d == "real":
            return h.real
        if d == "ravel":
            return h.ravel()
    raise KeyError(d)


def _write(h, w):
    import nifty.cl as ift
    aa = isinstance(h, ift.AnyArray)
    v = 77.0
    if w == "setitem0":
        h[0] = v
    elif w == "setall":
        h[...] = v
    elif w == "setempty":
        h[()] = v
    elif w == "iadd":
        if aa:
            h += ift.AnyArray(np.ones(h.shape, dtype=h.dtype))
        else:
            h += 1
    elif w == "imul":
        if aa:
            h *= ift.AnyArray(np.full(h.shape, 3., dtype=h.dtype))
        else:
            h *= 3
    elif w == "ufunc_out":
        np.add(h, 1, out=h)
    elif w == "copyto":
        np.copyto(h, v)
    elif w == "fill":
        h.fill(v)
    elif w == "sort":
        h.sort()   # base values are unsorted in every dtype
    elif w == "flat":
        h.flat[0] = v
    elif w == "put":
        h.put(0, v)
    elif w == "place":
        np.place(h, np.ones(h.shape, bool), [v])
    else:
        raise KeyError(w)


def _raw_of(h):
    import nifty.cl as ift
    return h.val if isinstance(h, ift.AnyArray) else h


def cases(tier, seed):
    out = []
    for c in CONSTRUCTORS:
        for dt in ("f8", "c16"):
            for r in ROOTS:
                out.append(dict(constructor=c, dtype=dt, root=r, maxderiv=2, maxwrites=2 if tier == "thorough" else 2))
    return out


def _ops_outputs(f):
    """Outputs of operators built from the field (must keep their meaning)."""
    import nifty.cl as ift
    lf = _leaf(f)
    x = ift.full(lf.domain, 2.0)
    outs = [ift.makeOp(lf)(x).asnumpy().copy(), ift.Adder(lf)(x).asnumpy().copy()]
    if not np.iscomplexobj(lf.asnumpy()):
        outs.append(np.array(ift.GaussianEnergy(data=lf)(x).asnumpy()))
    return outs


def run(case):
    import nifty.cl as ift
    f0, a0 = _mk(case["constructor"], case["dtype"])
    if f0 is None:
        return skip("constructor rejects a source of this shape" if a0 is not None else "constructor needs complex input")
    if case["root"] == "source" and a0 is None:
        return skip("constructor has no source array")
    histories = shared = raised = 0
    chains = [()]
    for n in (1, 2):
        chains += list(itertools.product(sorted(set(DERIV_NP) | set(DERIV_AA)), repeat=n))
    first_bad = None
    nbad = 0
    for chain in chains[: 1 + 10 + (100 if case["maxderiv"] >= 2 else 0)]:
        # probe once whether the chain is applicable to this root
        f, a = _mk(case["constructor"], case["dtype"])
        try:
            h = _root(f, a, case["root"])
            for d in chain:
                h = _derive(h, d)
        except (KeyError, AttributeError, TypeError, ValueError, IndexError):
            continue   # derivation not applicable to this handle (e.g. slicing a 0-d array)
        wnames = WRITES_AA if isinstance(h, ift.AnyArray) else WRITES_NP
        wseqs = [(w,) for w in wnames]
        if len(chain) <= 1 and case["maxwrites"] >= 2:
            wseqs += list(itertools.product(wnames, repeat=2))
        for ws in wseqs:
            f, a = _mk(case["constructor"], case["dtype"])
            lf = _leaf(f)
            snap = np.array(lf.val.val, copy=True)       # private copy at construction (NOT via asnumpy(), which has a locking side effect)
            # operators built BEFORE the writes; their later outputs must equal the outputs now
            x = ift.full(lf.domain, 2.0)
            opD, opA = ift.makeOp(lf), ift.Adder(lf)
            outs0 = [opD(x).asnumpy().copy(), opA(x).asnumpy().copy()]
            h = _root(f, a, case["root"])
            for d in chain:
                h = _derive(h, d)
            sh = bool(np.shares_memory(_raw_of(h), lf.val.val))
            shared += sh
            histories += 1
            for w in ws:
                try:
                    _write(h, w)
                except Exception:
                    raised += 1
                now = lf.val.val
                outs1 = [opD(x).asnumpy(), opA(x).asnumpy()]
                okk = np.array_equal(now, snap) and all(np.array_equal(p, q) for p, q in zip(outs0, outs1))
                if not okk:
                    nbad += 1
                    htype = "AnyArray" if isinstance(h, ift.AnyArray) else "ndarray"
                    if first_bad is None:
                        first_bad = dict(chain=list(chain), writes=list(ws), handle_type=htype,
                                         before=str(snap), after=str(np.array(now)))
                    break
    st = dict(histories=histories, shared_handle_histories=shared, writes_rejected=raised)
    if first_bad is not None:
        return bad("field built by %s (%s) changed after write %s through handle %s%s (%d failing histories in this case): %s -> %s" % (
            case["constructor"], case["dtype"], first_bad["writes"], case["root"],
            "".join("." + d for d in first_bad["chain"]), nbad, first_bad["before"], first_bad["after"]),
            finding_key="mutable|root=%s|%s" % (case["root"], first_bad["handle_type"]), detail=first_bad, stats=st)
    return ok(nontrivial=shared > 0, outcome="immutable|root=%s|shared=%s" % (case["root"], shared > 0), stats=st,
              detail=st)


def finish(run):
    return dict(histories=int(run.extra.get("histories", 0)),
                shared_handle_histories=int(run.extra.get("shared_handle_histories", 0)),
                writes_rejected=int(run.extra.get("writes_rejected", 0)))
