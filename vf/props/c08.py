"""C08 Domain geometry is self-consistent and domain identity is canonical.

Mode P (configurations): every domain of a stated alphabet is built and its public geometry (shape, size,
dvol, scalar_dvol, total_volume, k-length table, unique k-lengths, power-space partition / bin volumes /
mean k-lengths, bin bounds of `useful_binbounds`) is compared with an independent reference written from the
definitions (vf/ref/c08_domains.py: python loops, numpy leggauss, the spherical-harmonic synthesis for the
LM layout) -- never with another library attribute.

Mode H (histories): on the REAL global caches (`DomainTuple._tupleCache`, `MultiDomain._domainCache`,
`PowerSpace._powerIndexCache`, `_scalarDomain`, emptied before and restored after every history) all
sequences of cache operations (make from Domain / tuple / list / DomainTuple, two equal-but-not-identical
spellings of every description, MultiDomain.make with permuted key order and raw / canonical values, pickle
round trips, unpickling of bytes produced under a foreign (cold) cache, copy / deepcopy) are executed with a
reference model (label -> first object returned) stepped in lock-step.  Invariant after every step: equal
descriptions => `is`-identical DomainTuple / MultiDomain, different descriptions => unequal, == / != / hash
consistent, entries of a MultiDomain are the canonical DomainTuples, no two cache keys carry the same description.
"""
import copy
import itertools
import math
import pickle

import numpy as np

from vf.core import ok, bad, skip
from vf.ref import c08_domains as R

ID = "C08"
LEVEL = "exploration"
RULE = ("geom: one case per domain description (RG shapes {1..N}^{1,2,3} x distances {None,0.5,2.0,anisotropic} x "
        "{position, harmonic given directly, harmonic obtained as codomain}; all LM (lmax<=L, mmax<=lmax or None); "
        "GL nlat<=4 x nlon<=7|None; HP nside; DOF weight vectors). power: one case per harmonic partner; inside it "
        "EVERY binning: natural, every coarsening of the natural binning (all non-empty subsets of the natural "
        "boundaries, partners with <= 7 distinct k), useful_binbounds linear and logarithmic for nbin=None and every "
        "nbin from 3 up to the first rejected one. tuple/multi: all products of <= 3 spaces of an 8-domain alphabet, "
        "every `spaces` subset. eqhash: all ordered pairs of a domain alphabet with duplicate spellings. "
        "history: all operation sequences to the stated depth (one case per prefix of depth-2 operations), bfs: state-matching "
        "search to the fixpoint. non-trivial = geometry with >1 pixel compared / a partition with >1 bin or a "
        "rejection compared with the reference / a history in which an operation reached an existing cache entry "
        "through a different spelling, form or a pickle")
ASSUMPTIONS = [
    "numeric values of distances / DOF weights are alphabet values (VERIF_SEED selects the anisotropic distances and one "
    "generic weight vector); structure (shapes, lmax/mmax, binnings, operation sequences) is exhaustive within the bounds",
    "a k-length within 1e-9 (relative) of a bin boundary may be placed in either adjacent bin (the documentation does "
    "not say to which side a boundary belongs); sums and means are then taken over the library's admissible partition",
    "unique k-lengths: merge tolerance 1e-12*kmax as documented in the code; alphabets contain no gaps within two "
    "decades of that tolerance (checked per case, such a case would be reported as skip)",
    "LM coefficient order is taken from what the library's own synthesis (HarmonicTransformOperator) produces from each "
    "unit coefficient, classified by l through scipy.special.sph_harm_y and Gauss-Legendre quadrature",
    "histories run in one process on caches emptied first (and restored afterwards); a second process is modelled by "
    "bytes pickled under a different (cold) cache",
    "UnstructuredDomain has no geometry (no dvol / total_volume) and takes part only in identity checks",
]


# =============================================================================================
#                                        case catalogue
# =============================================================================================
def _bounds(tier):
    if tier == "thorough":
        return dict(nmax=7, lmax=6, nside=[1, 2, 4], hdepth=4)
    return dict(nmax=5, lmax=4, nside=[1, 2], hdepth=3)


def _tuple_alphabet(seed):
    an = R.dist_alphabet(2, seed)[3]
    return [
        dict(t="RG", shape=[3], dist=None, harm=False, via="direct"),
        dict(t="RG", shape=[2, 3], dist=an, harm=True, via="direct"),
        dict(t="LM", lmax=2, mmax=1),
        dict(t="GL", nlat=2, nlon=3),
        dict(t="HP", nside=1),
        dict(t="PS", partner=dict(t="RG", shape=[4, 3], dist=0.5, harm=True, via="codomain"), bb=None),
        dict(t="DOF", w=[0.5, 0.25, 4.0]),
        dict(t="RG", shape=[1], dist=2.0, harm=False, via="direct"),
    ]


def _eq_alphabet(seed):
    """domains with duplicate spellings: (group id, constructor source).  Same group <=> equal description."""
    an = R.dist_alphabet(2, seed)[3]
    a0, a1 = float(an[0]), float(an[1])
    L = []

    def add(g, src):
        L.append([g, src])
    add("rg3", "ift.RGSpace(3)")
    add("rg3", "ift.RGSpace((3,), distances=1/3.)")
    add("rg3", "ift.RGSpace([3], distances=(1/3.,), harmonic=False)")
    add("rg3", "ift.RGSpace(np.int64(3), distances=np.float64(1/3.))")
    add("rg3h", "ift.RGSpace(3, harmonic=True)")
    add("rg3h", "ift.RGSpace(3).get_default_codomain()")
    add("rg3h", "ift.RGSpace(3, harmonic=True).get_default_codomain().get_default_codomain()")
    add("rg3d2", "ift.RGSpace(3, distances=2.0)")
    add("rg3d2", "ift.RGSpace((3,), distances=(2,))")
    add("rg4", "ift.RGSpace(4)")
    add("rg31", "ift.RGSpace((3, 1))")
    add("rg13", "ift.RGSpace((1, 3))")
    add("rg23a", "ift.RGSpace((2, 3), distances=(%r, %r))" % (a0, a1))
    add("rg23a", "ift.RGSpace((2, 3), distances=np.array([%r, %r]))" % (a0, a1))
    add("rg23b", "ift.RGSpace((2, 3), distances=(%r, %r))" % (a1, a0))
    add("rg23ah", "ift.RGSpace((2, 3), distances=(%r, %r), harmonic=True)" % (a0, a1))
    add("rg23ah", "ift.RGSpace((2, 3), distances=[%r, %r], harmonic=True)" % (a0, a1))
    # harmonic grids: a scalar distance and a sequence of equal distances describe the same grid (values for which
    # differently associated floating-point formulas round differently)
    for n, d in ((10, 0.3), (3, 0.1), (7, 0.7), (6, 1.1), (12, 0.3)):
        g = "rg%dh_d%s" % (n, d)
        add(g, "ift.RGSpace((%d,), distances=%r, harmonic=True)" % (n, d))
        add(g, "ift.RGSpace((%d,), distances=(%r,), harmonic=True)" % (n, d))
    add("rg75h_d0.3", "ift.RGSpace((7, 5), distances=0.3, harmonic=True)")
    add("rg75h_d0.3", "ift.RGSpace((7, 5), distances=(0.3, 0.3), harmonic=True)")
    add("rg75h_d0.3", "ift.RGSpace((7, 5), distances=np.array([0.3, 0.3]), harmonic=True)")
    add("lm2", "ift.LMSpace(2)")
    add("lm2", "ift.LMSpace(2, 2)")
    add("lm2", "ift.LMSpace(2.0, mmax=None)")
    add("lm21", "ift.LMSpace(2, 1)")
    add("lm3", "ift.LMSpace(3)")
    add("gl2", "ift.GLSpace(2)")
    add("gl2", "ift.GLSpace(2, 3)")
    add("gl24", "ift.GLSpace(2, 4)")
    add("gl2", "_touched_dvol(ift.GLSpace(2, 3))")
    add("hp1", "ift.HPSpace(1)")
    add("hp1", "ift.HPSpace(np.int64(1))")
    add("hp2", "ift.HPSpace(2)")
    add("u3", "ift.UnstructuredDomain(3)")
    add("u3", "ift.UnstructuredDomain((3,))")
    add("u13", "ift.UnstructuredDomain((1, 3))")
    add("dof12", "ift.DOFSpace([1, 2])")
    add("dof12", "ift.DOFSpace(np.array([1., 2.]))")
    add("dof12", "ift.DOFSpace((1.0, 2))")
    add("dof21", "ift.DOFSpace([2, 1])")
    add("dof3", "ift.DOFSpace([3.])")
    add("ps4", "ift.PowerSpace(ift.RGSpace(4, harmonic=True))")
    add("ps4", "ift.PowerSpace(ift.RGSpace((4,), distances=1.0, harmonic=True), None)")
    add("ps4", "ift.PowerSpace(ift.RGSpace(4).get_default_codomain())")
    add("ps4b", "ift.PowerSpace(ift.RGSpace(4, harmonic=True), (0.5, 1.5))")
    add("ps4b", "ift.PowerSpace(ift.RGSpace(4, harmonic=True), np.array([0.5, 1.5]))")
    add("ps4b", "ift.PowerSpace(ift.RGSpace(4, harmonic=True), [0.5, 1.5])")
    add("ps4c", "ift.PowerSpace(ift.RGSpace(4, harmonic=True), (0.5,))")
    add("pslm", "ift.PowerSpace(ift.LMSpace(2))")
    add("pslm", "ift.PowerSpace(ift.LMSpace(2, 2), None)")
    add("pslm1", "ift.PowerSpace(ift.LMSpace(2, 1))")
    add("pslmb", "ift.PowerSpace(ift.LMSpace(2), (0.5, 1.5))")
    return L


def _touched_dvol(g):
    g.dvol        # fills the private volume cache of a GLSpace: must not change identity
    return g


def cases(tier, seed):
    B = _bounds(tier)
    out = []
    # ---- geometry of single domains (simplest first: by size)
    geo = (R.rg_specs(B["nmax"], seed) + R.lm_specs(B["lmax"]) + R.gl_specs(4, 7) + R.hp_specs(B["nside"])
           + R.dof_specs(seed))
    geo.sort(key=lambda s: (R.ref_geom(s)["size"] if s["t"] != "PS" else 0))
    out += [dict(kind="geom", spec=s) for s in geo]
    # ---- power spaces over every harmonic partner
    hp = R.harmonic_partners(B["nmax"], B["lmax"], seed)
    hp.sort(key=lambda s: R.ref_geom(s)["size"])
    out += [dict(kind="power", partner=s, family=f) for s in hp for f in ("natural", "lin", "log")]
    # ---- products
    alpha = _tuple_alphabet(seed)
    for n in range(0, 4):
        for combo in itertools.product(range(len(alpha)), repeat=n):
            out.append(dict(kind="tuple", specs=[alpha[i] for i in combo]))
    keys = ["a", "b", "c"]
    vals = [[alpha[0]], [alpha[3], alpha[5]], []]
    for n in range(0, 4):
        for ks in itertools.combinations(keys, n):
            for vs in itertools.product(range(len(vals)), repeat=n):
                out.append(dict(kind="multi", keys=list(ks), vals=[vals[i] for i in vs]))
    # ---- equality / hash over duplicate spellings
    E = _eq_alphabet(seed)
    for i in range(len(E)):
        out.append(dict(kind="eqhash", i=i, alphabet=E))
    # ---- histories
    for pair in sorted(PAIRS):
        nops = len(_ops(pair))
        for prefix in itertools.product(range(nops), repeat=B["hdepth"] - 2):
            out.append(dict(kind="history", pair=pair, prefix=list(prefix), depth=B["hdepth"]))
        out.append(dict(kind="bfs", pair=pair, maxdepth=8))
    return out


# =============================================================================================
#                                        geometry
# =============================================================================================
class Fail(Exception):
    def __init__(self, key, what, detail=None):
        Exception.__init__(self, what)
        self.key, self.what, self.detail = key, what, detail


def _req(cond, key, what, detail=None):
    if not cond:
        raise Fail(key, what, detail)


def _arr(x):
    return np.asarray(x)


def _lm_l_by_synthesis(lmax, mmax):
    """l of every stored coefficient, determined by synthesising each unit coefficient on a Gauss-Legendre grid
    with the library's SHT and projecting on scipy's Y_lm (quadrature exact for the band limit)."""
    import nifty.cl as ift
    from scipy.special import sph_harm_y
    lm = ift.LMSpace(lmax, mmax)
    nlat, nlon = lmax + 2, 2 * lmax + 3      # no aliasing of any |m| <= lmax against the stored m <= mmax
    gl = ift.GLSpace(nlat, nlon)
    ht = ift.HarmonicTransformOperator(lm, gl)
    x, w = np.polynomial.legendre.leggauss(nlat)
    theta = np.repeat(np.arccos(x), nlon)
    phi = np.tile(2 * np.pi * np.arange(nlon) / nlon, nlat)
    wq = np.repeat(w, nlon) * 2 * np.pi / nlon
    Y = {}
    for l in range(lmax + 1):
        Y[l] = np.array([sph_harm_y(l, m, theta, phi) for m in range(-l, l + 1)])
    res = []
    for i in range(lm.size):
        e = np.zeros(lm.size)
        e[i] = 1.
        f = ht(ift.makeField(lm, e)).asnumpy()
        # the grid may be traversed north->south or south->north: |<f,Y_lm>| is the same for both (weights symmetric)
        pw = np.array([np.sum(np.abs(Y[l].conj() @ (wq * f)) ** 2) for l in range(lmax + 1)])
        tot = np.sum(wq * f * f)
        big = [l for l in range(lmax + 1) if pw[l] > 1e-8 * tot]
        if len(big) != 1 or abs(pw[big[0]] - tot) > 1e-8 * tot:
            return None
        res.append(float(big[0]))
    return np.array(res)


def _check_geom(dom, spec, ref):
    """public geometry of `dom` against the reference dict; raises Fail."""
    import nifty.cl as ift
    lab = R.label(spec)
    _req(tuple(dom.shape) == ref["shape"], "%s|shape" % lab, "shape %s != reference %s" % (dom.shape, ref["shape"]))
    _req(int(dom.size) == ref["size"] and isinstance(dom.size, (int, np.integer)), "%s|size" % lab,
         "size %r != reference %d" % (dom.size, ref["size"]))
    _req(bool(dom.harmonic) == ref["harmonic"], "%s|harmonic-flag" % lab, "harmonic flag %r" % (dom.harmonic,))
    if isinstance(dom, ift.GLSpace):
        # history: the volumes of OTHER grids (same nlat / same nlon) are evaluated first -- whatever the class
        # remembers from them must not leak into this domain (deterministic, independent of the worker's past)
        for other in (ift.GLSpace(dom.nlat, dom.nlon + 1), ift.GLSpace(dom.nlat + 1, dom.nlon)):
            _ = other.dvol, other.total_volume
    dv, sdv, tv = dom.dvol, dom.scalar_dvol, dom.total_volume
    _req(np.isscalar(tv) or _arr(tv).shape == (), "%s|total_volume-not-scalar" % lab, "total_volume is %r" % (tv,))
    # total volume = sum of the reference pixel volumes
    _req(R.close(tv, ref["total"]), "%s|total_volume!=sum-of-pixel-volumes" % lab,
         "total_volume %.17g but the pixel volumes sum to %.17g" % (tv, ref["total"]))
    if ref["uniform"]:
        _req(sdv is not None and np.isscalar(sdv), "%s|scalar_dvol-missing" % lab, "scalar_dvol is %r on a uniform domain" % (sdv,))
        _req(R.close(sdv, ref["dvol"].ravel()[0]), "%s|scalar_dvol" % lab,
             "scalar_dvol %.17g != reference pixel volume %.17g" % (sdv, ref["dvol"].ravel()[0]))
        _req(R.close(sdv * dom.size, tv), "%s|scalar_dvol*size!=total_volume" % lab, "%.17g * %d != %.17g" % (sdv, dom.size, tv))
        _req(np.isscalar(dv) and dv == sdv, "%s|dvol!=scalar_dvol" % lab, "dvol %r vs scalar_dvol %r" % (dv, sdv))
    else:
        _req(sdv is None, "%s|scalar_dvol-on-nonuniform" % lab, "scalar_dvol %r on a domain with non-uniform volumes" % (sdv,))
        _req(_arr(dv).shape == ref["shape"], "%s|dvol-shape" % lab, "dvol shape %s" % (_arr(dv).shape,))
        _req(R.close(dv, ref["dvol"]), "%s|dvol" % lab, "dvol %s != reference %s" % (_arr(dv), ref["dvol"]))
        _req(R.close(np.sum(_arr(dv)), tv), "%s|sum(dvol)!=total_volume" % lab, "%.17g vs %.17g" % (np.sum(_arr(dv)), tv))
    st = dict(pixels=ref["size"])
    if ref["harmonic"]:
        ka = dom.get_k_length_array()
        _req(isinstance(ka, ift.Field) and ka.domain is ift.DomainTuple.make(dom), "%s|k_length_array-domain" % lab,
             "k-length array is not a Field on the domain")
        ka = ka.asnumpy()
        scale = float(np.max(ref["karr"]))
        _req(ka.shape == ref["shape"] and R.close(ka, ref["karr"], scale=scale), "%s|k_length_array" % lab,
             "k-length table differs from the reference: %s vs %s" % (ka.ravel()[:12], ref["karr"].ravel()[:12]))
        uk_ref, amb = R.ref_unique_k(ref["karr"])
        uk = _arr(dom.get_unique_k_lengths())
        st["unique_k"] = len(uk_ref)
        if amb:
            raise Fail(None, "ambiguous-merge")
        _req(not (len(uk) == 0 and len(uk_ref) > 0), "%s|unique_k_lengths-empty|kmax=0" % spec["t"],
             "get_unique_k_lengths() is empty but the k-length table holds %s" % (uk_ref[:4],))
        _req(uk.ndim == 1 and len(uk) == len(uk_ref) and R.close(uk, uk_ref, scale=scale),
             "%s|unique_k_lengths!=unique(k_length_array)" % lab,
             "unique k-lengths %s but the table holds %s" % (uk[:12], uk_ref[:12]))
        _req(bool(np.all(np.diff(uk) > 0)), "%s|unique_k_lengths-not-ascending" % lab, "%s" % (uk[:12],))
    else:
        for meth in ("get_k_length_array", "get_unique_k_lengths"):
            try:
                getattr(dom, meth)()
            except NotImplementedError:
                continue
            raise Fail("%s|%s-on-position-space" % (lab, meth), "%s did not raise on a non-harmonic domain" % meth)
    return st


def _check_pickle(dom, lab):
    d2 = pickle.loads(pickle.dumps(dom))
    _req(d2 == dom and dom == d2 and not (d2 != dom), "%s|pickle-not-equal" % lab, "unpickled domain != original")
    _req(hash(d2) == hash(dom), "%s|pickle-hash" % lab, "hash changed by pickling")
    _req(R.describe(d2) == R.describe(dom), "%s|pickle-description" % lab, "%s vs %s" % (R.describe(d2), R.describe(dom)))
    return d2


def _run_geom(case):
    import nifty.cl as ift
    spec = case["spec"]
    lab = R.label(spec)
    ref = R.ref_geom(spec)
    dom = R.build(spec)
    st = _check_geom(dom, spec, ref)
    extra = []
    if spec["t"] == "RG":
        dist = R.rg_distances(spec)
        _req(len(dom.distances) == len(dist) and R.close(dom.distances, dist), "%s|distances" % lab,
             "distances %s != described %s" % (dom.distances, dist))
        ext = [n * d for n, d in zip(spec["shape"], dist)]
        _req(R.close(dom.extents, ext) and R.close(np.prod(dom.extents), dom.scalar_dvol * dom.size), "%s|extents" % lab,
             "extents %s vs %s" % (dom.extents, ext))
        co = dom.get_default_codomain()
        _req(co.harmonic != dom.harmonic and co.shape == dom.shape, "%s|codomain" % lab, "codomain %r" % (co,))
        dom.check_codomain(co)
        co.check_codomain(dom)
        # partner grid: dist' = 1/(n dist); volume of the partner
        _req(R.close(co.distances, [1.0 / (n * d) for n, d in zip(spec["shape"], dist)]), "%s|codomain-distances" % lab,
             "codomain distances %s" % (co.distances,))
        back = co.get_default_codomain()
        _req(back == dom and hash(back) == hash(dom) and ift.DomainTuple.make(back) is ift.DomainTuple.make(dom),
             "%s|codomain-of-codomain-not-identical" % lab, "%r vs %r" % (back, dom))
        extra.append("codomain")
    if spec["t"] == "LM":
        lmax = spec["lmax"]
        mmax = lmax if spec["mmax"] is None else spec["mmax"]
        _req(dom.lmax == lmax and dom.mmax == mmax, "LM|lmax-mmax", "%r" % (dom,))
        ls = _lm_l_by_synthesis(lmax, mmax)
        _req(ls is not None, "LM|synthesis-not-single-l", "a unit coefficient does not synthesise to a single l")
        _req(np.array_equal(ls, dom.get_k_length_array().asnumpy()), "LM|k_length!=l-of-synthesised-mode",
             "k-length table %s but the SHT places l=%s there" % (dom.get_k_length_array().asnumpy(), ls))
        extra.append("sht")
    if spec["t"] == "GL":
        _req(dom.nlat == spec["nlat"] and dom.nlon == (2 * spec["nlat"] - 1 if spec["nlon"] is None else spec["nlon"]),
             "GL|nlat-nlon", "%r" % (dom,))
        _req(R.close(ref["total"], 4 * math.pi), "GL|reference", "reference weights do not sum to 4pi")
    # a second, equal object and the pickled object have the same geometry
    dom2 = R.build(spec)
    _req(dom2 is not dom and dom2 == dom and hash(dom2) == hash(dom), "%s|equal-description-not-equal" % lab,
         "two objects built from one description differ")
    d3 = _check_pickle(dom, lab)
    _check_geom(d3, spec, ref)
    _req(ift.DomainTuple.make(d3) is ift.DomainTuple.make(dom2), "%s|pickled-domain-different-tuple" % lab,
         "DomainTuple.make(unpickled) is not DomainTuple.make(original)")
    return ok(nontrivial=ref["size"] > 1, outcome="geom|%s|%s%s" % (lab, "uniform" if ref["uniform"] else "per-pixel",
                                                               "".join("|" + e for e in extra)), stats=st)


# =============================================================================================
#                                        power spaces
# =============================================================================================
def _coarsenings(uk, maxunique=7):
    if len(uk) < 2 or len(uk) > maxunique:
        return []
    mids = [0.5 * (uk[i] + uk[i + 1]) for i in range(len(uk) - 1)]
    out = []
    for n in range(1, len(mids) + 1):
        for sub in itertools.combinations(mids, n):
            out.append([float(x) for x in sub])
    return out


def _check_power(ps, hp, pspec, pref, lab):
    """PowerSpace object `ps` over partner object `hp` against the reference partition."""
    nbin = pref["nbin"]
    kind = "natural" if pspec["bb"] is None else pspec["bb"]["kind"]
    K = "PS|%s|" % kind
    _req(ps.harmonic_partner == hp and hash(ps.harmonic_partner) == hash(hp), K + "harmonic_partner", "partner differs")
    _req(ps.harmonic is False and ps.scalar_dvol is None, K + "flags", "harmonic=%r scalar_dvol=%r" % (ps.harmonic, ps.scalar_dvol))
    if pspec["bb"] is None:
        _req(ps.binbounds is None, K + "binbounds", "natural binning reports binbounds %r" % (ps.binbounds,))
    else:
        _req(ps.binbounds is not None and R.close(ps.binbounds, pref["bounds"], rtol=1e-15), K + "binbounds",
             "binbounds %r != requested %r" % (ps.binbounds, pref["bounds"]))
    pin = _arr(ps.pindex)
    _req(pin.shape == tuple(hp.shape) and np.issubdtype(pin.dtype, np.integer), K + "pindex-shape",
         "pindex shape %s dtype %s, partner shape %s" % (pin.shape, pin.dtype, hp.shape))
    _req(pin.min() >= 0 and pin.max() < nbin, K + "pindex-range", "pindex in [%d,%d], %d bins" % (pin.min(), pin.max(), nbin))
    _req(tuple(ps.shape) == (nbin,) and ps.size == nbin, K + "shape", "shape %s for %d bins" % (ps.shape, nbin))
    _req(bool(np.all((pin >= pref["lo"]) & (pin <= pref["hi"]))), K + "pindex!=bin-of-k-length",
         "pindex %s, reference %s" % (pin.ravel()[:16], pref["lo"].ravel()[:16]))
    dvol, km, cnt = R.stats_from_pindex(pref["karr"], pin, nbin, pref["pvol"])
    _req(bool(np.all(cnt > 0)), K + "empty-bin", "bins %s are empty" % (np.nonzero(cnt == 0)[0],))
    _req(_arr(ps.dvol).shape == (nbin,) and R.close(ps.dvol, dvol), K + "dvol!=sum-of-member-volumes",
         "dvol %s, members sum to %s" % (_arr(ps.dvol), dvol))
    scale = float(np.max(pref["karr"]))
    _req(_arr(ps.k_lengths).shape == (nbin,) and R.close(ps.k_lengths, km, scale=scale), K + "k_lengths!=mean-of-members",
         "k_lengths %s, member means %s" % (_arr(ps.k_lengths), km))
    _req(R.close(ps.total_volume, hp.total_volume) and R.close(ps.total_volume, np.sum(dvol)), K + "total_volume",
         "power space volume %.17g, partner volume %.17g" % (ps.total_volume, hp.total_volume))
    if pspec["bb"] is None:
        _req(len(np.unique(pin)) == nbin == len(pref["uk"]), K + "bins!=distinct-k", "%d bins, %d distinct k" % (nbin, len(pref["uk"])))


def _run_power(case):
    """one harmonic partner x one family of binnings ('natural' = natural + all coarsenings, 'lin', 'log')."""
    import nifty.cl as ift
    partner, fam = case["partner"], case["family"]
    plab = R.label(partner)
    hp = R.build(partner)
    pg = R.ref_geom(partner)
    uk, amb = R.ref_unique_k(pg["karr"])
    if amb:
        return skip("unique k-lengths ambiguous at the merge tolerance")
    st = dict(power_spaces=0, multi_bin=0, boundary_pixels=0, useful_rejected=0, cache_hits=0)
    fails = []
    outcome = set()
    binnings = []
    if fam == "natural":
        binnings = [None] + [dict(kind="custom", bounds=b) for b in _coarsenings(uk)]
        try:
            _req(ift.PowerSpace.useful_binbounds(hp, None, None) is None, "useful_binbounds|None-None", "expected None")
            for badb, why in (((-0.5, 1.0), "negative bound"),):     # wrong descriptions must be rejected
                try:
                    ift.PowerSpace(hp, badb)
                except ValueError:
                    continue
                raise Fail("PS|accepts-" + why.replace(" ", "-"), "PowerSpace accepted binbounds %r" % (badb,))
        except Fail as f:
            fails.append(f)
    else:
        # ---- bin bounds proposed by the library: contract of useful_binbounds
        log = fam == "log"
        kind = fam
        try:
            if len(uk) < 3:
                for nb in (None, 3):
                    try:
                        ift.PowerSpace.useful_binbounds(hp, log, nb)
                    except ValueError:
                        st["useful_rejected"] += 1
                        continue
                    raise Fail("useful_binbounds|accepts-space-with<3-k", "useful_binbounds accepted a space with %d distinct k" % len(uk))
                outcome.add("too-few-k")
            else:
                nb = None
                nmax = None
                while True:
                    try:
                        bb = _arr(ift.PowerSpace.useful_binbounds(hp, log, nb))
                    except ValueError as e:
                        _req(nb is not None and "too large" in str(e), "useful_binbounds|%s|raises" % kind, "nbin=%r: %r" % (nb, e))
                        st["useful_rejected"] += 1
                        break
                    if nb is None:
                        nmax = len(bb) + 1
                        _req(nmax >= 3, "useful_binbounds|%s|nbin_max<3" % kind, "%d" % nmax)
                    else:
                        _req(len(bb) == nb - 1, "useful_binbounds|%s|wrong-number-of-bounds" % kind, "nbin=%d gave %d bounds" % (nb, len(bb)))
                    rb = R.ref_useful_binbounds(uk, log, len(bb) + 1)
                    _req(R.close(bb, rb, rtol=1e-11), "useful_binbounds|%s|bounds" % kind,
                         "nbin=%r: bounds %s, documented construction gives %s" % (nb, bb, rb))
                    binnings.append(dict(kind=kind, nbin=nb, _bounds=[float(x) for x in bb]))
                    nb = 3 if nb is None else nb + 1
                    if nb > 200:
                        raise Fail("useful_binbounds|%s|never-rejects" % kind, "nbin=200 still accepted")
                _req(nb == nmax + 1, "useful_binbounds|%s|nbin_max-inconsistent" % kind,
                     "nbin=None uses %r bins but the first rejected nbin is %r" % (nmax, nb))
        except Fail as f:
            fails.append(f)
    # ---- every binning
    for b in binnings:
        try:
            _one_binning(ift, hp, partner, plab, uk, b, st, outcome)
        except Fail as f:
            fails.append(f)
    if fails:
        keys = []
        for f in fails:
            if f.key not in keys:
                keys.append(f.key)
        f = fails[0]
        return bad(f.what + ("" if len(fails) == 1 else "  [%d failures in this case, keys: %s]" % (len(fails), keys)),
                   finding_key=f.key, detail=dict(all_keys=keys, n_failures=len(fails)), stats=st)
    return ok(nontrivial=st["multi_bin"] > 0 or st["useful_rejected"] > 0,
              outcome="power|%s|%s" % (plab, "+".join(sorted(outcome))), stats=st)


def _one_binning(ift, hp, partner, plab, uk, b, st, outcome):
    pspec = dict(t="PS", partner=partner, bb=None if b is None else {k: v for k, v in b.items() if k != "_bounds"})
    kind = "natural" if b is None else b["kind"]
    lib_bounds = None if b is None else (b["bounds"] if kind == "custom" else b["_bounds"])
    pref = R.ref_power(pspec, lib_bounds=lib_bounds)
    ncache0 = len(ift.PowerSpace._powerIndexCache)
    try:
        ps = ift.PowerSpace(hp) if b is None else ift.PowerSpace(hp, lib_bounds)
    except ValueError as e:
        if "empty bins" in str(e) and kind in ("lin", "log"):
            # documented: useful_binbounds returns bounds that do not produce empty bins
            tie = "|k-on-boundary" if pref["ambiguous"] else ""
            raise Fail("useful_binbounds|%s|produces-empty-bins%s" % (kind, tie),
                       "PowerSpace.useful_binbounds(%r, logarithmic=%s, nbin=%r) -> %s, which PowerSpace rejects with "
                       "'empty bins detected' (distinct k: %s)" % (hp, kind == "log", b.get("nbin"), lib_bounds, uk[:8]))
        raise Fail("PS|%s|ctor-raises" % kind, "PowerSpace(%s, %s) raised %r" % (plab, lib_bounds, e))
    st["power_spaces"] += 1
    st["boundary_pixels"] += pref["ambiguous"]
    st["multi_bin"] += pref["nbin"] > 1
    _check_power(ps, hp, pspec, pref, plab)
    # the same description again: through the cache, through an equal (new) partner object, through pickle
    hp2 = R.build(partner)
    ps2 = ift.PowerSpace(hp2, None if b is None else np.array(lib_bounds))
    st["cache_hits"] += len(ift.PowerSpace._powerIndexCache) == ncache0 + 1
    _req(len(ift.PowerSpace._powerIndexCache) <= ncache0 + 1, "PS|%s|cache-duplicates-equal-description" % kind,
         "an equal description created a second cache entry")
    _req(ps2 == ps and hash(ps2) == hash(ps) and not (ps2 != ps), "PS|%s|equal-description-not-equal" % kind, "%r vs %r" % (ps, ps2))
    _check_power(ps2, hp2, pspec, pref, plab)
    ps3 = _check_pickle(ps, "PS|%s" % kind)
    _check_power(ps3, hp, pspec, pref, plab)
    _req(ift.DomainTuple.make(ps3) is ift.DomainTuple.make(ps2), "PS|%s|pickled-domain-different-tuple" % kind,
         "DomainTuple.make(unpickled) is not DomainTuple.make(original)")
    outcome.add(kind)


# =============================================================================================
#                                        products
# =============================================================================================
def _run_tuple(case):
    import nifty.cl as ift
    specs = case["specs"]
    doms = [R.build(s) for s in specs]
    refs = [R.ref_geom(s) for s in specs]
    dt = ift.DomainTuple.make(tuple(doms))
    shape = ()
    axes = []
    for r in refs:
        axes.append(tuple(range(len(shape), len(shape) + len(r["shape"]))))
        shape += r["shape"]
    size = 1
    for n in shape:
        size *= n
    _req(len(dt) == len(doms) and all(dt[i] == d for i, d in enumerate(doms)) and [d for d in dt] == doms,
         "DomainTuple|entries", "entries differ")
    _req(tuple(dt.shape) == shape and dt.size == size, "DomainTuple|shape-size", "shape %s size %s, reference %s %s" % (dt.shape, dt.size, shape, size))
    _req(tuple(dt.axes) == tuple(axes), "DomainTuple|axes", "axes %s, reference %s" % (dt.axes, axes))
    n = len(doms)
    subsets = [None] + list(range(n))
    for k in range(0, n + 1):
        subsets += list(itertools.combinations(range(n), k))
        if k == 2:
            subsets += [tuple(reversed(c)) for c in itertools.combinations(range(n), 2)]
    nsub = 0
    for sp in subsets:
        idx = list(range(n)) if sp is None else ([sp] if isinstance(sp, int) else list(sp))
        tv = 1.0
        sw = 1.0
        for i in idx:
            tv *= refs[i]["total"]
            sw = None if (sw is None or not refs[i]["uniform"]) else sw * refs[i]["dvol"].ravel()[0]
        got = dt.total_volume(sp)
        _req(R.close(got, tv), "DomainTuple|total_volume!=product", "total_volume(%r)=%r, reference %r" % (sp, got, tv))
        gw = dt.scalar_weight(sp)
        if sw is None:
            _req(gw is None, "DomainTuple|scalar_weight-on-nonuniform", "scalar_weight(%r)=%r on non-uniform volumes" % (sp, gw))
        else:
            _req(gw is not None and R.close(gw, sw), "DomainTuple|scalar_weight!=product", "scalar_weight(%r)=%r, reference %r" % (sp, gw, sw))
            sz = 1
            for i in idx:
                sz *= refs[i]["size"]
            _req(R.close(gw * sz, got), "DomainTuple|scalar_weight*size!=total_volume", "%r*%d vs %r" % (gw, sz, got))
        nsub += 1
    # canonical identity of the product, with new equal entries and after pickling
    dt2 = ift.DomainTuple.make([R.build(s) for s in specs])
    _req(dt2 is dt, "DomainTuple|equal-description-not-identical", "make(list of equal domains) is not the first object")
    dt3 = pickle.loads(pickle.dumps(dt))
    _req(dt3 is dt, "DomainTuple|pickle-not-identical", "unpickled DomainTuple is a different object")
    _req(hash(dt) == hash(dt2) and dt == dt2 and not dt != dt2, "DomainTuple|eq-hash", "eq/hash inconsistent")
    return ok(nontrivial=n >= 1, outcome="tuple|n=%d|%s" % (n, "uniform" if all(r["uniform"] for r in refs) else "mixed"),
              stats=dict(spaces_subsets=nsub))


def _run_multi(case):
    import nifty.cl as ift
    keys, vals = case["keys"], case["vals"]
    perms = list(itertools.permutations(range(len(keys))))
    size = sum(int(np.prod([R.ref_geom(s)["size"] for s in v])) if v else 1 for v in vals)
    saved = dict(ift.MultiDomain._domainCache)
    try:
        for p0 in perms:                       # every insertion order comes first once, on a cold MultiDomain cache
            ift.MultiDomain._domainCache.clear()
            first = None
            for p in [p0] + perms:
                for form in ("raw", "dt"):
                    d = {}
                    for i in p:
                        doms = tuple(R.build(s) for s in vals[i])
                        d[keys[i]] = ift.DomainTuple.make(doms) if form == "dt" else (doms[0] if len(doms) == 1 else doms)
                    md = ift.MultiDomain.make(d)
                    if first is None:
                        first = md
                    _req(md is first, "MultiDomain|equal-description-not-identical|order=%s" % ("same" if p == p0 else "permuted"),
                         "make(%s, %s values) is not the first object" % ([keys[i] for i in p], form))
            _req(tuple(first.keys()) == tuple(sorted(keys)), "MultiDomain|keys-not-sorted",
                 "keys %s after insertion order %s" % (first.keys(), [keys[i] for i in p0]))
    finally:
        ift.MultiDomain._domainCache.clear()
        ift.MultiDomain._domainCache.update(saved)
    first = ift.MultiDomain.make({keys[i]: tuple(R.build(s) for s in vals[i]) for i in perms[-1]})
    md = first
    _req(tuple(md.keys()) == tuple(sorted(keys)), "MultiDomain|keys-not-sorted", "%s" % (md.keys(),))
    for k, v in zip(keys, vals):
        _req(md[k] is ift.DomainTuple.make(tuple(R.build(s) for s in v)), "MultiDomain|entry-not-canonical", "entry %s" % k)
    _req(md.size == (size if keys else 0) and len(md) == len(keys), "MultiDomain|size", "size %r, reference %r" % (md.size, size))
    _req([k for k, _ in md.items()] == sorted(keys) and list(md.values()) == [md[k] for k in sorted(keys)] and
         list(md.domains()) == list(md.values()) and dict(md.idx) == {k: i for i, k in enumerate(sorted(keys))},
         "MultiDomain|items", "items/values/idx inconsistent")
    md2 = pickle.loads(pickle.dumps(md))
    _req(md2 is md, "MultiDomain|pickle-not-identical", "unpickled MultiDomain is a different object")
    _req(ift.MultiDomain.make(md) is md and hash(md2) == hash(md) and md == md2 and not md != md2, "MultiDomain|eq-hash", "inconsistent")
    return ok(nontrivial=len(keys) >= 1, outcome="multi|n=%d|orders=%d" % (len(keys), len(perms)),
              stats=dict(multi_makes=2 * len(perms) * (len(perms) + 1)))


def _run_eqhash(case):
    import nifty.cl as ift
    E = case["alphabet"]
    env = dict(ift=ift, np=np, _touched_dvol=_touched_dvol)
    gi, si = E[case["i"]]
    a = eval(si, env)
    ha = hash(a)
    same = 0
    for gj, sj in E:
        b = eval(sj, env)
        eq = (a == b)
        K = "%s-vs-%s" % (type(a).__name__, type(b).__name__)
        _req(eq == (gi == gj), "Domain-eq|%s|%s" % (K, "equal-descriptions-unequal" if gi == gj else "different-descriptions-equal"),
             "%s == %s -> %r" % (si, sj, eq))
        _req((a != b) == (not eq) and (b == a) == eq, "Domain-eq|%s|asymmetric-or-ne" % K, "%s vs %s" % (si, sj))
        ta, tb = ift.DomainTuple.make(a), ift.DomainTuple.make((b,))
        if eq:
            _req(hash(b) == ha, "Domain-hash|%s|equal-but-hash-differs" % K, "%s vs %s" % (si, sj))
            _req(R.describe(a) == R.describe(b), "Domain-eq|%s|equal-but-geometry-differs" % K, "%s vs %s" % (si, sj))
            _req(ta is tb and hash(ta) == hash(tb), "DomainTuple|equal-description-not-identical", "%s vs %s" % (si, sj))
            _req(ift.MultiDomain.make({"x": a, "y": b}) is ift.MultiDomain.make({"y": (a,), "x": [b]}),
                 "MultiDomain|equal-description-not-identical|order=permuted", "%s vs %s" % (si, sj))
            same += 1
        else:
            _req(ta is not tb and ta != tb and not ta == tb, "DomainTuple|different-descriptions-identical", "%s vs %s" % (si, sj))
            _req(ift.MultiDomain.make({"x": a}) != ift.MultiDomain.make({"x": b}), "MultiDomain|different-descriptions-equal", "%s vs %s" % (si, sj))
        p = pickle.loads(pickle.dumps(b))
        _req((a == p) == eq and (not eq or hash(p) == ha), "Domain-eq|%s|changes-after-pickle" % K, "%s vs pickled %s" % (si, sj))
    return ok(nontrivial=same > 1, outcome="eqhash|%s|spellings=%d" % (type(a).__name__, same), stats=dict(domain_pairs=len(E)))


# =============================================================================================
#                                        histories (mode H)
# =============================================================================================
def _pairs():
    import nifty.cl as ift
    return {
        "rg-lm": dict(
            X=[lambda: ift.RGSpace(3), lambda: ift.RGSpace((3,), distances=1 / 3.)],
            Y=[lambda: ift.LMSpace(2), lambda: ift.LMSpace(2, 2)]),
        "ps-hp": dict(
            X=[lambda: ift.PowerSpace(ift.RGSpace(4, harmonic=True)),
               lambda: ift.PowerSpace(ift.RGSpace((4,), distances=1.0, harmonic=True), None)],
            Y=[lambda: ift.HPSpace(1), lambda: ift.HPSpace(np.int64(1))]),
        "psbb-gl": dict(
            X=[lambda: ift.PowerSpace(ift.LMSpace(3), (0.5, 1.5)),
               lambda: ift.PowerSpace(ift.LMSpace(3, 3), np.array([0.5, 1.5]))],
            Y=[lambda: ift.GLSpace(2), lambda: _touched_dvol(ift.GLSpace(2, 3))]),
        "dof-rgh": dict(
            X=[lambda: ift.DOFSpace([1, 2]), lambda: ift.DOFSpace(np.array([1., 2.]))],
            Y=[lambda: ift.RGSpace((2, 2), harmonic=True),
               lambda: ift.RGSpace((2, 2), distances=(1., 1.), harmonic=True)]),
    }


PAIRS = ["dof-rgh", "ps-hp", "psbb-gl", "rg-lm"]

# descriptions: label -> function(X, Y) giving the tuple of domains
DT_LABELS = {"S": lambda X, Y: (), "A": lambda X, Y: (X,), "B": lambda X, Y: (X, Y), "C": lambda X, Y: (Y, X)}
MD_LABELS = {"M1": {"a": "A", "b": "B"}, "M2": {"a": "B", "b": "A"}, "M3": {"a": "A"}}


def _ops(pair):
    """operation alphabet: list of (name, kind, args)."""
    ops = []
    for form in ("()", "None", "[]", "scalar_domain"):
        ops.append(("mkS[%s]" % form, "mk", ("S", form, 0)))
    for sp in (0, 1):
        for form in ("domain", "tuple", "list"):
            ops.append(("mkA[%s,sp%d]" % (form, sp), "mk", ("A", form, sp)))
        for form in ("tuple", "list", "gen"):
            ops.append(("mkB[%s,sp%d]" % (form, sp), "mk", ("B", form, sp)))
        ops.append(("mkC[tuple,sp%d]" % sp, "mk", ("C", "tuple", sp)))
    for lab in ("A", "B"):
        ops.append(("remake[%s]" % lab, "remake", (lab,)))
    for sp in (0, 1):
        for order in ("ab", "ba"):
            for vform in ("raw", "dt"):
                ops.append(("mdM1[%s,%s,sp%d]" % (order, vform, sp), "md", ("M1", order, vform, sp)))
    ops.append(("mdM2[ab,raw,sp0]", "md", ("M2", "ab", "raw", 0)))
    ops.append(("mdM3[a,raw,sp1]", "md", ("M3", "ab", "raw", 1)))
    ops.append(("remake[M1]", "remake", ("M1",)))
    for lab in ("S", "A", "B", "M1", "M2"):
        ops.append(("pickle[%s]" % lab, "pickle", (lab,)))
    for lab in ("A", "B", "M1"):
        ops.append(("foreign[%s]" % lab, "foreign", (lab,)))
    ops.append(("deepcopy[B]", "copy", ("B", "deep")))
    ops.append(("copy[M1]", "copy", ("M1", "shallow")))
    ops.append(("deepcopy[M1]", "copy", ("M1", "deep")))
    ops.append(("pickle-domain[X]", "pickledom", ()))
    return ops


class _World:
    """the real caches, emptied; plus the lock-step model (label -> first object returned)."""

    def __init__(self, pair):
        import nifty.cl as ift
        self.ift = ift
        self.P = _pairs()[pair]
        self.saved = (dict(ift.DomainTuple._tupleCache), ift.DomainTuple._scalarDomain,
                      dict(ift.MultiDomain._domainCache), dict(ift.PowerSpace._powerIndexCache))
        self.foreign = None

    def clear(self):
        ift = self.ift
        ift.DomainTuple._tupleCache.clear()
        ift.DomainTuple._scalarDomain = None
        ift.MultiDomain._domainCache.clear()
        ift.PowerSpace._powerIndexCache.clear()
        self.held = {}
        self.collisions = 0

    def restore(self):
        ift = self.ift
        self.clear()
        ift.DomainTuple._tupleCache.update(self.saved[0])
        ift.DomainTuple._scalarDomain = self.saved[1]
        ift.MultiDomain._domainCache.update(self.saved[2])
        ift.PowerSpace._powerIndexCache.update(self.saved[3])

    def make_foreign(self):
        """bytes pickled in a world with different (cold) caches"""
        self.clear()
        ift = self.ift
        out = {}
        for lab in ("A", "B"):
            out[lab] = pickle.dumps(ift.DomainTuple.make(self.doms(lab, 0)))
        out["M1"] = pickle.dumps(ift.MultiDomain.make({k: self.doms(v, 0) for k, v in MD_LABELS["M1"].items()}))
        self.foreign = out
        self.clear()

    def doms(self, lab, sp):
        return DT_LABELS[lab](self.P["X"][sp](), self.P["Y"][sp]())

    # ---------------------------------------------------------------- one operation
    def step(self, op):
        """returns list of (label, object) produced (to be checked against the model) or None if not applicable"""
        ift = self.ift
        name, kind, args = op
        if kind == "mk":
            lab, form, sp = args
            d = self.doms(lab, sp)
            if form == "scalar_domain":
                r = ift.DomainTuple.scalar_domain()
            elif form in ("()", "tuple"):
                r = ift.DomainTuple.make(d)
            elif form == "None":
                r = ift.DomainTuple.make(None)
            elif form in ("[]", "list"):
                r = ift.DomainTuple.make(list(d))
            elif form == "gen":
                r = ift.DomainTuple.make(x for x in d)
            elif form == "domain":
                r = ift.DomainTuple.make(d[0])
            return [(lab, r, "fresh")]
        if kind == "remake":
            lab, = args
            if lab not in self.held:
                return None
            mk = ift.MultiDomain.make if lab in MD_LABELS else ift.DomainTuple.make
            return [(lab, mk(self.held[lab]), "same-object")]
        if kind == "md":
            lab, order, vform, sp = args
            items = list(MD_LABELS[lab].items())
            if order == "ba":
                items = items[::-1]
            d = {}
            for k, dl in items:
                doms = self.doms(dl, sp)
                d[k] = ift.DomainTuple.make(doms) if vform == "dt" else (doms[0] if len(doms) == 1 else doms)
            r = ift.MultiDomain.make(d)
            out = [(lab, r, "fresh")]
            for k, dl in MD_LABELS[lab].items():
                out.append((dl, r[k], "entry"))
            return out
        if kind == "pickle":
            lab, = args
            if lab not in self.held:
                return None
            return [(lab, pickle.loads(pickle.dumps(self.held[lab])), "pickle")]
        if kind == "foreign":
            lab, = args
            r = pickle.loads(self.foreign[lab])
            out = [(lab, r, "pickle")]
            if lab in MD_LABELS:
                for k, dl in MD_LABELS[lab].items():
                    out.append((dl, r[k], "entry"))
            return out
        if kind == "copy":
            lab, how = args
            if lab not in self.held:
                return None
            return [(lab, copy.deepcopy(self.held[lab]) if how == "deep" else copy.copy(self.held[lab]), "copy")]
        if kind == "pickledom":
            x = pickle.loads(pickle.dumps(self.P["X"][0]()))
            return [("A", ift.DomainTuple.make(x), "pickle")]
        raise ValueError(op)

    # ---------------------------------------------------------------- invariant
    def check(self, produced, opname):
        ift = self.ift
        for lab, r, how in produced:
            typ = ift.MultiDomain if lab in MD_LABELS else ift.DomainTuple
            _req(type(r) is typ, "history|wrong-type|%s" % how, "%s returned %r" % (opname, type(r)))
            # content equals the description (new equal domain objects, other spelling)
            if lab in DT_LABELS:
                want = self.doms(lab, 1)
                _req(len(r) == len(want) and all(a == b and hash(a) == hash(b) for a, b in zip(r, want)),
                     "history|content|%s" % how, "%s: %r is not %r" % (opname, r, want))
            else:
                _req(tuple(r.keys()) == tuple(sorted(MD_LABELS[lab])), "history|content|%s" % how, "%s: keys %r" % (opname, r.keys()))
            if lab in self.held:
                self.collisions += how != "same-object"
                _req(r is self.held[lab], "%s|equal-description-not-identical|via=%s" % (typ.__name__, how),
                     "%s returned a new object for description %s although one exists" % (opname, lab))
            else:
                self.held[lab] = r
            for l2, o2 in self.held.items():
                eq = (r == o2)
                _req(eq == (l2 == lab) and (r != o2) == (not eq) and (o2 == r) == eq,
                     "%s|eq-inconsistent" % typ.__name__, "%s: %s == %s -> %r" % (opname, lab, l2, eq))
                if eq:
                    _req(hash(r) == hash(o2), "%s|hash-inconsistent" % typ.__name__, "%s" % opname)

    def check_caches(self):
        ift = self.ift
        descs = [tuple(R.describe(d) for d in key) for key in ift.DomainTuple._tupleCache]
        _req(len(set(descs)) == len(descs), "DomainTuple|cache-holds-equal-descriptions-twice", "%s" % (descs,))
        for key, obj in ift.DomainTuple._tupleCache.items():
            _req(tuple(obj) == key, "DomainTuple|cache-entry-mismatch", "%r" % (key,))
        md = [tuple(sorted((k, tuple(R.describe(d) for d in v)) for k, v in key.items())) for key in ift.MultiDomain._domainCache]
        _req(len(set(md)) == len(md), "MultiDomain|cache-holds-equal-descriptions-twice", "%s" % (md,))
        for lab, o in self.held.items():
            if lab in DT_LABELS:
                _req(ift.DomainTuple._tupleCache.get(tuple(o)) is o, "DomainTuple|held-object-not-in-cache", lab)
        pk = [(R.describe(k[0]), k[1]) for k in ift.PowerSpace._powerIndexCache]
        _req(len(set(pk)) == len(pk), "PS|cache-duplicates-equal-description", "%s" % (pk,))

    def signature(self):
        ift = self.ift
        return (frozenset(tuple(R.describe(d) for d in key) for key in ift.DomainTuple._tupleCache),
                ift.DomainTuple._scalarDomain is not None,
                frozenset(tuple(sorted((k, tuple(R.describe(d) for d in v)) for k, v in key.items()))
                          for key in ift.MultiDomain._domainCache),
                frozenset((R.describe(k[0]), k[1]) for k in ift.PowerSpace._powerIndexCache),
                frozenset(self.held))


def _run_history(case):
    ops = _ops(case["pair"])
    W = _World(case["pair"])
    n = hist = coll = 0
    try:
        W.make_foreign()
        prefix = [ops[i] for i in case["prefix"]]
        tails = [()]
        for d in range(1, case["depth"] - len(prefix) + 1):
            tails += list(itertools.product(range(len(ops)), repeat=d))
        for tail in tails:
            W.clear()
            seq = prefix + [ops[i] for i in tail]
            names = []
            applicable = True
            for op in seq:
                names.append(op[0])
                pr = W.step(op)
                if pr is None:
                    applicable = False
                    break
                try:
                    W.check(pr, op[0])
                except Fail as f:
                    f.detail = dict(history=names)
                    f.what = "after %s: %s" % (" ; ".join(names), f.what)
                    raise
                n += 1
            if not applicable:
                continue
            try:
                W.check_caches()
            except Fail as f:
                f.what = "after %s: %s" % (" ; ".join(names), f.what)
                raise
            hist += 1
            coll += W.collisions > 0
    finally:
        W.restore()
    return ok(nontrivial=coll > 0, outcome="history|%s|depth=%d|collisions=%s" % (case["pair"], case["depth"], coll > 0),
              stats=dict(histories=hist, history_steps=n, histories_with_cache_collision=coll))


def _run_bfs(case):
    """state-matching breadth-first search over the real caches up to the fixpoint (or maxdepth)."""
    ops = _ops(case["pair"])
    W = _World(case["pair"])
    states = {}
    trans = 0
    depth_reached = 0
    try:
        W.make_foreign()
        W.clear()
        states[W.signature()] = ()
        frontier = [()]
        depth = 0
        while frontier and depth < case["maxdepth"]:
            nxt = []
            for path in frontier:
                for oi, op in enumerate(ops):
                    W.clear()
                    names = []
                    okk = True
                    for pi in path + (oi,):
                        names.append(ops[pi][0])
                        pr = W.step(ops[pi])
                        if pr is None:
                            okk = False
                            break
                        try:
                            W.check(pr, ops[pi][0])
                        except Fail as f:
                            f.what = "after %s: %s" % (" ; ".join(names), f.what)
                            raise
                    if not okk:
                        continue
                    W.check_caches()
                    trans += 1
                    sig = W.signature()
                    if sig not in states:
                        states[sig] = path + (oi,)
                        nxt.append(path + (oi,))
            frontier = nxt
            depth += 1
            if nxt:
                depth_reached = depth
    finally:
        W.restore()
    fix = not frontier
    return ok(nontrivial=len(states) > 1, outcome="bfs|%s|fixpoint=%s" % (case["pair"], fix),
              stats=dict(bfs_states=len(states), bfs_transitions=trans, bfs_fixpoints=int(fix)),
              detail=dict(states=len(states), transitions=trans, longest_shortest_path=depth_reached, fixpoint=fix))


# =============================================================================================
def run(case):
    kind = case["kind"]
    fn = dict(geom=_run_geom, power=_run_power, tuple=_run_tuple, multi=_run_multi, eqhash=_run_eqhash,
              history=_run_history, bfs=_run_bfs)[kind]
    try:
        return fn(case)
    except Fail as f:
        if f.key is None:
            return skip(f.what)
        return bad(f.what, finding_key=f.key, detail=f.detail)


def finish(run):
    keys = ["pixels", "power_spaces", "multi_bin", "boundary_pixels", "useful_rejected", "cache_hits", "spaces_subsets",
            "multi_makes", "domain_pairs", "histories", "history_steps", "histories_with_cache_collision", "bfs_states",
            "bfs_transitions", "bfs_fixpoints"]
    return {k: int(run.extra.get(k, 0)) for k in keys}
