"""C02 Every library linear operator is adjoint/inverse consistent and correct.

Mode P (configuration enumeration).  For every exported `nifty.cl`
LinearOperator class in `vf.ref.c02_ops.REGISTRY`, for every constructor
configuration of its small alphabet and for both input dtypes (f8, c16):

  * the operator is densified in every advertised mode on the complete basis of
    real (and imaginary) unit vectors -> real-ified matrices R_T, R_A, R_I, R_AI
    (this decides the identities below for ALL inputs of that dtype);
  * adjointness   Re<y, A x> = Re<A^+ y, x>  on all basis pairs  (R_A = R_T^T on the
    blocks selected by the dtypes that actually occur: x in the input dtype, y in the
    dtype TIMES produces);
  * advertised inverses invert (both compositions), adjoint-inverse = (inverse)^T;
  * additivity on all basis pairs, homogeneity on every basis vector, and one
    generic dense vector per mode (A v = R v);
  * output is a Field/MultiField whose domain `is` the declared target of the mode;
    the input array is byte-identical afterwards;
  * R_T equals the class's independent reference definition (few-line numpy
    function written from the documentation, `vf/ref/c02_ops.py`).
"""
import contextlib
import io
import re

import numpy as np

from vf.core import ok, bad, skip

ID = "C02"
LEVEL = "exploration"
RULE = ("case = (operator class, constructor configuration from the class alphabet, input dtype f8|c16); "
        "each case applies the operator to the full real/imaginary unit basis in every advertised mode; "
        "non-trivial = an independent reference definition was compared AND TIMES and ADJOINT_TIMES were both "
        "densified with a non-empty matrix; cases are distinct by (class, configuration, dtype)")
ASSUMPTIONS = [
    "values of fields/matrices/diagonals are the deterministic generic fill selected by VERIF_SEED (magnitudes in [0.5, 2]); structure is exhaustive over the stated alphabets",
    "domains are tiny (<= 48 pixels); GPU (cupy) branches, cufinufft and MPI are not exercised; dtypes f8 and c16 only",
    "premise exclusions: volume weights (Contraction power != 0, Integration, WeightApplier, DOFDistributor) only over structured spaces (UnstructuredDomain has no volume); "
    "lines of sight lying inside a cell-boundary hyperplane (measure-zero ambiguity); SplitOperator(intersecting_slices=False) only with disjoint selections; "
    "documented dtype rejections (Imaginizer on real input, Nufft/Gridder on real input) are skipped",
    "SHT reference: real orthonormal spherical harmonics (scipy.special.sph_harm_y) at independently computed GL / HEALPix pixel centres, times NIFTy's 1/sqrt(4 pi) normalisation, which is read from the code (not documented)",
    "Hartley reference uses the default 'non_canonical_hartley' convention (Re F + Im F)",
    "tolerances: 1e-10 relative to the largest matrix entry; Nufft/Gridder 1e-8 (requested epsilon 2e-10); LOSResponse 3e-6 (float32 weights and 1e-7 end-point shortening in the code); "
    "inverse checks at max(1e-9, 1e-13 * known condition number) and skipped above condition 1e8 (HarmonicSmoothing with large sigma); CG-based inverses (InversionEnabler, WienerFilterCurvature) at 1e-7",
    "no closed-form reference (consistency checks only): LOSResponse with sigmas, FuncConvolutionOperator on the sphere",
    "adjointness is demanded on x in the case's input dtype and y in the dtype TIMES produces (a real-output operator such as Nufft is not asked to be adjoint on imaginary y)",
    "the check never feeds a field on a wrong domain, so the _check_input domain test itself is not exercised",
]

MODES = {"TIMES": 1, "ADJOINT": 2, "INVERSE": 4, "ADJOINT_INVERSE": 8}


# ------------------------------------------------------------------ case space
# thorough tier: every configuration of the shape-generic classes is enumerated a second time on a larger /
# differently spaced geometry (spec substitution); classes whose configurations carry shape-specific index
# lists are widened inside their own alphabets instead (vf/ref/c02_ops.py, T(tier, quick, thorough)).
_SUBST_CLASSES = ("ContractionOperator", "WeightApplier", "FFTOperator", "HartleyOperator", "HarmonicTransformOperator",
                  "HarmonicSmoothingOperator", "FFTShiftOperator", "GeometryRemover", "TransposeOperator", "OuterProduct",
                  "DiagonalOperator", "ScalingOperator", "ConjugationOperator", "Realizer", "Imaginizer", "VdotOperator",
                  "DomainTupleFieldInserter", "ValueInserter", "PrependKey", "PartialExtractor", "Multifield2Vector",
                  "PartialConjugate", "FieldAdapter", "SHTOperator")
_SUBST = [(["RG", [2], [0.5], False], ["RG", [4], [0.3], False]),
          (["RG", [3], [0.5], False], ["RG", [5], [0.7], False]),
          (["RG", [4], [0.25], False], ["RG", [6], [0.2], False]),
          (["RG", [2, 3], [0.5, 2.0], False], ["RG", [3, 4], [0.3, 1.5], False]),
          (["RG", [3, 2], [0.3, 0.7], False], ["RG", [4, 3], [0.6, 0.2], False]),
          (["RG", [2], [0.7], True], ["RG", [4], [0.4], True]),
          (["RG", [3], [0.7], True], ["RG", [5], [0.3], True]),
          (["RG", [4], [0.5], True], ["RG", [6], [0.9], True]),
          (["RG", [2, 3], [0.5, 1.0], True], ["RG", [3, 4], [0.7, 0.4], True]),
          (["U", [2]], ["U", [3]]), (["U", [3]], ["U", [4]]),
          (["GL", 2, 3], ["GL", 3, 4]), (["LM", 1, 1], ["LM", 2, 1]), (["LM", 2, 2], ["LM", 3, 3])]


_SUBST2 = [(["RG", [2], [0.5], False], ["RG", [5], [1.5], False]),
           (["RG", [3], [0.5], False], ["RG", [4], [0.1], False]),
           (["RG", [4], [0.25], False], ["RG", [7], [0.3], False]),
           (["RG", [2, 3], [0.5, 2.0], False], ["RG", [4, 3], [1.0, 0.25], False]),
           (["RG", [3, 2], [0.3, 0.7], False], ["RG", [3, 5], [0.4, 0.4], False]),
           (["RG", [2], [0.7], True], ["RG", [5], [0.2], True]),
           (["RG", [3], [0.7], True], ["RG", [4], [1.1], True]),
           (["RG", [4], [0.5], True], ["RG", [7], [0.35], True]),
           (["RG", [2, 3], [0.5, 1.0], True], ["RG", [4, 3], [0.3, 0.9], True]),
           (["U", [2]], ["U", [4]]), (["U", [3]], ["U", [5]]),      # every substitution grows every axis (index lists stay valid)
           (["GL", 2, 3], ["GL", 2, 5]), (["LM", 1, 1], ["LM", 3, 2]), (["LM", 2, 2], ["LM", 4, 4]),
           (["HP", 1], ["HP", 2])]


def _subst(obj, table=None):
    table = _SUBST if table is None else table
    if isinstance(obj, list):
        for old, new in table:
            if obj == old:
                return new
        return [_subst(o, table) for o in obj]
    if isinstance(obj, dict):
        return {k: _subst(v, table) for k, v in obj.items()}
    return obj


def _cfg_size(cfg):
    from vf.ref import c02_geom as G
    best = 1
    for key in ("dom", "tgt", "ddom", "fdom", "md"):
        v = cfg.get(key)
        if isinstance(v, list) and v and isinstance(v[0], str):
            v = [v]                      # a single space spec
        if isinstance(v, list):
            best = max(best, int(np.prod(G.tuple_shape(v), dtype=int)))
        elif isinstance(v, dict):
            best = max(best, sum(int(np.prod(G.tuple_shape(x), dtype=int)) for x in v.values()))
    if isinstance(cfg.get("dom"), list) and isinstance(cfg.get("fdom"), list):
        best = int(np.prod(G.tuple_shape(cfg["dom"]) + G.tuple_shape(cfg["fdom"]), dtype=int))
    return best


def cases(tier, seed):
    import json
    from vf.ref import c02_ops as O
    out = []
    for ci, name in enumerate(O.ORDER):
        configs, _ = O.REGISTRY[name]
        cfgs = list(configs(tier))
        if tier != "quick" and name in _SUBST_CLASSES:
            seen = set(json.dumps(c, sort_keys=True) for c in cfgs)
            base = list(cfgs)
            for table in (_SUBST, _SUBST2):
                for c in base:
                    c2 = _subst(c, table)
                    k = json.dumps(c2, sort_keys=True)
                    if k not in seen and _cfg_size(c2) <= 100:     # the pair checks are quadratic in the number of pixels
                        seen.add(k)
                        cfgs.append(c2)
        for k, cfg in enumerate(cfgs):
            for dt in cfg.get("_dts", ("f8", "c16")):
                out.append(dict(cls=name, cfg=cfg, dt=dt, seed=int(seed)))
    return out


# ------------------------------------------------------------------ flatten helpers
def _keys(dom):
    return list(dom.keys()) if hasattr(dom, "keys") else None


def _size(dom):
    ks = _keys(dom)
    return sum(dom[k].size for k in ks) if ks is not None else dom.size


def _struct(dom, vec, cflag):
    """flat complex vector -> numpy array / dict of arrays (independent copies); a key (or the whole
    field) is complex iff its entries are flagged complex in `cflag`, else float64."""
    ks = _keys(dom)
    vec = np.asarray(vec, dtype=np.complex128)

    def cast(v, fl):
        return np.array(v) if (fl.size and fl.any()) else np.array(v.real, dtype=np.float64)
    if ks is None:
        return cast(vec, cflag).reshape(dom.shape)
    d, off = {}, 0
    for k in ks:
        n = dom[k].size
        d[k] = cast(vec[off:off + n], cflag[off:off + n]).reshape(dom[k].shape)
        off += n
    return d


def _field(dom, st):
    import nifty.cl as ift
    if isinstance(st, dict):
        return ift.MultiField.from_dict({k: ift.makeField(dom[k], v) for k, v in st.items()}, dom)
    return ift.makeField(dom, st)


def _flat_struct(st):
    if isinstance(st, dict):
        parts = [np.asarray(st[k]).reshape(-1) for k in sorted(st)]
        return np.concatenate(parts).astype(np.complex128) if parts else np.zeros(0, np.complex128)
    return np.asarray(st).reshape(-1).astype(np.complex128)


def _shape_struct(st):
    if isinstance(st, dict):
        return {k: tuple(np.shape(v)) for k, v in st.items()}
    return tuple(np.shape(st))


def _dom_shape(dom):
    ks = _keys(dom)
    if ks is None:
        return tuple(dom.shape)
    return {k: tuple(dom[k].shape) for k in ks}


class Fail(Exception):
    def __init__(self, what, key, detail=None):
        Exception.__init__(self, what)
        self.what, self.key, self.detail = what, key, detail


def _norm_msg(e):
    lines = [l.strip() for l in ("%s" % (e,)).split("\n") if l.strip()]
    # C++ (ducc) assertion messages start with a source location: the last line names the cause
    s = "" if not lines else (lines[-1] if lines[0].startswith("/") else lines[0])
    s = re.sub(r"0x[0-9a-f]+", "ADDR", s)
    s = re.sub(r"\d+", "N", s)
    return s[:70]


def _apply(op, x_struct, mode_name, din, dout, ctx):
    """Apply op in one mode to a structured numpy input; returns flat complex output and output dtype kind.
    Checks: result type/domain identity, input untouched."""
    import nifty.cl as ift
    x = _field(din, x_struct)
    before = {k: (v.dtype, v.tobytes()) for k, v in (x_struct.items() if isinstance(x_struct, dict) else [("", x_struct)])}
    try:
        y = op.apply(x, MODES[mode_name])
    except Exception as e:
        raise Fail("%s raised %s: %s" % (mode_name, type(e).__name__, e),
                   "%s|apply-raises|%s|%s" % (ctx["cls"], type(e).__name__, _norm_msg(e)))
    want = ift.MultiField if _keys(dout) is not None else ift.Field
    if not isinstance(y, want):
        raise Fail("%s returned %s, expected %s" % (mode_name, type(y).__name__, want.__name__),
                   "%s|wrong-result-type|%s" % (ctx["cls"], mode_name))
    if y.domain is not dout:
        raise Fail("%s: result domain is not the declared %s (%r)" % (mode_name, "target" if mode_name in ("TIMES", "ADJOINT_INVERSE") else "domain", y.domain),
                   "%s|result-domain-not-declared|%s" % (ctx["cls"], mode_name))
    after = x.asnumpy()
    after = after if isinstance(after, dict) else {"": after}
    for k, (dt0, b0) in before.items():
        a = np.asarray(after[k])
        if a.dtype != dt0 or a.tobytes() != b0:
            raise Fail("%s modified its input field" % mode_name, "%s|input-modified|%s" % (ctx["cls"], mode_name))
    yn = y.asnumpy()
    if isinstance(yn, dict):
        parts = [np.asarray(yn[k]) for k in _keys(dout)]
        cplx = np.concatenate([np.full(p.size, np.iscomplexobj(p)) for p in parts]) if parts else np.zeros(0, bool)
        flat = np.concatenate([p.reshape(-1) for p in parts]).astype(np.complex128) if parts else np.zeros(0, np.complex128)
    else:
        yn = np.asarray(yn)
        cplx = np.full(yn.size, np.iscomplexobj(yn))
        flat = yn.reshape(-1).astype(np.complex128)
    if flat.shape != (_size(dout),):
        raise Fail("%s: output has %d entries, declared domain has %d" % (mode_name, flat.size, _size(dout)),
                   "%s|result-size|%s" % (ctx["cls"], mode_name))
    if not np.all(np.isfinite(flat)):
        raise Fail("%s: non-finite output" % mode_name, "%s|non-finite|%s" % (ctx["cls"], mode_name))
    return flat, cplx


def _unit(n, j):
    v = np.zeros(n, dtype=np.complex128)
    if j < n:
        v[j] = 1.
    else:
        v[j - n] = 1j
    return v


def _realvec(flat):
    return np.concatenate([flat.real, flat.imag])


def _active(cflag):
    """real coordinates that exist for a field whose entries are complex where cflag: all real parts,
    imaginary parts only of complex entries."""
    return np.concatenate([np.ones(cflag.size, bool), np.asarray(cflag, bool)])


def _dense(op, mode_name, din, dout, cflag, ctx, stats):
    """Real-ified matrix (2m x 2n, inactive columns zero) of one mode on the complete basis of the input
    space described by cflag, + linearity checks.  Returns (R, per-entry complex flags of the output)."""
    n, m = _size(din), _size(dout)
    act = np.flatnonzero(_active(cflag))
    R = np.zeros((2 * m, 2 * n))
    oflag = np.zeros(m, bool)
    for j in act:
        flat, c = _apply(op, _struct(din, _unit(n, j), cflag), mode_name, din, dout, ctx)
        oflag |= c
        R[:, j] = _realvec(flat)
        stats["applications"] += 1
    scale = max(1., np.abs(R).max(initial=0.))
    tol = ctx["lin_tol"] * scale
    key = "%s|not-linear|%s|%s" % (ctx["cls"], mode_name, ctx["tag"])
    # homogeneity on every basis vector, additivity on all basis pairs (TIMES / ADJOINT), one dense vector
    for j in act:
        flat, _ = _apply(op, _struct(din, -1.5 * _unit(n, j), cflag), mode_name, din, dout, ctx)
        stats["applications"] += 1
        if np.abs(_realvec(flat) + 1.5 * R[:, j]).max(initial=0.) > tol:
            raise Fail("%s is not homogeneous: A(-1.5 e_%d) != -1.5 A e_%d" % (mode_name, j, j), key)
    if mode_name in ("TIMES", "ADJOINT"):
        for a, i in enumerate(act):
            for j in act[a + 1:]:
                flat, _ = _apply(op, _struct(din, _unit(n, i) + _unit(n, j), cflag), mode_name, din, dout, ctx)
                stats["applications"] += 1
                if np.abs(_realvec(flat) - R[:, i] - R[:, j]).max(initial=0.) > tol:
                    raise Fail("%s is not additive: A(e_%d + e_%d) != A e_%d + A e_%d" % (mode_name, i, j, i, j), key)
    if act.size:
        from vf.ref.c02_geom import fill
        g = np.zeros(2 * n)
        g[act] = fill(act.size, ctx["seed"], 101)
        flat, _ = _apply(op, _struct(din, g[:n] + 1j * g[n:], cflag), mode_name, din, dout, ctx)
        stats["applications"] += 1
        if np.abs(_realvec(flat) - R @ g).max(initial=0.) > tol * 4:
            raise Fail("%s on a dense vector differs from the basis matrix (not linear)" % mode_name, key)
    return R, oflag


def _cmp(A, B, tol, what, key, scale=None):
    if A.shape != B.shape:
        raise Fail("%s: shape %s vs %s" % (what, A.shape, B.shape), key)
    if A.size == 0:
        return 0.
    s = scale if scale is not None else max(1., np.abs(A).max(), np.abs(B).max())
    d = float(np.abs(A - B).max())
    if not d <= tol * s:
        i, j = np.unravel_index(np.argmax(np.abs(A - B)), A.shape)
        raise Fail("%s: max deviation %.3e at (%d,%d): %.6g vs %.6g" % (what, d, i, j, A[i, j], B[i, j]), key,
                   detail=dict(maxdev=d, tol=tol * s))
    return d


# ------------------------------------------------------------------ one case
def run(case):
    buf = io.StringIO()
    with contextlib.redirect_stdout(buf):
        out = _run(case)
    if buf.getvalue():
        out.setdefault("stats", {})["stdout_chars_printed_by_library"] = len(buf.getvalue())
    return out


def _run(case):
    from vf.ref import c02_ops as O
    name, cfg, dt, seed = case["cls"], case["cfg"], case["dt"], case["seed"]
    _, build = O.REGISTRY[name]
    tag = ""
    try:
        b = build(cfg, seed)
    except Exception as e:
        import traceback
        return bad("constructing %s(%s) raised %s: %s" % (name, cfg, type(e).__name__, e),
                   finding_key="%s|ctor-raises|%s|%s" % (name, type(e).__name__, _norm_msg(e)),
                   detail=traceback.format_exc()[-1500:])
    if b is None:
        return skip("configuration outside the documented premise of %s" % name)
    if ("TIMES", dt) in b.rejects:
        return skip(b.rejects[("TIMES", dt)])
    op = b.op
    tag = b.tag           # semantic discriminator chosen by the class builder (e.g. "field=complex")
    stats = dict(applications=0)
    ctx = dict(cls=name, tag=tag, seed=seed, lin_tol=max(1e-10, min(b.tol, 1e-7)))
    try:
        try:
            cap = op.capability
        except Exception as e:
            raise Fail("%s.capability raised %s: %s" % (name, type(e).__name__, e),
                       "%s|capability-raises|%s|%s" % (name, type(e).__name__, _norm_msg(e)))
        if b.cap is not None and (cap & b.cap) != b.cap:
            raise Fail("capability %d lacks documented modes %d" % (cap, b.cap), "%s|capability-missing|%s" % (name, tag))
        dom, tgt = op.domain, op.target
        n, m = _size(dom), _size(tgt)
        # ---- declared domain/target against the documentation
        if getattr(b, "expect_target", None) is not None and not (tgt == b.expect_target):
            raise Fail("target %r differs from documented %r" % (tgt, b.expect_target), "%s|wrong-target|%s" % (name, tag))
        if b.dom_shape is not None and _dom_shape(dom) != b.dom_shape:
            raise Fail("domain shape %s, documented %s" % (_dom_shape(dom), b.dom_shape), "%s|wrong-domain-shape|%s" % (name, tag))
        if b.tgt_shape is not None and _dom_shape(tgt) != b.tgt_shape:
            raise Fail("target shape %s, documented %s" % (_dom_shape(tgt), b.tgt_shape), "%s|wrong-target-shape|%s" % (name, tag))
        xflag = np.full(n, dt == "c16")
        xa = _active(xflag)
        # ---- reference matrix
        Rref = None
        if b.ref is not None:
            Rref = np.zeros((2 * m, 2 * n))
            for j in np.flatnonzero(xa):
                yr = b.ref(_struct(dom, _unit(n, j), xflag))
                if _shape_struct(yr) != _dom_shape(tgt):
                    raise Fail("declared target shape %s differs from the documented output shape %s" % (_dom_shape(tgt), _shape_struct(yr)),
                               "%s|wrong-target-shape|%s" % (name, tag))
                Rref[:, j] = _realvec(_flat_struct(yr))
        # ---- TIMES
        RT, yflag = _dense(op, "TIMES", dom, tgt, xflag, ctx, stats)
        ya = _active(yflag)
        if np.abs(RT[~ya]).max(initial=0.) != 0:
            raise Fail("internal: real output with imaginary part", "harness")
        if Rref is not None:
            _cmp(RT, Rref, b.tol, "TIMES differs from the reference definition of %s" % name,
                 "%s|differs-from-definition|TIMES|%s" % (name, tag))
        modes_done = ["TIMES"]
        odt = "c16" if yflag.all() else ("f8" if not yflag.any() else "mixed")
        # ---- ADJOINT: x ranges over the case's input dtype, y over the dtype TIMES produces
        if cap & 2:
            RA, _ = _dense(op, "ADJOINT", tgt, dom, yflag, ctx, stats)
            _cmp(RA[xa][:, ya], RT[ya][:, xa].T, b.adj_tol,
                 "adjoint identity Re<y,Ax> = Re<A^+y,x> violated on a basis pair (x %s, y %s)" % (dt, odt),
                 "%s|adjoint-mismatch|%s" % (name, tag))
            modes_done.append("ADJOINT")
        # ---- INVERSE
        inv_tol = max(b.inv_tol if b.inv_tol is not None else max(b.tol, 1e-9), 1e-13 * b.cond)
        RI = None
        check_inverse = b.cond <= 1e8      # known condition number of the constructed case (DESIGN 2.6)
        if not check_inverse:
            stats["inverse_skipped_ill_conditioned"] = 1
        if cap & 4 and check_inverse:
            ctx["lin_tol"] = max(ctx["lin_tol"], inv_tol)
            RI, _ = _dense(op, "INVERSE", tgt, dom, yflag, ctx, stats)
            _cmp(RI[:, ya] @ RT[ya][:, xa], np.eye(2 * n)[:, xa], inv_tol, "INVERSE_TIMES(TIMES(x)) != x",
                 "%s|inverse-mismatch|inv-after-times|%s" % (name, tag))
            if np.abs(RI[~xa]).max(initial=0.) == 0:      # the inverse image stays inside the input space of this case
                _cmp(RT[:, xa] @ RI[xa][:, ya], np.eye(2 * m)[:, ya], inv_tol, "TIMES(INVERSE_TIMES(y)) != y",
                     "%s|inverse-mismatch|times-after-inv|%s" % (name, tag))
            modes_done.append("INVERSE")
        if cap & 8 and check_inverse:
            RAI, _ = _dense(op, "ADJOINT_INVERSE", dom, tgt, xflag, ctx, stats)
            if RI is not None:
                _cmp(RAI[ya][:, xa], RI[xa][:, ya].T, inv_tol, "ADJOINT_INVERSE_TIMES is not the adjoint of INVERSE_TIMES",
                     "%s|adjoint-inverse-mismatch|%s" % (name, tag))
            elif "ADJOINT" in modes_done:
                _cmp(RAI[ya][:, xa] @ RA[xa][:, ya], np.eye(2 * m)[ya][:, ya], inv_tol, "ADJOINT_INVERSE(ADJOINT(y)) != y",
                     "%s|adjoint-inverse-mismatch|%s" % (name, tag))
            modes_done.append("ADJOINT_INVERSE")
    except Fail as f:
        return bad(f.what, finding_key=f.key, detail=dict(cfg=cfg, dt=dt, info=f.detail), stats=stats)
    nontrivial = Rref is not None and "ADJOINT" in modes_done and RT.size > 0
    lin = "complex-linear"
    if dt == "c16" and n and m:
        A, B, C, D = RT[:m, :n], RT[:m, n:], RT[m:, :n], RT[m:, n:]
        if max(np.abs(A - D).max(initial=0.), np.abs(B + C).max(initial=0.)) > 1e-9 * max(1., np.abs(RT).max()):
            lin = "real-linear-only"
            if b.linear == "complex":
                return bad("%s is documented/complex-linear by definition but acts only real-linearly" % name,
                           finding_key="%s|not-complex-linear|%s" % (name, tag), stats=stats)
    elif dt == "f8":
        lin = "real-input"
    outcome = "%s|cap=%d|%s|%s" % (name, cap, lin, "ref" if Rref is not None else "consistency-only")
    return ok(nontrivial=nontrivial, outcome=outcome, stats=stats,
              detail=dict(modes=modes_done, n=n, m=m, out_dtype=odt, zero_matrix=bool(np.abs(RT).max(initial=0.) == 0)))


def finish(run):
    """Coverage by class: every registered class must have at least one non-trivial passing or failing case."""
    per = {}
    for o, cnt in run.outcomes.items():
        per[o.split("|")[0]] = per.get(o.split("|")[0], 0) + cnt
    from vf.ref import c02_ops as O
    viol = {}
    for c, out in run.violations:
        viol[c.get("cls")] = viol.get(c.get("cls"), 0) + 1
    return dict(classes_registered=len(O.ORDER), classes_with_passing_cases=len(per), cases_passing_per_class=per,
                violations_per_class=viol)
