"""C14 Classic conjugate gradient solves positive definite systems.

Mode P.  Three exhaustively enumerated parts, all on generated Hermitian positive definite
matrices A = U diag(lam) U^H with known spectrum (so kappa, the solution and every energy
are known in closed form from dense numpy algebra):

  part "cg"  : (size, spectrum, real/complex, domain kind, rhs, start, preconditioner,
               controller kind, iteration limit, nreset) -> the real ConjugateGradient runs on a
               real QuadraticEnergy over a harness-side dense operator, observed through a
               recording proxy around the real controller.
  part "inv" : (size, spectrum, real/complex, which modes the operator has, approximation,
               controller) -> InversionEnabler applied in all four modes to EVERY real and
               imaginary unit vector.
  part "reuse": ONE controller + ConjugateGradient (or InversionEnabler) object used for 2-3 consecutive solves
               with right-hand sides b, 1e-3 b, 1e2 b in every order (all 12 ordered selections), every controller
               kind; the full cg oracle is applied to every solve (a reused controller must act like a fresh one).
  part "qe"  : QuadraticEnergy value / gradient / at / at_with_grad / apply_metric on the point set
               {0, e_i, i e_i, e_i + e_j, e_i + i e_j, generic} which determines a quadratic
               form completely.

Oracle (independent of nifty.cl.minimization): dense residual A x - b and energy of every
position shown to the controller; the controller's *documented* criterion re-evaluated on these
true quantities; the Krylov-subspace minimiser for the first iterations (what CG must return
in exact arithmetic; only for kappa <= 1e3); operator-application counts for the residual-reset period.
"""
import itertools

import numpy as np

from vf.core import ok, bad, skip

ID = "C14"
LEVEL = "exploration"
RULE = ("case = (part, size, spectrum, dtype, domain kind, rhs, start, preconditioner, controller kind, "
        "iteration limit, nreset) complete product of the stated alphabets (identical spectra at small "
        "sizes merged); non-trivial = at least one CG iteration ran and a verdict was issued and checked "
        "(cg/inv), or a non-zero position was evaluated (qe)")
ASSUMPTIONS = [
    "a controller without any criterion (no tolerance and no iteration limit) is outside the premise and not enumerated",
    "matrix entries / rhs / start values are alphabet values (fixed unitary mixing selected by VERIF_SEED); structure is exhaustive",
    "true residual accepted within 1e4*eps*(|b|+|A| max|x_k|) of the controller's threshold (the controller sees the recurred residual)",
    "Krylov-optimality of iterates (energy within 1e-5*(E0-E*) of the subspace minimum) only asserted when the preconditioned system has kappa<=1e3, for the first min(n,8) iterations",
    "operators are harness-side dense leaves; GPU / MPI paths not exercised",
]

C = 1e4
KRYLOV_TOL = 1e-5
EPS = np.finfo(np.float64).eps

CTRL = {
    # kind: (class name, kwargs, level)
    "gn_abs": ("GradientNormController", dict(tol_abs_gradnorm=1e-6), 1),
    "gn_rel": ("GradientNormController", dict(tol_rel_gradnorm=1e-6), 1),
    "gn_abs_l2": ("GradientNormController", dict(tol_abs_gradnorm=1e-4, convergence_level=2), 2),
    "gn_lim": ("GradientNormController", dict(), 1),
    "ginf": ("GradInfNormController", dict(tol=1e-6), 1),
    "de": ("DeltaEnergyController", dict(tol_rel_deltaE=1e-8), 1),
    "ade": ("AbsDeltaEnergyController", dict(deltaE=1e-9), 1),
    "ade_l2": ("AbsDeltaEnergyController", dict(deltaE=1e-6, convergence_level=2), 2),
    "sade": ("StochasticAbsDeltaEnergyController", dict(deltaE=1e-7, memory_length=3), 1),
}
REUSE_SCALES = [1., 1e-3, 1e2]
CTRL_ORDER = ["gn_abs", "gn_rel", "gn_abs_l2", "gn_lim", "ginf", "de", "ade", "ade_l2", "sade"]


# ------------------------------------------------------------------ enumeration
def _spectra(n):
    from vf.ref import c14_sys as S
    seen, out = set(), []
    for s in S.SPECTRA:
        key = tuple(np.round(S.spectrum(s, n), 12))
        if key not in seen:
            seen.add(key)
            out.append(s)
    return out


def _rhs_names(n, cplx, full):
    if full:
        names = ["e%d" % i for i in range(n)]
        if cplx:
            names += ["ie%d" % i for i in range(n)]
    else:
        names = ["e0"] + (["ie%d" % (n - 1)] if cplx else ["e%d" % (n - 1)] if n > 1 else [])
    names += ["ones", "eig"]
    if n > 1:
        names += ["eig2", "gen"]
    return names


def cases(tier, seed):
    quick = tier == "quick"
    sizes = [1, 2, 3, 5, 8, 13, 21] if quick else [1, 2, 3, 5, 8, 13, 21, 40]
    out = []
    # ---- qe
    for n in ([1, 2, 3, 5] if quick else [1, 2, 3, 5, 8]):
        for spec in _spectra(n):
            if spec in ("geo1e3", "geo1e5") and quick:
                continue
            for cplx in (False, True):
                for dom in (["un", "rg"] + (["multi"] if n > 1 else [])):
                    for b in ("none", "gen"):
                        out.append(dict(part="qe", n=n, spec=spec, cplx=cplx, dom=dom, b=b, seed=seed))
    # ---- cg
    limits = [0, 1, 3, None]
    for n in sizes:
        full_rhs = n <= (3 if quick else 8)
        small = n <= 3
        for spec in _spectra(n):
            for cplx in (False, True):
                doms = ["un"] if n == 1 else ["un", "multi"]
                rhss = _rhs_names(n, cplx, full_rhs)
                x0s = ["zero", "gen"]
                precs = ["none", "exact", "diag"] + (["hpd"] if n > 1 else [])
                nresets = [1, 2, 3, 20]
                if quick:
                    if spec == "geo1e3" and n <= 5:
                        continue
                    if n > 1:
                        doms = ["un", "multi"] if n == 5 and not cplx else ["multi" if n in (2, 5, 13) else "un"]
                    if n == 2:
                        nresets = [1, 2, 20]
                    if not small:
                        rhss = [r for r in rhss if r != "eig" or n <= 5]
                        x0s = ["zero"] if n > 5 else x0s
                        precs = [p for p in precs if (p != "exact" or n <= 5) and (p != "hpd" or n <= 8)]
                        nresets = [1, 3, 20]
                for dom in doms:
                    for rhs in rhss:
                        for x0 in x0s:
                            for prec in precs:
                                for ck in CTRL_ORDER:
                                    for lim in limits:
                                        if ck == "gn_lim" and lim is None:
                                            continue   # no criterion at all: outside the premise
                                        for nr in nresets:
                                            out.append(dict(part="cg", n=n, spec=spec, cplx=cplx, dom=dom, rhs=rhs,
                                                            x0=x0, prec=prec, ctrl=ck, limit=lim, nreset=nr, seed=seed))
    # special rhs = 0 (exact-zero residual at the start)
    for cplx in (False, True):
        for ck in CTRL_ORDER:
            for lim in (1, None):
                if ck == "gn_lim" and lim is None:
                    continue
                out.append(dict(part="cg", n=2, spec="clusters2", cplx=cplx, dom="un", rhs="zero", x0="zero",
                                prec="none", ctrl=ck, limit=lim, nreset=20, seed=seed))
    # ---- inv
    for n in ([1, 2, 3, 5, 8] if quick else [1, 2, 3, 5, 8, 13, 21]):
        for spec in _spectra(n):
            for cplx in (False, True):
                for dom in (["un"] if n == 1 or (quick and n == 8) else ["un", "multi"]):
                    for has in ("fwd", "inv", "times", "all"):
                        for approx in (["none", "exact", "diag"] + (["hpd"] if n > 1 else [])):
                            for ck, lim in (("gn_abs", None), ("gn_rel", None), ("gn_abs", 2), ("gn_lim", 100), ("gn_abs_l2", None),
                                            ("ginf", None), ("ade", None), ("sade", None), ("de", None)):
                                out.append(dict(part="inv", n=n, spec=spec, cplx=cplx, dom=dom, has=has, approx=approx,
                                                ctrl=ck, limit=lim, seed=seed))
    # ---- reuse: ONE controller / minimiser / InversionEnabler object used for 2-3 consecutive solves whose
    # right-hand sides have different norms, in every order; every solve must behave as with a fresh controller
    orders = [list(p) for k in (2, 3) for p in itertools.permutations(REUSE_SCALES, k)]
    for n in ([2, 3, 5, 8] if quick else [2, 3, 5, 8, 13, 21]):
        for spec in _spectra(n):
            if spec in ("geo1e3", "geo1e5"):
                continue
            for cplx in (False, True):
                for via in ("cg", "inv"):
                    for rhs in ("e0", "gen"):
                        for ck in CTRL_ORDER:
                            for lim in (None, 3):
                                if ck == "gn_lim" and lim is None:
                                    continue
                                for od in orders:
                                    out.append(dict(part="reuse", n=n, spec=spec, cplx=cplx, dom="un" if n % 2 else "multi", via=via,
                                                    rhs=rhs, ctrl=ck, limit=lim, scales=od, seed=seed))
    order = {"qe": 0, "cg": 1, "inv": 2, "reuse": 3}
    out.sort(key=lambda c: (c["n"], order[c["part"]], c["cplx"], c.get("prec", c.get("approx", "")) != "none",
                            c.get("x0", "zero") != "zero"))
    return out


# ------------------------------------------------------------------ reference for controllers
def make_controller(kind, limit):
    import nifty.cl as ift
    cls, kw, _ = CTRL[kind]
    return getattr(ift, cls)(iteration_limit=limit, **kw)


def criterion(kind, k, Es, gs, slack_g, slack_E):
    """(value, threshold, slack) of the documented criterion of controller `kind` at call k
    (0 = start) evaluated on the TRUE energies Es[0..k] and gradients gs[0..k];
    None if the controller does not evaluate a criterion at this call."""
    kw = CTRL[kind][1]
    if kind in ("gn_abs", "gn_abs_l2"):
        return np.linalg.norm(gs[k]), kw["tol_abs_gradnorm"], slack_g
    if kind == "gn_rel":
        return np.linalg.norm(gs[k]), kw["tol_rel_gradnorm"] * np.linalg.norm(gs[0]), slack_g
    if kind == "gn_lim":
        return None
    if kind == "ginf":
        return np.abs(gs[k]).max(), kw["tol"] * abs(Es[k]), slack_g + kw["tol"] * slack_E
    if k == 0:
        return None
    if kind == "de":
        return abs(Es[k - 1] - Es[k]), kw["tol_rel_deltaE"] * max(abs(Es[k - 1]), abs(Es[k])), 3 * slack_E
    if kind in ("ade", "ade_l2"):
        return abs(Es[k - 1] - Es[k]), kw["deltaE"], 2 * slack_E
    if kind == "sade":
        m = kw["memory_length"]
        return float(np.std(Es[max(0, k + 1 - m):k + 1])), kw["deltaE"], 2 * slack_E
    raise ValueError(kind)


def verify(*a, **k):
    with np.errstate(all="ignore"):      # diverging runs overflow in norms; they are reported, not warned about
        return _verify(*a, **k)


def _verify(log, fin, status, A, M, b, x0, lam, kind, limit, nreset, napply0, tag, msgs=()):
    """All checks on one CG run.  log = recorder entries; fin = dict(x,g,v,id) of the returned
    energy.  Returns (violation or None, label, stats)."""
    from vf.ref import c14_sys as S
    CONVERGED, CONTINUE, ERROR = 0, 1, 2
    kappa = lam.max() / lam.min()
    nA = lam.max()
    nb = np.linalg.norm(b)
    xs = [e["x"] for e in log] + [fin["x"]]
    xstar = np.linalg.solve(A, b)
    # round-off model: recurred and true residual differ by O(eps * iterations * |A| * max|x_k|) (no kappa factor);
    # |x_k| is bounded by the A-norm ball through x0, capped so that a diverging run cannot widen its own tolerance
    sx_cap = np.linalg.norm(xstar) + np.sqrt(kappa) * np.linalg.norm(x0 - xstar)
    sx = max(np.linalg.norm(x0), np.linalg.norm(xstar), min(sx_cap, max(np.linalg.norm(x) if np.all(np.isfinite(x)) else np.inf
                                                                     for x in xs))) + 1e-300
    slack_g = C * EPS * (nb + nA * sx) + 1e-300
    slack_E = C * EPS * (nb * sx + nA * sx * sx) + 1e-300
    stats = dict(cg_iterations=max(len(log) - 1, 0))

    def V(what, key):
        return bad("%s: %s" % (tag, what), finding_key=key), "VIOLATION", stats

    # (0) CG never increases the (true) energy; positions stay finite
    Etrue = []
    floor_at = None
    for k, x in enumerate(xs):
        with np.errstate(all="ignore"):
            Ek = S.energy(A, b, x) if np.all(np.isfinite(x)) else np.inf
        if k and not (Ek <= Etrue[-1] + slack_E):
            return V("true energy rises from %.17g to %.6g at step %d%s"
                     % (Etrue[-1], Ek, k, "" if floor_at is None else
                        " (|A x - b| <= %.1e since step %d: CG leaves the solution it had reached to round-off)" % (slack_g, floor_at)),
                     "cg|energy-increases|%s" % ("mid-run" if floor_at is None else "after-reaching-roundoff-floor"))
        if floor_at is None and np.isfinite(Ek) and np.linalg.norm(S.grad(A, b, x)) <= slack_g:
            floor_at = k
        Etrue.append(Ek)
    # (1) value / gradient of every energy consistent with its position
    Es, gs = [], []
    for k, e in enumerate(log + [fin]):
        gt, Et = S.grad(A, b, e["x"]), S.energy(A, b, e["x"])
        if k < len(log):
            Es.append(Et)
            gs.append(gt)
        dg = np.linalg.norm(e["g"] - gt)
        if not (dg <= slack_g):
            kindg = "fresh" if (nreset and k and k < len(log) and k % nreset == 0) else "recurred"
            return V("energy.gradient deviates from A x - b by %.3e (slack %.1e) at controller call %d" % (dg, slack_g, k),
                     "cg|gradient-inconsistent-with-position|%s" % kindg)
        if not (abs(e["v"] - Et) <= slack_E):
            return V("energy.value %.17g deviates from 1/2 x^H A x - Re b^H x = %.17g at controller call %d" % (e["v"], Et, k),
                     "cg|value-inconsistent-with-position")
    if not log:
        return V("controller.start was never called", "cg|controller-not-started")
    # (2) what is returned
    last = log[-1]
    if status not in (CONVERGED, ERROR):
        return V("CG returned status %r" % (status,), "cg|returned-status-not-final")
    niter = len(log) - 1
    # direct = CG ended by itself (exact-zero residual or error) after the controller said CONTINUE
    direct = last["status"] == CONTINUE
    if not direct:
        if status != last["status"]:
            return V("CG returned status %d but the controller's last verdict was %d" % (status, last["status"]),
                     "cg|status-differs-from-controller-verdict")
        if fin["obj"] is not last["obj"]:
            return V("CG does not return the energy the controller gave its verdict on", "cg|returns-other-energy")
    for k, e in enumerate(log[:-1]):
        if e["status"] != CONTINUE:
            return V("CG continued after controller verdict %d at call %d" % (e["status"], k), "cg|continues-after-verdict")
    # (3) iteration limit
    if limit is not None:
        for k, e in enumerate(log):
            if k >= limit and e["status"] == CONTINUE:
                return V("controller returned CONTINUE at iteration %d >= iteration_limit %d" % (k, limit),
                         "controller|%s|iteration-limit-not-honoured" % CTRL[kind][0])
    # (4) residual reset period: a fresh residual (extra operator application) exactly every nreset steps
    if nreset is not None:
        prev = napply0
        for k, e in enumerate(log):
            if k > 0:
                extra = e["napply"] - prev - 1
                want = 1 if k % nreset == 0 else 0
                if extra != want:
                    return V("step %d: %d extra operator applications (nreset=%d expects %d)" % (k, extra, nreset, want),
                             "cg|residual-reset-period")
            prev = e["napply"]
    # (5) the verdict
    hold_p, hold_d = [], []
    for k in range(len(log)):
        c = criterion(kind, k, Es, gs, slack_g, slack_E)
        if c is None:
            hold_p.append(False)
            hold_d.append(False)
        else:
            v, thr, sl = c
            hold_p.append(bool(v <= thr + sl))
            hold_d.append(bool(v < thr - sl))
    level = CTRL[kind][2]
    label = None
    if status == ERROR:
        why = [m for m in msgs if "Error" in m or "violated" in m]
        why = why[0].replace("Error: ConjugateGradient: ", "").strip(" .!") if why else "?"
        return V("CG returned ERROR (%s) on a positive definite system after %d iterations" % (why, niter),
                 "cg|error-on-hpd|%s" % why)
    if direct:
        rn = np.linalg.norm(S.grad(A, b, fin["x"]))
        if rn > slack_g:
            return V("CG reported convergence by itself (zero residual) but |A x - b| = %.3e" % rn, "cg|self-converged-with-residual")
        label = "conv:exact-zero-residual"
    else:
        by_limit = limit is not None and niter >= limit
        by_crit = hold_p[-1] and sum(hold_p) >= level
        if limit is not None and niter > limit:
            return V("%d iterations with iteration_limit=%d" % (niter, limit), "controller|%s|iteration-limit-exceeded" % CTRL[kind][0])
        if not by_limit and not by_crit:
            c = criterion(kind, niter, Es, gs, slack_g, slack_E)
            return V("CONVERGED after %d iterations (limit %s) but criterion not met: %s (holds at %d calls, level %d)"
                     % (niter, limit, c, sum(hold_p), level), "controller|%s|converged-without-criterion" % CTRL[kind][0])
        label = "conv:" + ("limit+criterion" if (by_limit and by_crit) else "limit" if by_limit else "criterion")
        if niter == 0:
            label += "@start"
    # (6) controller must not miss a convergence that definitely happened `level` times in a row
    for k in range(len(log) - 1):
        if k + 1 >= level and all(hold_d[k + 1 - level:k + 1]):
            return V("criterion definitely met at the last %d calls up to call %d but controller said CONTINUE" % (level, k),
                     "controller|%s|misses-convergence" % CTRL[kind][0])
    # (7) Krylov optimality of the first iterates (effective condition number of the preconditioned system <= 1e3)
    if niter >= 1:
        if M is None:
            keff = kappa
        else:
            ev = np.linalg.eigvals(M @ A).real
            keff = ev.max() / ev.min() if ev.min() > 0 else np.inf
        if keff <= 1e3 + 1:
            kmax = min(niter, A.shape[0], 8)
            ref, closed = S.krylov_minimisers(A, M, b, x0, kmax)
            Estar = S.energy(A, b, np.linalg.solve(A, b))
            gap0 = max(Es[0] - Estar, 0.)
            for k in range(1, kmax + 1):
                Ek = S.energy(A, b, xs[k])
                dk = abs(Ek - S.energy(A, b, ref[k]))
                if dk > KRYLOV_TOL * gap0 + slack_E:
                    return V("iterate %d is not the Krylov-subspace minimiser: E=%.15g, optimum %.15g (E0-E*=%.3e, kappa_eff=%.1e)"
                             % (k, Ek, S.energy(A, b, ref[k]), gap0, keff), "cg|iterate-not-krylov-optimal")
            stats["krylov_checked"] = kmax
    return None, label, stats


class _Capture:
    """Silences NIFTy's stream logger in this worker and collects its messages."""
    inst = None

    def __init__(self):
        import logging

        class H(logging.Handler):
            def emit(h, record):
                self.msgs.append(record.getMessage())
        self.msgs = []
        lg = logging.getLogger("NIFTy")
        for h in lg.handlers:
            h.setLevel(logging.CRITICAL + 1)
        lg.addHandler(H(level=logging.WARNING))

    @classmethod
    def get(cls):
        import nifty.cl  # noqa: F401  (creates the logger and its stream handler)
        if cls.inst is None:
            cls.inst = cls()
        del cls.inst.msgs[:]
        return cls.inst


def _entry(energy):
    from vf import dense
    return dict(x=dense.flatten(energy.position), g=dense.flatten(energy.gradient), v=energy.value, obj=energy)


DUP = "same execution as an already reported controller-start exception (differs only in parameters not yet used)"


def _ctrl_exception(e, kind, E0, where="ConjugateGradient", representative=True):
    """The controller raised inside start(): nothing of (preconditioner, limit, nreset / approximation) has been
    used yet, so all cases differing only in those are the very same execution; it is reported once (on the
    simplest of them) and the literal duplicates are skipped -- finish() makes sure the report exists."""
    import traceback
    if not representative:
        return skip(DUP)
    tb = traceback.extract_tb(e.__traceback__)[-1]
    return bad("%s with %s raised %r at %s:%d `%s` (start energy value %r)"
               % (where, CTRL[kind][0], e, tb.filename.split("/nifty/")[-1], tb.lineno, tb.line, E0),
               finding_key="controller|%s|%s|start-energy-zero=%s" % (CTRL[kind][0], type(e).__name__, E0 == 0))


def finish(run):
    if run.skips.get(DUP) and not any((o.get("finding_key") or "").startswith("controller|") and "start-energy" in o["finding_key"]
                                      for _, o in run.violations):
        run.violations.append((dict(part="finish"), bad("duplicates of a controller-start exception were skipped but the "
                                                        "representative case did not report it", finding_key="harness|dedupe")))
    return {}


# ------------------------------------------------------------------ part cg
def run_cg(c):
    import nifty.cl as ift
    from vf.ref import c14_sys as S
    n, cplx, seed = c["n"], c["cplx"], c["seed"]
    A, lam, U = S.system(n, c["spec"], cplx, seed)
    b = S.vector(c["rhs"], n, cplx, U, seed, tag=1)
    x0 = S.vector(c["x0"], n, cplx, U, seed, tag=2)
    M = S.precond(c["prec"], A, lam, U, cplx, seed)
    dom = S.domain(c["dom"], n)
    L = ift.LinearOperator
    counter = {}
    Aop = S.dense_operator(dom, A, L.TIMES | L.ADJOINT_TIMES, cplx, counter)
    Mop = None if M is None else S.dense_operator(dom, M, L.TIMES | L.ADJOINT_TIMES, cplx, None)
    rec = S.recorder(make_controller(c["ctrl"], c["limit"]), counter, 60 * n + 300)
    cap = _Capture.get()
    E0 = ift.QuadraticEnergy(S.to_field(dom, x0, cplx), Aop, S.to_field(dom, b, cplx))
    napply0 = sum(counter.values())
    cg = ift.ConjugateGradient(rec, nreset=c["nreset"])
    try:
        with np.errstate(all="ignore"):
            Ef, status = cg(E0, preconditioner=Mop)
    except S.Runaway:
        return bad("CG did not terminate within %d iterations" % (60 * n + 300), finding_key="cg|no-termination|%s" % c["ctrl"])
    except (ZeroDivisionError, FloatingPointError, ValueError) as e:
        if len(rec.log) > 1 or (rec.log and "status" in rec.log[0]):
            raise
        rep = c["prec"] == "none" and c["nreset"] == (20 if c["rhs"] == "zero" else 1) and c["limit"] == (1 if c["rhs"] == "zero" else 0)
        return _ctrl_exception(e, c["ctrl"], E0.value, representative=rep)
    fin = _entry(Ef)
    v, label, stats = verify(rec.log, fin, status, A, M, b, x0, lam, c["ctrl"], c["limit"], c["nreset"], napply0, "cg",
                             msgs=list(cap.msgs))
    if v is not None:
        return v
    niter = len(rec.log) - 1
    return ok(nontrivial=niter >= 1, outcome=label, stats=stats,
              detail=dict(iterations=niter, resid=float(np.linalg.norm(A @ fin["x"] - b))))


# ------------------------------------------------------------------ part inv
def run_inv(c):
    import nifty.cl as ift
    from vf import dense
    from vf.ref import c14_sys as S
    n, cplx, seed = c["n"], c["cplx"], c["seed"]
    A, lam, U = S.system(n, c["spec"], cplx, seed)
    dom = S.domain(c["dom"], n)
    L = ift.LinearOperator
    T, AT, IT, AIT = L.TIMES, L.ADJOINT_TIMES, L.INVERSE_TIMES, L.ADJOINT_INVERSE_TIMES
    inverse_of = {T: IT, IT: T, AT: AIT, AIT: AT}
    cap = {"fwd": T | AT, "inv": IT | AIT, "times": T, "all": 15}[c["has"]]
    counter = {}
    Aop = S.dense_operator(dom, A, cap, cplx, counter)
    # precond() gives M ~ A^-1; the InversionEnabler wants an approximation of A itself (with all modes)
    Minv = S.precond(c["approx"], A, lam, U, cplx, seed)
    Approx = None
    if Minv is not None:
        Approx = np.linalg.inv(Minv)
        Approx = 0.5 * (Approx + Approx.conj().T)
    apx = None if Approx is None else S.dense_operator(dom, Approx, 15, cplx, None)
    rec = S.recorder(make_controller(c["ctrl"], c["limit"]), counter, 60 * n + 300)
    logcap = _Capture.get()
    ie = ift.InversionEnabler(Aop, rec, approximation=apx)
    want_cap = cap
    for m in (T, AT, IT, AIT):
        if cap & m:
            want_cap |= inverse_of[m]
    if ie.capability != want_cap:
        return bad("InversionEnabler capability %d, expected %d for operator capability %d" % (ie.capability, want_cap, cap),
                   finding_key="InversionEnabler|capability")
    Ainv = S.hpd(1. / lam, U)
    mats = {T: A, AT: A.conj().T, IT: Ainv, AIT: Ainv.conj().T}
    kap = lam.max() / lam.min()
    nsolve, labels, iters = 0, set(), 0
    for mode in (T, AT, IT, AIT):
        if not (ie.capability & mode):
            continue
        target = mats[mode]
        # CG (if needed) solves  B y = x  with B = the operator's matrix in the inverse mode
        B = mats[inverse_of[mode]]
        lamB = lam if inverse_of[mode] in (T, AT) else 1. / lam
        Meff = None
        if Approx is not None:
            Meff = {T: Approx, AT: Approx.conj().T, IT: np.linalg.inv(Approx), AIT: np.linalg.inv(Approx).conj().T}[mode]
        for j, e in dense.basis(ie.domain, complex_in=cplx):
            x = dense.flatten(e)
            if not cplx:
                x = x.real
            del rec.runs[:]
            del logcap.msgs[:]
            try:
                with np.errstate(all="ignore"):
                    y = ie.apply(e, mode)
            except S.Runaway:
                return bad("InversionEnabler: CG did not terminate", finding_key="cg|no-termination|%s" % c["ctrl"])
            except (ZeroDivisionError, FloatingPointError, ValueError) as ex:
                if len(rec.log) > 1 or (rec.log and "status" in rec.log[0]):
                    raise
                return _ctrl_exception(ex, c["ctrl"], 0., where="InversionEnabler", representative=c["approx"] == "none")
            yv = dense.flatten(y)
            if not cplx:
                if np.iscomplexobj(dense_raw(y)):
                    return bad("InversionEnabler returns a complex field for a real system", finding_key="InversionEnabler|dtype")
                yv = yv.real
            if cap & mode:
                if rec.runs:
                    return bad("InversionEnabler ran CG for a mode the operator supports", finding_key="InversionEnabler|cg-for-native-mode")
                if not dense.close(yv, target @ x, 1e3 * EPS * kap):
                    return bad("InversionEnabler native mode %d deviates" % mode, finding_key="InversionEnabler|native-mode-wrong")
                continue
            if len(rec.runs) != 1:
                return bad("InversionEnabler mode %d: %d CG runs" % (mode, len(rec.runs)), finding_key="InversionEnabler|no-cg-run")
            log = rec.runs[0]
            errored = any("Error detected during operator inversion" in m for m in logcap.msgs)
            seen = log[-1]["status"] != 1      # the controller issued a final verdict on the last energy it saw
            fin = dict(x=yv, g=B @ yv - x, v=S.energy(B, x, yv), obj=log[-1]["obj"] if seen else None)
            if seen and not np.array_equal(yv, log[-1]["x"].real if not cplx else log[-1]["x"]):
                return bad("InversionEnabler mode %d does not return the position the controller converged on" % mode,
                           finding_key="InversionEnabler|returns-other-position")
            status = 2 if errored else 0
            if seen and status != log[-1]["status"]:
                return bad("InversionEnabler mode %d: warning state (%s) contradicts the controller verdict %d"
                           % (mode, errored, log[-1]["status"]), finding_key="InversionEnabler|warning-vs-verdict")
            v, label, st = verify(log, fin, status, B, Meff, x, np.zeros_like(x), lamB, c["ctrl"], c["limit"], 20,
                                  log[0]["napply"], "InversionEnabler mode %d col %d" % (mode, j), msgs=list(logcap.msgs))
            if v is not None:
                return v
            nsolve += 1
            iters += st["cg_iterations"]
            labels.add(label.split("@")[0])
            # the clause itself: the result solves the linear system to the controller's accuracy
            if c["ctrl"] in ("gn_abs", "gn_rel", "gn_abs_l2") and c["limit"] is None:
                tol = CTRL[c["ctrl"]][1].get("tol_abs_gradnorm", CTRL[c["ctrl"]][1].get("tol_rel_gradnorm"))
                rn = np.linalg.norm(B @ yv - x)
                if rn > tol + C * EPS * (1 + lamB.max() * np.linalg.norm(yv)):
                    return bad("InversionEnabler mode %d: |B y - x| = %.3e > tol %.1e" % (mode, rn, tol),
                               finding_key="InversionEnabler|residual-above-tolerance")
    stats = dict(cg_iterations=iters, inv_solves=nsolve)
    return ok(nontrivial=iters >= 1, outcome=("inv:" + "+".join(sorted(labels))) if labels else "inv:native-only", stats=stats)


# ------------------------------------------------------------------ part qe
def run_qe(c):
    import nifty.cl as ift
    from vf import dense
    from vf.ref import c14_sys as S
    n, cplx, seed = c["n"], c["cplx"], c["seed"]
    A, lam, U = S.system(n, c["spec"], cplx, seed)
    dom = S.domain(c["dom"], n)
    L = ift.LinearOperator
    Aop = S.dense_operator(dom, A, L.TIMES | L.ADJOINT_TIMES, cplx, None)
    b = None if c["b"] == "none" else S.vector("gen", n, cplx, U, seed, tag=1)
    bf = None if b is None else S.to_field(dom, b, cplx)
    pts = [np.zeros(n, dtype=A.dtype)]
    I = np.eye(n, dtype=A.dtype)
    for i in range(n):
        pts.append(I[i].copy())
        if cplx:
            pts.append(1j * I[i])
    for i, j in itertools.combinations(range(n), 2):
        pts.append(I[i] + I[j])
        if cplx:
            pts.append(I[i] + 1j * I[j])
    pts.append(S.vector("gen", n, cplx, U, seed, tag=3) * 1.7)
    kap = lam.max() / lam.min()
    npts = 0
    for idx, x in enumerate(pts):
        tolv = C * EPS * (1 + lam.max()) * (1 + np.linalg.norm(x)) ** 2 * (1 + (0 if b is None else 1))
        xf = S.to_field(dom, x, cplx)
        Et, gt = S.energy(A, b, x), S.grad(A, b, x)
        y = pts[(idx + 1) % len(pts)]
        yf = S.to_field(dom, y, cplx)
        Ety, gty = S.energy(A, b, y), S.grad(A, b, y)
        E = ift.QuadraticEnergy(xf, Aop, bf)
        objs = [("ctor", E, x, Et, gt), ("at", E.at(yf), y, Ety, gty),
                ("at_with_grad", E.at_with_grad(yf, S.to_field(dom, gty, cplx)), y, Ety, gty)]
        for name, e, p, ev, gv in objs:
            if not dense.close(dense.flatten(e.position), p, 0., scale=1.):
                return bad("QuadraticEnergy.%s: position altered" % name, finding_key="QuadraticEnergy|%s|position" % name)
            if not abs(e.value - ev) <= tolv:
                return bad("QuadraticEnergy.%s value %.17g, dense %.17g (b %s)" % (name, e.value, ev, c["b"]),
                           finding_key="QuadraticEnergy|%s|value|b=%s" % (name, c["b"]))
            if not dense.close(dense.flatten(e.gradient), gv, tolv, scale=1.):
                return bad("QuadraticEnergy.%s gradient deviates from A x - b (b %s)" % (name, c["b"]),
                           finding_key="QuadraticEnergy|%s|gradient|b=%s" % (name, c["b"]))
            if not abs(e.gradient_norm - np.linalg.norm(gv)) <= tolv:
                return bad("QuadraticEnergy.%s gradient_norm" % name, finding_key="QuadraticEnergy|%s|gradient_norm" % name)
            if not cplx and (np.iscomplexobj(dense_raw(e.gradient)) or isinstance(e.value, complex)):
                return bad("QuadraticEnergy.%s: complex output for a real system" % name, finding_key="QuadraticEnergy|%s|dtype" % name)
            if not dense.close(dense.flatten(e.apply_metric(xf)), A @ x, tolv, scale=1.) or e.metric is not Aop:
                return bad("QuadraticEnergy.%s metric" % name, finding_key="QuadraticEnergy|%s|metric" % name)
        npts += 1
    return ok(nontrivial=True, outcome="qe:b=%s" % c["b"], stats=dict(qe_points=npts))


# ------------------------------------------------------------------ part reuse
def run_reuse(c):
    import nifty.cl as ift
    from vf import dense
    from vf.ref import c14_sys as S
    n, cplx, seed = c["n"], c["cplx"], c["seed"]
    A, lam, U = S.system(n, c["spec"], cplx, seed)
    b0 = S.vector(c["rhs"], n, cplx, U, seed, tag=1)
    dom = S.domain(c["dom"], n)
    L = ift.LinearOperator
    counter = {}
    Aop = S.dense_operator(dom, A, L.TIMES | L.ADJOINT_TIMES, cplx, counter)
    rec = S.recorder(make_controller(c["ctrl"], c["limit"]), counter, 60 * n + 300)
    logcap = _Capture.get()
    solver = ift.ConjugateGradient(rec) if c["via"] == "cg" else ift.InversionEnabler(Aop, rec)
    x0 = np.zeros_like(b0)
    labels, iters = [], 0
    for k, sc in enumerate(c["scales"]):
        b = sc * b0
        bf = S.to_field(dom, b, cplx)
        del rec.runs[:]
        del logcap.msgs[:]
        try:
            with np.errstate(all="ignore"):
                if c["via"] == "cg":
                    Ef, status = solver(ift.QuadraticEnergy(S.to_field(dom, x0, cplx), Aop, bf))
                    fin = _entry(Ef)
                else:
                    y = solver.inverse_times(bf)
        except S.Runaway:
            return bad("solve %d of %s with a reused %s: CG did not terminate" % (k, c["scales"], CTRL[c["ctrl"]][0]),
                       finding_key="cg|no-termination|%s%s" % (c["ctrl"], "|on-reuse" if k else ""))
        if len(rec.runs) != 1:
            return bad("solve %d: %d controller starts" % (k, len(rec.runs)), finding_key="reuse|controller-not-restarted")
        log = rec.runs[0]
        if c["via"] == "inv":
            yv = dense.flatten(y)
            yv = yv if cplx else yv.real
            seen = log[-1]["status"] != 1
            fin = dict(x=yv, g=A @ yv - b, v=S.energy(A, b, yv), obj=log[-1]["obj"] if seen else None)
            status = 2 if any("Error detected during operator inversion" in m for m in logcap.msgs) else 0
            if seen and not np.array_equal(yv, log[-1]["x"].real if not cplx else log[-1]["x"]):
                return bad("InversionEnabler (reused, solve %d) does not return the position the controller converged on" % k,
                           finding_key="InversionEnabler|returns-other-position")
        v, label, st = verify(log, fin, status, A, None, b, x0, lam, c["ctrl"], c["limit"], 20, log[0]["napply"],
                              "%s solve %d of scales %s with one %s object" % (c["via"], k, c["scales"], CTRL[c["ctrl"]][0]),
                              msgs=list(logcap.msgs))
        if v is not None:
            if k:
                v["finding_key"] = (v.get("finding_key") or "?") + "|on-reuse"
            return v
        labels.append(label.replace("conv:", ""))
        iters += st["cg_iterations"]
    return ok(nontrivial=iters >= len(c["scales"]), outcome="reuse:" + ">".join(labels), stats=dict(cg_iterations=iters, reuse_solves=len(labels)))


def dense_raw(f):
    import nifty.cl as ift
    if isinstance(f, ift.MultiField):
        return np.concatenate([np.asarray(f[k].asnumpy()).reshape(-1) for k in f.keys()])
    return np.asarray(f.asnumpy())


def run(case):
    return {"cg": run_cg, "inv": run_inv, "qe": run_qe, "reuse": run_reuse}[case["part"]](case)
