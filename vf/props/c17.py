"""C17 JAX Newton minimisers never go uphill and make progress when they can.

Mode P.  Enumerated space: objective x every point of a 5^d (doublewell, d=2: 6^2) start grid (positive, exactly zero and
negative curvature along the gradient) x maxiter x absdelta x call style, and on each element four
separate checks (one case each, so that one root cause cannot hide another):

  eager / static  run `_newton_cg` / jit(`_static_newton_cg`):  E(x_result) <= E(x_start); and the
                  negative-curvature clause: (A) maxiter=1 from a start with g.H.g < 0: the step is
                  parallel to -g and lowers E whenever one of the documented trial lengths
                  2^-k * (g.g/|g.H.g|), k=0..5 does; (B) a run that stopped by itself (status -1 or 0,
                  absdelta=None) did not stop at a point with g.H.g < 0 where such a trial length lowers E.
  trust           jit(`_trust_ncg`): E(x_result) <= E(x_start), finite result.
  agree           eager and static agree on x (1e-8 relative) and on the class of `status` (<0, 0, >0).
  sched-*         halving family a1 x + h1/2 x^2 + q/4 x^4 + a2 y + h2/2 y^2 tuned so that EXACTLY trial k of the
                  documented schedule (k=0..5: 2^-k of the CG step, k=6..8: 2^-(k-6) of the reset step, or none)
                  is the first that does not raise E; one iteration of eager / compiled must land on the point
                  the reference re-implementation of that iteration gives, and the two must agree.

Energies, gradients and Hessians of the oracle are the hand-written numpy formulas of
vf/ref/c17_objectives.py, never the library's or JAX's.
"""
import numpy as np

from vf.core import ok, bad, skip
from vf.ref import c17_objectives as O

ID = "C17"
LEVEL = "exploration"
JAX = True
RULE = ("case = (check in {eager, static, trust, agree}, objective, dimension, start-grid point, maxiter, "
        "absdelta, call style); complete product of the alphabets. non-trivial: eager/static = the run made at "
        "least one Newton iteration from a non-stationary start (negative-curvature clause: g.H.g<0 at the start "
        "or at the stopping point and a trial length lowers E); trust = at least one step accepted; agree = both "
        "variants moved away from the start")
ASSUMPTIONS = [
    "objectives are smooth; values are compared in float64 with 1e-12 relative slack against hand-written numpy formulas",
    "the compiled variants are called under jax.jit with x0 and maxiter as arguments (maxiter traced) so that one compilation per (objective, absdelta, call style) serves all start points",
    "documented trial lengths of a negative-curvature iteration: 2^-k * g.g/|g.H.g| along -g, k = 0..5 (the successive-halving schedule before its reset)",
    "eager/compiled agreement is demanded on well-conditioned paths only (Hessian |lambda|min/|lambda|max >= 1e-6 at every iterate); a status pair {-1, 0} at the same point (1e-8) whose remaining Newton decrement is < 1e-13*(1+|E|) counts as a round-off tie, not a disagreement",
    "progress is only demanded where a trial length lowers E by more than 1e-9*(1+|E|) and the full fallback step is longer than 100*xtol",
]

E_SLACK = 1e-12
X_TOL = 1e-8
TIE_TOL = 1e-13      # energy resolution below which accept/reject of a trial step is a round-off tie
COND_MIN = 1e-6     # smallest |eigenvalue| / largest |eigenvalue| of the Hessian for the agreement check
MARGIN = 1e-9
XTOL = 1e-5          # library default, scaled by size(x0) inside the library

CHECKS = ["eager", "static", "trust", "agree"]
SCHED_CHECKS = ["sched-eager", "sched-static", "sched-agree"]


def cases(tier, seed):
    seed = int(seed)
    out = []
    if tier == "quick":
        geoms = [(name, 2, 5) for name in O.NAMES]
        maxiters = [0, 1, 2, 5, 20]
        absdeltas = [None, 0.1]
        apis = ["explicit"]
    else:
        geoms = [(name, 2, 5) for name in O.NAMES] + [(name, 3, 5) for name in O.NAMES]
        maxiters = [0, 1, 2, 3, 5, 20, 200]
        absdeltas = [None, 1e-3, 0.1]
        apis = ["explicit", "fun"]
    for api in apis:
        for (name, d, npts) in geoms:
            for ad in absdeltas:
                for mi in maxiters:
                    if api == "fun" and (mi not in (1, 5) or d != 2 or ad == 1e-3):
                        continue   # library-built value_and_grad / hessp: d=2, two iteration limits
                    if d == 3 and (mi in (3, 200) or ad == 1e-3):
                        continue   # d=3: the quick alphabets of maxiter / absdelta on the 5^3 grid
                    for check in CHECKS:
                        for start in O.start_grid(name, d, seed, npts):
                            out.append(dict(check=check, obj=name, d=d, seed=seed, start=start, maxiter=mi,
                                            absdelta=ad, api=api))
    # simplest first: explicit call style, d=2, no absdelta, few iterations; grouped so that consecutive
    # cases reuse the same compiled function inside a worker
    out.sort(key=lambda c: (c["api"] != "explicit", c["d"], c["absdelta"] is not None, c["absdelta"] or 0.,
                            O.NAMES.index(c["obj"]), CHECKS.index(c["check"]), c["maxiter"]))
    # halving-schedule family: for every trial index k = 0..8 of the documented schedule (and "none") a
    # function on which exactly trial k is the first that does not raise the energy; one iteration
    for check in SCHED_CHECKS:
        for fam, k, par in O.halving_params(seed):
            out.append(dict(check=check, obj="halving", family=fam, designed_trial=k, d=2, seed=seed,
                            start=[0., 0.], maxiter=1, absdelta=None, api="fun", params=par))
    return out


# ------------------------------------------------------------------ per-worker caches
_ENV = {}
_OBJ = {}
_JIT = {}


def _env():
    if _ENV:
        return _ENV
    import logging
    import jax
    jax.config.update("jax_enable_x64", True)
    import jax.numpy as jnp
    import nifty.re as jft
    from nifty.re import optimize as opt
    for n in list(logging.root.manager.loggerDict):
        if n.startswith("nifty"):
            logging.getLogger(n).setLevel(logging.CRITICAL)
    _ENV.update(jax=jax, jnp=jnp, jft=jft, opt=opt)
    return _ENV


def _obj(name, d, seed):
    key = (name, d, seed)
    if key not in _OBJ:
        jax = _env()["jax"]
        f = O.jax_fun(name, d, seed)
        vg = jax.jit(jax.value_and_grad(f))
        hp = jax.jit(lambda p, t: jax.jvp(jax.grad(f), (p,), (t,))[1])
        _OBJ[key] = dict(f=f, vg=vg, hp=hp, ref=O.Ref(name, d, seed))
    return _OBJ[key]


def _vec(x):
    E = _env()
    x = np.asarray(x, float)
    return E["jft"].Vector({"a": E["jnp"].asarray(x[:1]), "b": E["jnp"].asarray(x[1:])})


def _flat(v):
    t = v.tree if hasattr(v, "tree") else v
    return np.concatenate([np.asarray(t["a"], float).ravel(), np.asarray(t["b"], float).ravel()])


def _kw(case, ob):
    kw = dict(absdelta=case["absdelta"])
    if case["api"] == "explicit":
        kw.update(fun_and_grad=ob["vg"], hessp=ob["hp"])
    return kw


def _compiled(kind, case, ob):
    key = (kind, case["obj"], case["d"], case["seed"], case["absdelta"], case["api"])
    if key not in _JIT:
        E = _env()
        fn = E["opt"]._static_newton_cg if kind == "static" else E["opt"]._trust_ncg
        kw = _kw(case, ob)
        f = ob["f"]
        _JIT[key] = E["jax"].jit(lambda x0, maxiter: fn(f, x0, maxiter=maxiter, **kw))
    return _JIT[key]


def _run_variant(kind, case, ob, log=None):
    """-> dict(x, status, nit, fun) or dict(exc=...)"""
    E = _env()
    x0 = _vec(case["start"])
    try:
        if kind == "eager":
            kw = _kw(case, ob)
            if log is not None and "fun_and_grad" in kw:
                vg = kw["fun_and_grad"]

                def logged(p):
                    r = vg(p)
                    log.append((_flat(p), float(r[0])))
                    return r
                kw["fun_and_grad"] = logged
            res = E["opt"]._newton_cg(ob["f"], x0, maxiter=case["maxiter"], **kw)
        else:
            res = _compiled(kind, case, ob)(x0, case["maxiter"])
            E["jax"].block_until_ready(res.x)
    except Exception as e:       # no exception is documented for smooth finite objectives
        return dict(exc="%s: %s" % (type(e).__name__, str(e)[:80]))
    return dict(x=_flat(res.x), status=int(res.status), nit=int(res.nit), fun=float(res.fun))


def _cls(status):
    return "neg" if status < 0 else ("zero" if status == 0 else "pos")


def _curv_label(ref, x):
    """Curvature class of the gradient direction by the numpy reference.  'zerocurv' is everything within
    round-off of zero (the JAX Hessian-vector product may round differently), so that 'negcurv' and
    'poscurv' are unambiguous for the library too."""
    g = ref.g(x)
    if not np.any(g != 0):
        return "stationary", 0., g
    H = ref.h(x)
    c = float(g @ H @ g)
    margin = 1e-10*float(g @ g)*max(1e-300, np.abs(H).max())
    return ("negcurv" if c < -margin else ("poscurv" if c > margin else "zerocurv")), c, g


def _newton_decrement(ref, x):
    """1/2 g.H^-1.g (energy a Newton step can still gain) where H is positive definite, else inf."""
    H = ref.h(x)
    if np.linalg.eigvalsh(H)[0] <= 0:
        return np.inf
    g = ref.g(x)
    return 0.5*float(g @ np.linalg.solve(H, g))


def _iterations_from_log(log):
    """Re-derive the accepted iterates of an eager run from its evaluation log (a trial is accepted iff its
    energy is <= the current one -- the rule stated for the halving line search).  Returns
    [(iterate, number of trials it took to get there)], start first."""
    its = [(log[0][0], 0)]
    cur, n = log[0][1], 0
    for p, e in log[1:]:
        n += 1
        if e <= cur:
            its.append((p, n))
            cur, n = e, 0
    return its, n       # n = trailing rejected trials


def _progress_possible(ref, x, d):
    """(possible, t, best trial) at a point with g.H.g < 0, with the margins stated in ASSUMPTIONS."""
    t, trials = ref.negcurv_trials(x)
    g = ref.g(x)
    e0 = ref.f(x)
    best = min(trials, key=lambda fe: fe[1])
    poss = best[1] < e0 - MARGIN*(1 + abs(e0)) and t*np.abs(g).sum() > 100*XTOL*d
    return poss, t, best


def _ckey(case):
    return "%s,d=%d,maxiter=%d,absdelta=%s,%s" % (case["obj"], case["d"], case["maxiter"], case["absdelta"], case["api"])


# ------------------------------------------------------------------ checks
def check_ncg(kind, case):
    ob = _obj(case["obj"], case["d"], case["seed"])
    ref = ob["ref"]
    x0 = np.asarray(case["start"], float)
    e0 = ref.f(x0)
    lab0, c0, g0 = _curv_label(ref, x0)
    log = [] if kind == "eager" else None
    r = _run_variant(kind, case, ob, log)
    tag = "ncg-" + kind
    if "exc" in r:
        return bad("%s raised %s [%s, start %s]" % (kind, r["exc"], _ckey(case), lab0),
                   finding_key="%s|exception|%s|start=%s" % (tag, r["exc"].split(":")[0], lab0))
    x1, st = r["x"], r["status"]
    if not np.all(np.isfinite(x1)):
        return bad("%s returned a non-finite position" % kind, finding_key="%s|non-finite|start=%s" % (tag, lab0))
    e1 = ref.f(x1)
    if e1 > e0 + E_SLACK*(1 + abs(e0)):
        return bad("%s returned a point with higher energy than the start: %.17g > %.17g [%s]" % (kind, e1, e0, _ckey(case)),
                   finding_key="%s|uphill|start=%s" % (tag, lab0))
    moved = bool(np.any(x1 != x0))
    detail = dict(start_curvature=c0, status=st, nit=r["nit"], x=x1.tolist())
    # ---- (A) one iteration from a negative-curvature start
    if case["maxiter"] == 1 and lab0 == "negcurv":
        poss, t, best = _progress_possible(ref, x0, case["d"])
        step = x1 - x0
        gn = np.linalg.norm(g0)
        along = float(step @ g0)/gn            # > 0: along +g (uphill direction)
        perp = np.linalg.norm(step - along*g0/gn)
        if log is not None and len(log) > 1:
            tr = [float((p - x0) @ g0)/gn for p, _ in log[1:]]
            detail["eager_trial_displacements_along_plus_g"] = tr
            if all(a > 0 for a in tr) and (poss or moved):
                return bad("eager Newton-CG under negative curvature (g.H.g=%.3g) evaluates its %d trial points "
                           "along +g (uphill direction) instead of -g; result status=%d, moved=%s, "
                           "while the step -%.3g*t*g (t=g.g/|g.H.g|=%.3g) lowers E from %.6g to %.6g [%s]"
                           % (c0, len(tr), st, moved, best[0], t, e0, best[1], _ckey(case)),
                           finding_key="%s|negcurv|trial-steps-along-plus-gradient" % tag, detail=detail)
        if moved and (along > 0 or perp > 1e-8*(np.linalg.norm(step) + 1e-300)):
            return bad("%s: the negative-curvature step is not along -g (component along +g %.3g, perpendicular %.3g) [%s]"
                       % (kind, along, perp, _ckey(case)), finding_key="%s|negcurv|step-not-along-minus-gradient" % tag,
                       detail=detail)
        if poss and not e1 < e0:
            how = "no step, status=%d (%s)" % (st, {"neg": "stopped", "zero": "reports convergence", "pos": "iteration limit"}[_cls(st)])
            return bad("%s: negative curvature along the gradient (g.H.g=%.3g, |g|=%.3g): %s although the trial step "
                       "-%.3g*t*g (t=g.g/|g.H.g|=%.3g) lowers E from %.6g to %.6g [%s]"
                       % (kind, c0, gn, how, best[0], t, e0, best[1], _ckey(case)),
                       finding_key="%s|negcurv|no-progress|status-%s" % (tag, _cls(st)), detail=detail)
        return ok(nontrivial=poss, outcome="%s|A:negcurv-start|%s|status-%s" % (kind, "lowered" if e1 < e0 else "no-trial-lowers", _cls(st)))
    # ---- (B) stopped by itself at a negative-curvature point where progress is possible
    if case["maxiter"] >= 1 and case["absdelta"] is None and (st <= 0) and r["nit"] <= case["maxiter"]:
        lab1, c1, g1 = _curv_label(ref, x1)
        if lab1 == "negcurv":
            poss, t, best = _progress_possible(ref, x1, case["d"])
            if poss:
                return bad("%s stopped with status=%d (%s) after %d iteration(s) at a point with g.H.g=%.3g<0, |g|=%.3g where the "
                           "negative-gradient trial step %.3g*t (t=%.3g) lowers E from %.6g to %.6g [%s]"
                           % (kind, st, "reports convergence" if st == 0 else "aborted", r["nit"], c1, np.linalg.norm(g1),
                              best[0], t, e1, best[1], _ckey(case)),
                           finding_key="%s|negcurv|no-progress|status-%s" % (tag, _cls(st)), detail=detail)
    nontriv = lab0 != "stationary" and case["maxiter"] >= 1 and r["nit"] >= 1
    extra, stats = "", {}
    if log:
        its, trailing = _iterations_from_log(log)
        nreset = sum(1 for _, n in its if n >= 7) + (trailing >= 7)
        stats = dict(eager_line_search_resets=nreset, eager_energy_evaluations=len(log))
        extra = "|ls-reset" if nreset else ""
    return ok(nontrivial=nontriv, outcome="%s|start-%s|%s|status-%s%s" % (kind, lab0, "moved" if moved else "stayed", _cls(st), extra),
              stats=stats)


def check_trust(case):
    ob = _obj(case["obj"], case["d"], case["seed"])
    ref = ob["ref"]
    x0 = np.asarray(case["start"], float)
    e0 = ref.f(x0)
    lab0, c0, g0 = _curv_label(ref, x0)
    r = _run_variant("trust", case, ob)
    if "exc" in r:
        return bad("trust raised %s [%s]" % (r["exc"], _ckey(case)),
                   finding_key="trust|exception|%s|start=%s" % (r["exc"].split(":")[0], lab0))
    x1 = r["x"]
    if not np.all(np.isfinite(x1)):
        return bad("_trust_ncg returned a non-finite position (status=%d) [%s]" % (r["status"], _ckey(case)),
                   finding_key="trust|non-finite|start=%s" % lab0)
    e1 = ref.f(x1)
    if e1 > e0 + E_SLACK*(1 + abs(e0)):
        return bad("_trust_ncg returned a point with higher energy than the start: %.17g > %.17g (status=%d, nit=%d) [%s]"
                   % (e1, e0, r["status"], r["nit"], _ckey(case)), finding_key="trust|uphill|start=%s|status=%d" % (lab0, r["status"]),
                   detail=dict(x=x1.tolist()))
    moved = bool(np.any(x1 != x0))
    return ok(nontrivial=moved, outcome="trust|start-%s|%s|status=%d" % (lab0, "moved" if moved else "stayed", r["status"]))


def check_agree(case):
    ob = _obj(case["obj"], case["d"], case["seed"])
    ref = ob["ref"]
    x0 = np.asarray(case["start"], float)
    lab0, c0, g0 = _curv_label(ref, x0)
    log = []
    a = _run_variant("eager", case, ob, log if case["api"] == "explicit" else None)
    b = _run_variant("static", case, ob)
    if case["api"] != "explicit":
        # the evaluation log needs an explicit fun_and_grad; an auxiliary eager run with the explicit call
        # style (same mathematics) is used ONLY to name the structural event in the finding key
        _run_variant("eager", dict(case, api="explicit"), ob, log)
    if "exc" in a or "exc" in b:
        if a.get("exc", "").split(":")[0] == b.get("exc", "").split(":")[0]:
            return skip("both variants raise %s" % a["exc"].split(":")[0])
        return bad("only one variant raises: eager=%s static=%s [%s]" % (a.get("exc"), b.get("exc"), _ckey(case)),
                   finding_key="agree|one-raises|start=%s" % lab0)
    # which structural event did the runs go through?  (semantic key = suspected root cause)
    pts = [x0, a["x"], b["x"]]
    last_trials = None
    if log:
        its, trailing = _iterations_from_log(log)
        pts += [p for p, _ in its]
        last_trials = its[-1][1] if (trailing == 0 and len(its) > 1) else None
    pts = [p for p in pts if np.all(np.isfinite(p))]
    # DESIGN 2.6: agreement is only demanded on well-conditioned problems.  Where the Hessian is (numerically)
    # singular at an iterate, the sign of a ~1e-17 curvature seen by CG is decided by round-off, which
    # legitimately differs between op-by-op and fused compiled arithmetic.
    for p in pts:
        ev = np.abs(np.linalg.eigvalsh(ref.h(p)))
        if ev.min() < COND_MIN*max(ev.max(), 1e-300):
            return skip("agreement not demanded: Hessian numerically singular at an iterate")
    labs = [_curv_label(ref, p)[0] for p in pts]
    if "negcurv" in labs:
        event = "iterate-with-negative-curvature-along-gradient"
    elif case["absdelta"] is not None and a["status"] == 0 and last_trials == 2:
        event = "absdelta-met-after-exactly-one-halving"
    elif "zerocurv" in labs:
        event = "iterate-with-zero-curvature-along-gradient"
    else:
        event = "positive-curvature-only"
    dx = np.abs(a["x"] - b["x"]).max()
    if {a["status"], b["status"]} == {-1, 0} and dx <= X_TOL*max(1., np.abs(a["x"]).max()) and \
            all(_newton_decrement(ref, r["x"]) <= TIE_TOL*(1. + abs(ref.f(r["x"]))) for r in (a, b)):
        # Both variants sit on the same minimiser to float64 resolution: the energy change of a further Newton
        # step (1/2 g.H^-1.g) is below what float64 resolves, so whether `new_energy <= energy` holds for the
        # last trial steps (-> status 0) or fails for all nine (-> status -1) is decided by round-off.
        return ok(nontrivial=False, outcome="agree|roundoff-tie-at-converged-point|status-%d/%d" % (a["status"], b["status"]))
    if _cls(a["status"]) != _cls(b["status"]):
        return bad("eager and static Newton-CG disagree on status: eager=%d static=%d (eager nit=%d, static nit=%d; %s) [%s]"
                   % (a["status"], b["status"], a["nit"], b["nit"], event, _ckey(case)),
                   finding_key="agree|%s|status" % event,
                   detail=dict(eager=a["x"].tolist(), static=b["x"].tolist()))
    if not dx <= X_TOL*max(1., np.abs(a["x"]).max()):
        return bad("eager and static Newton-CG disagree on x by %.3g (status eager=%d static=%d, nit %d/%d; %s) [%s]"
                   % (dx, a["status"], b["status"], a["nit"], b["nit"], event, _ckey(case)),
                   finding_key="agree|%s|x" % event,
                   detail=dict(eager=a["x"].tolist(), static=b["x"].tolist()))
    moved = bool(np.any(a["x"] != x0))
    return ok(nontrivial=moved, outcome="agree|start-%s|%s|status-%s" % (lab0, "moved" if moved else "stayed", _cls(a["status"])),
              stats=dict(max_x_deviation_e12=float(dx)*1e12))


# ------------------------------------------------------------------ halving schedule (every trial index)
def _sched_variant(kind, par):
    """One iteration of `_newton_cg` / jit(`_static_newton_cg`) on the halving family from the origin; the
    parameters are run-time arguments of ONE compiled function."""
    E = _env()
    jax, jnp, opt = E["jax"], E["jnp"], E["opt"]
    if "sched" not in _JIT:
        vg = jax.jit(jax.value_and_grad(O.halving_jax))
        hp = jax.jit(lambda x, t, p: jax.jvp(lambda z: jax.grad(O.halving_jax)(z, p), (x,), (t,))[1])
        st = jax.jit(lambda x0, p: opt._static_newton_cg(lambda v: O.halving_jax(v, p), x0, maxiter=1))
        _JIT["sched"] = (vg, hp, st)
    vg, hp, st = _JIT["sched"]
    p = jnp.asarray(par, dtype=float)
    x0 = _vec([0., 0.])
    log = []
    try:
        if kind == "eager":
            def logged(v):
                r = vg(v, p)
                log.append((_flat(v), float(r[0])))
                return r
            res = opt._newton_cg(lambda v: O.halving_jax(v, p), x0, maxiter=1, fun_and_grad=logged,
                                 hessp=lambda x, t: hp(x, t, p))
        else:
            res = st(x0, p)
            jax.block_until_ready(res.x)
    except Exception as e:
        return dict(exc="%s: %s" % (type(e).__name__, str(e)[:80]))
    return dict(x=_flat(res.x), status=int(res.status), nit=int(res.nit), ntrials=len(log) - 1)


def check_sched(case):
    ref = O.halving_reference(case["params"])
    if ref["ambiguous"]:
        return skip("a trial energy is within round-off of the start energy")
    k = ref["k"]
    klab = "none" if k is None else str(k)
    fam = case["family"]
    exp_x = ref["x"]
    exp_cls = "neg" if k is None else "pos"       # maxiter=1: iteration limit (status 1) after a step, -1 after an abort
    kinds = ["eager", "static"] if case["check"] == "sched-agree" else [case["check"][6:]]
    res = {}
    for kind in kinds:
        r = _sched_variant(kind, case["params"])
        if "exc" in r:
            return bad("%s raised %s on the halving family (first successful trial %s)" % (kind, r["exc"], klab),
                       finding_key="halving|%s|first-success-trial=%s|exception" % (kind, klab))
        res[kind] = r
    tol = X_TOL*max(1., np.abs(exp_x).max())
    if case["check"] == "sched-agree":
        a, b = res["eager"], res["static"]
        if _cls(a["status"]) != _cls(b["status"]) or np.abs(a["x"] - b["x"]).max() > tol:
            return bad("eager and compiled Newton-CG disagree after one iteration whose first successful trial step is "
                       "number %s of the halving schedule (%s family): eager x=%s status=%d, compiled x=%s status=%d; "
                       "reference x=%s" % (klab, fam, a["x"].tolist(), a["status"], b["x"].tolist(), b["status"], exp_x.tolist()),
                       finding_key="halving|agree|first-success-trial=%s" % klab)
        return ok(nontrivial=True, outcome="sched-agree|%s|first-success=%s" % (fam, klab))
    kind = kinds[0]
    r = res[kind]
    if np.abs(r["x"] - exp_x).max() > tol or _cls(r["status"]) != exp_cls:
        if not np.any(r["x"] != 0.) and k is not None:
            sym = "aborted-at-start"
        elif k is None:
            sym = "stepped-although-no-trial-lowers"
        else:
            sym = "wrong-point"
        return bad("%s Newton-CG, one iteration on the %s halving family: trial step number %s (%s) is the first that does "
                   "not raise the energy, expected x=%s status class %s; got x=%s status=%d%s"
                   % (kind, fam, klab, "none lowers" if k is None else
                      ("2^-%d of the CG step" % k if k < 6 else "2^-%d of the reset step g.g/|g.H.g|*g" % (k - 6)),
                      exp_x.tolist(), exp_cls, r["x"].tolist(), r["status"],
                      (", %d trial points evaluated" % r["ntrials"]) if kind == "eager" else ""),
                   finding_key="halving|%s|first-success-trial=%s|%s" % (kind, klab, sym),
                   detail=dict(trial_energies_minus_start=[e - O.halving_f([0., 0.], case["params"]) for e in ref["energies"]]))
    if kind == "eager" and r["ntrials"] != (9 if k is None else k + 1):
        return bad("eager evaluated %d trial points, the schedule prescribes %d" % (r["ntrials"], 9 if k is None else k + 1),
                   finding_key="halving|eager|first-success-trial=%s|trial-count" % klab)
    return ok(nontrivial=True, outcome="%s|%s|first-success=%s" % (case["check"], fam, klab))


def run(case):
    _env()
    if case["check"] in SCHED_CHECKS:
        return check_sched(case)
    if case["check"] in ("eager", "static"):
        return check_ncg(case["check"], case)
    if case["check"] == "trust":
        return check_trust(case)
    return check_agree(case)


def finish(run):
    """Harness sanity: reference derivatives vs central differences, and the JAX transliteration vs the
    numpy reference on the whole start grid (a mismatch is a harness error surfaced as a violation)."""
    _env()
    worst_fd, worst_tr = 0., 0.
    ncurv = {}
    for d in (2, 3):
        for name in O.NAMES:
            ob = _obj(name, d, run.seed)
            for x in O.start_grid(name, d, run.seed):
                worst_fd = max(worst_fd, O.selfcheck(ob["ref"], x))
                v = float(ob["f"](_vec(x)))
                worst_tr = max(worst_tr, abs(v - ob["ref"].f(x))/(1 + abs(v)))
                if d == 2:
                    lab = _curv_label(ob["ref"], np.asarray(x))[0]
                    ncurv[name + ":" + lab] = ncurv.get(name + ":" + lab, 0) + 1
    if worst_fd > 1e-5 or worst_tr > 1e-13:
        run.violations.append((dict(check="selfcheck"), bad("reference objectives inconsistent (fd %g, jax-vs-numpy %g)"
                                                             % (worst_fd, worst_tr), finding_key="harness|reference")))
    seen = {}
    for o in run.outcomes:
        if o.startswith("sched-"):
            chk, fam, fs = o.split("|")
            seen.setdefault(chk, set()).add(fs.split("=")[1])
    want = set(str(k) for k in range(9)) | {"none"}
    sched_viol = any(c.get("obj") == "halving" for c, _ in run.violations)
    if "filtered_by" not in run.extra and not sched_viol:
        for chk in SCHED_CHECKS:
            if seen.get(chk, set()) != want:
                run.violations.append((dict(check=chk), bad("halving family does not cover every trial index: %s" % sorted(seen.get(chk, [])),
                                                            finding_key="harness|halving-coverage")))
    return dict(halving_first_success_indices_seen={k: sorted(v) for k, v in seen.items()}, reference_fd_deviation=worst_fd, jax_vs_numpy_value_deviation=worst_tr, start_curvature_classes_d2=ncurv)
