"""C11 Classic likelihood energies are negative log-pdfs with Fisher metrics.

Modes P + W.  A case = (energy kind, wrapper, number of pixels, grid point).
For the case's parameter point xi the data distribution at theta = model(xi)
is enumerated EXACTLY (mode W): every outcome of discrete data with its
probability (Bernoulli {0,1}^n, one-hot categorical draws, Poisson counts
truncated where the neglected mass is < 1e-14), or the nodes/weights of a
tensor Gauss quadrature over the data space that is exact for the (polynomial)
integrands.  For EVERY outcome d the real NIFTy energy is built with d as its
data and evaluated at xi and at a second point xi0:

  value      E(xi; d) - E(xi0; d)  ==  -log p(d|xi) + log p(d|xi0)      (scipy.stats)
  gradient   dE/dxi (xi; d)        ==  J_model^T score(theta; d)        (hand-written score,
                                       validated against jax.grad of jax.scipy.stats in "refcheck" cases)
  metric     dense metric (every real and imaginary unit vector)
                                   ==  c * J^T Fisher(theta) J (+ 1 for the standard Hamiltonian)
             where Fisher = sum_d p(d) score score^T over the enumerated outcomes (== closed form)
  trafo      J_T = Jacobian of get_transformation():  J_T^T J_T == metric  exactly, or
             sum_d p(d) J_T(d)^T J_T(d) == Fisher where the docstring calls it a local approximation;
             dense get_metric_at(xi) == J_T^T J_T.
"""
import itertools
import os

import numpy as np

from vf.core import ok, bad, skip

ID = "C11"
LEVEL = "exploration"
RULE = ("case = (energy kind [20: Gaussian unit/diagonal/scaled/sandwich covariance real+complex, Poisson, "
        "Bernoulli, Student-t (scalar/field dof), inverse gamma (scalar/field alpha), categorical (axis 0/1), "
        "variable-covariance Gaussian real/complex x full/approximate Fisher, _SpecialGammaEnergy real/complex], "
        "wrapper [plain, scaled, sum of two data sets, sum with a Gaussian, sum over a MultiDomain, linear / exp / "
        "exp-linear / tanh-link / softmax forward model, StandardHamiltonian with and without sampling controller, "
        "Hamiltonian of model, every association shape of sums of 3 and 4 terms incl. scaled inner sums on single and "
        "multi domains and inside a Hamiltonian], pixels, point of a 4-value grid per coordinate (full product up to 64|256 points, "
        "else 4 rotations + all single-coordinate deviations)); every case enumerates ALL data outcomes / exact "
        "quadrature nodes and runs the real energy on each; distinct = different (kind, wrapper, npix, point); "
        "non-trivial = more than one data outcome and the wrapper produced the operator class it is about")
ASSUMPTIONS = [
    "float64; parameters on a 4-value alphabet per coordinate inside the valid range (VERIF_SEED jitters the values)",
    "Poisson data truncated at K with P(d>K)(1+(K/lambda)^2) < 1e-16 per pixel; rates <= 3.2",
    "continuous data: tensor Gauss-Hermite/-Jacobi/-Laguerre rules exact for the polynomial integrands (score x score)",
    "data model of InverseGammaEnergy(beta, alpha): beta ~ Gamma(shape alpha+1, scale x) (docstring: beta = |s|^2/2)",
    "complex Gaussians: NIFTy convention, variance 1/icov per real component; Fisher on (Re, Im) coordinates",
    "categorical: Fisher bilinear form compared on the tangent space of the simplex",
    "scaled likelihood c*E: reference metric c*Fisher",
    "1-3 pixels; no GPU; no MPI",
]

TOL = 1e-9
MAX_OUTCOMES = 2500

# kind -> parameter type
KINDS = {
    "gauss_unit": "real", "gauss_diag": "real", "gauss_idiag": "real", "gauss_scaled": "real", "gauss_sandwich": "real",
    "poisson": "pos", "bernoulli": "unit",
    "studentt": "real", "studentt_field": "real", "invgamma": "pos", "invgamma_field": "pos",
    "categorical_ax0": "simplex", "categorical_ax1": "simplex",
    "sgamma_real": "pos", "sgamma_cplx": "pos",
    "gauss_cdiag": "creal", "gauss_csandwich": "creal",
    "vcg_real_full": "vcg", "vcg_real_approx": "vcg", "vcg_cplx_full": "vcg", "vcg_cplx_approx": "vcg",
}
LINK = {"real": "exp", "pos": "exp", "unit": "tanhlink", "simplex": "softmax", "vcg": "vcgmodel", "creal": "lin"}
# wrapper -> (model, combine, scaled, hamiltonian)
WRAPS = {
    "plain": ("id", "single", False, None),
    "scaled": ("id", "single", True, None),
    "sum_same": ("id", "same", False, None),
    "sum_gauss": ("id", "gauss", False, None),
    "sum_multi": ("id", "multi", False, None),
    "lin": ("lin", "single", False, None),
    "link": ("LINK", "single", False, None),
    "explin": ("explin", "single", False, None),
    "ham": ("id", "single", False, "plain"),
    "ham_ic": ("id", "single", False, "ic"),
    "ham_link": ("LINK", "single", False, "plain"),
    "all": ("LINK", "same", True, "ic"),          # scaled (sum of two data sets) @ link, inside a Hamiltonian
    "multi_link": ("LINK", "multi", True, None),
}
WRAPS_FOR = {
    "real": ["plain", "scaled", "sum_same", "sum_gauss", "sum_multi", "lin", "link", "explin", "ham", "ham_ic",
             "ham_link", "all", "multi_link"],
    "pos": ["plain", "scaled", "sum_same", "sum_gauss", "sum_multi", "lin", "link", "explin", "ham", "ham_ic",
            "ham_link", "all", "multi_link"],
    "unit": ["plain", "scaled", "sum_same", "sum_gauss", "sum_multi", "lin", "link", "ham", "ham_ic", "ham_link",
             "all", "multi_link"],
    "simplex": ["plain", "scaled", "sum_same", "link", "ham", "ham_ic", "ham_link", "all"],
    "creal": ["plain", "scaled", "sum_same", "lin", "ham", "ham_ic", "all"],
    "vcg": ["plain", "scaled", "sum_multi", "link", "ham", "ham_ic", "ham_link", "multi_link"],
}
NLIN = 2      # number of latent coordinates of the linear models

# Association shapes of sums of 3 and 4 likelihood terms (all 2 + 5 binary trees) and scaled inner sums.
# A tree is an int (leaf = term index), a pair (left, right) = left + right, or ("s", tree) = tree.scale(c).
NESTS = {
    "n3l": ((0, 1), 2), "n3r": (0, (1, 2)),
    "n4ll": (((0, 1), 2), 3), "n4lm": ((0, (1, 2)), 3), "n4bal": ((0, 1), (2, 3)), "n4rm": (0, ((1, 2), 3)),
    "n4rr": (0, (1, (2, 3))),
    "n3rs": (0, ("s", (1, 2))), "n4bals": ((0, 1), ("s", (2, 3))), "n4sbal": (("s", (0, 1)), (2, 3)),
    "n4rms": (0, (("s", (1, 2)), 3)),
}
NEST_WRAPS = []
for _n in NESTS:
    for _d in ("S", "M"):          # S: all terms on the same domain, M: MultiDomain (odd terms on their own key)
        WRAPS["%s_%s" % (_n, _d)] = ("id", "nest%s:%s" % (_d, _n), False, None)
        NEST_WRAPS.append("%s_%s" % (_n, _d))
for _n in ("n3r", "n4bal", "n4rms"):
    for _d in ("S", "M"):
        WRAPS["%s_%s_ham" % (_n, _d)] = ("id", "nest%s:%s" % (_d, _n), False, "ic")
        NEST_WRAPS.append("%s_%s_ham" % (_n, _d))
NEST_KINDS_QUICK = ["gauss_diag", "gauss_idiag", "poisson", "bernoulli", "studentt", "invgamma", "categorical_ax0", "gauss_cdiag",
                    "vcg_real_full"]


def tree_leaves(t):
    if isinstance(t, int):
        return [t]
    if t[0] == "s":
        return tree_leaves(t[1])
    return tree_leaves(t[0]) + tree_leaves(t[1])


def nest_term_kinds(kind, combine):
    """Kinds of the terms of a nested sum: even terms = the kind, odd terms = a diagonal Gaussian (own key 'b'
    for MultiDomain nests; same domain for real / positive / unit-interval parameters, else the kind again)."""
    multi = combine.startswith("nestM")
    n = len(tree_leaves(NESTS[combine.split(":")[1]]))
    other = "gauss_diag" if (multi or KINDS[kind] in ("real", "pos", "unit")) else kind
    return [(kind, False) if i % 2 == 0 else (other, other != kind or multi) for i in range(n)]


def ncat_for(npix, tier):
    return 3 if (npix == 1 or tier == "thorough") else 2


# ------------------------------------------------------------------ alphabets (jax/nifty free)
def _rng(seed, tag):
    return np.random.default_rng([int(seed), sum(ord(c) * (i + 1) for i, c in enumerate(tag))])


def alphabet(ptype, seed):
    base = {"real": [-1.3, -0.4, 0.6, 1.7], "pos": [0.3, 0.8, 1.7, 3.0], "unit": [0.12, 0.35, 0.6, 0.85]}[ptype]
    u = _rng(seed, "alpha" + ptype).uniform(-0.04, 0.04, 4)
    return [float(b * (1. + e)) for b, e in zip(base, u)]


def coord_alphabet(atype, seed):
    """4 alternatives of one grid axis."""
    if atype in ("real", "pos", "unit"):
        return alphabet(atype, seed)
    if atype == "logpos":
        return [float(np.log(v)) for v in alphabet("pos", seed)]
    if atype == "smallreal":
        return [0.6 * v for v in alphabet("real", seed)]
    if atype == "atanh":
        return [float(np.arctanh(2. * v - 1.)) for v in alphabet("unit", seed)]
    if atype.startswith("simplex"):
        n = int(atype[7:])
        w = alphabet("pos", seed)
        rows = [[w[(a + j) % 4] * (1. + j) for j in range(n)] for a in range(4)]
        return [[float(x / sum(r)) for x in r] for r in rows]
    raise ValueError(atype)


def blocks_for(kind, wrap, npix, tier):
    """Reference layout of xi: list of blocks (key, n, complex, axis type, number of grid axes)."""
    ptype = KINDS[kind]
    model, combine, _, _ = WRAPS[wrap]
    if model == "LINK":
        model = LINK[ptype]
    cplx = kind in ("gauss_cdiag", "gauss_csandwich", "vcg_cplx_full", "vcg_cplx_approx")
    if ptype == "vcg":
        if model == "vcgmodel":
            bl = [["s", NLIN, cplx, "real"], ["t", npix, False, "logpos"]]
        else:
            bl = [["res", npix, cplx, "real"], ["icov", npix, False, "pos"]]
    elif ptype == "simplex":
        nc = ncat_for(npix, tier)
        bl = [["", nc * npix, False, "real" if model == "softmax" else "simplex%d" % nc]]
    else:
        base = "real" if ptype == "creal" else ptype
        if model == "id":
            bl = [["", npix, cplx, base]]
        elif model == "lin":
            bl = [["", NLIN, cplx, base]]
        elif model == "exp":
            bl = [["", npix, False, "logpos" if ptype == "pos" else "smallreal"]]
        elif model == "explin":
            bl = [["", NLIN, False, "logpos" if ptype == "pos" else "smallreal"]]
        elif model == "tanhlink":
            bl = [["", npix, False, "atanh"]]
        else:
            raise ValueError(model)
    if combine == "multi" or combine.startswith("nestM"):
        for b in bl:
            if b[0] == "":
                b[0] = "a"
        bl.append(["b", 1, False, "real"])
    return bl


def grid_axes(blocks):
    """One entry per grid axis: (block index, axis type, slot).  A simplex block has one axis per pixel row."""
    axes = []
    for bi, (key, n, cplx, atype) in enumerate(blocks):
        if atype.startswith("simplex"):
            nc = int(atype[7:])
            axes += [(bi, atype, r) for r in range(n // nc)]
        else:
            axes += [(bi, atype, j) for j in range(n * (2 if cplx else 1))]
    return axes


def grid_points(D, full_limit):
    if 4 ** D <= full_limit:
        return [list(p) for p in itertools.product(range(4), repeat=D)]
    pts = [[(a + j) % 4 for j in range(D)] for a in range(4)]
    for j in range(D):
        for v in range(1, 4):
            p = list(pts[0])
            p[j] = (p[j] + v) % 4
            pts.append(p)
    return pts


def n_outcomes(kind, wrap, npix, tier):
    """Upper bound of the number of joint data outcomes of a case (jax/nifty free)."""
    cplx = 2 if ("cplx" in kind or kind in ("gauss_cdiag", "gauss_csandwich")) else 1
    fam = kind.split("_")[0]
    per = {"gauss": 2 ** cplx, "poisson": 29, "bernoulli": 2, "studentt": 4, "invgamma": 3,
           "categorical": ncat_for(npix, tier), "sgamma": 3 ** cplx, "vcg": 3 ** cplx}[fam]
    n = per ** npix
    combine = WRAPS[wrap][1]
    if combine.startswith("nest"):
        tot = 1
        for k, is_other in nest_term_kinds(kind, combine):
            tot *= n if not is_other else (2 if combine.startswith("nestM") else 2 ** npix)
        return tot
    return n * {"single": 1, "same": n, "gauss": 2 ** npix, "multi": 2}[combine]


def cases(tier, seed):
    seed = int(seed)
    out = []
    # reference self-validation (jax autodiff of the textbook pdfs vs. the numpy scores/Fisher used in bulk)
    ref = [dict(kind=kind, wrap="refcheck", npix=2, pt=[], seed=seed, tier=tier) for kind in KINDS]
    npixs = (1, 2) if tier == "quick" else (1, 2, 3)
    full_limit = 64 if tier == "quick" else 256
    for npix in npixs:
        for kind, ptype in KINDS.items():
            for wrap in WRAPS_FOR[ptype] + NEST_WRAPS:
                if tier == "quick" and wrap in ("all", "multi_link") and npix > 1:
                    continue
                nest = wrap in NEST_WRAPS
                if nest and (npix > 1 or (tier == "quick" and kind not in NEST_KINDS_QUICK) or
                             n_outcomes(kind, wrap, npix, tier) > (100 if tier == "quick" else 700)):
                    continue
                if npix == 3 and (ptype in ("vcg", "creal") or kind == "sgamma_cplx"):
                    continue
                if n_outcomes(kind, wrap, npix, tier) > MAX_OUTCOMES:
                    continue            # joint data space too large to run the energy on every outcome
                bl = blocks_for(kind, wrap, npix, tier)
                D = len(grid_axes(bl))
                for pt in grid_points(D, 4 if nest else (full_limit if npix < 3 else 64)):
                    out.append(dict(kind=kind, wrap=wrap, npix=npix, pt=pt, seed=seed, tier=tier))
    worder = list(WRAPS)
    korder = list(KINDS)
    out.sort(key=lambda c: (c["npix"], worder.index(c["wrap"]), korder.index(c["kind"]), sum(c["pt"]), c["pt"]))
    # the (slow, jax) reference validations are spread evenly so that they run on different workers
    step = max(1, len(out) // len(ref))
    for i, r in enumerate(ref):
        out.insert(min(len(out), i * (step + 1)), r)
    return out


# ------------------------------------------------------------------ reference side (numpy)
def aux_for(kind, npix, seed, tag=""):
    """Seeded numeric fill of the constants of one energy (well conditioned)."""
    r = _rng(seed, "aux" + kind + tag + str(npix))
    a = dict(
        w=r.uniform(0.5, 2., npix),                 # diagonal inverse covariance
        c=float(r.uniform(0.5, 2.)),                # scaled inverse covariance
        R=np.eye(npix) + (0.3 if npix < 3 else 0.2) * r.uniform(-1, 1, (npix, npix)),
        Ri=(0.3 if npix < 3 else 0.2) * r.uniform(-1, 1, (npix, npix)),
        nu=[1.0, 2.5, 4.0][int(r.integers(0, 3))],
        nus=np.array([1.0, 2.5, 4.0, 7.0])[(int(r.integers(0, 4)) + np.arange(npix)) % 4],
        alpha=float(r.uniform(0.2, 2.)),
        alphas=r.uniform(-0.4, 2., npix),
    )
    return a


def family_for(kind, npix, aux, tier):
    from vf.ref import c11_families as F
    n = npix
    if kind == "gauss_unit":
        return F.Gauss(np.eye(n))
    if kind in ("gauss_diag", "gauss_idiag"):
        return F.Gauss(np.diag(aux["w"]))
    if kind == "gauss_scaled":
        return F.Gauss(aux["c"] * np.eye(n))
    if kind == "gauss_sandwich":
        return F.Gauss(aux["R"].T @ np.diag(aux["w"]) @ aux["R"])
    if kind == "gauss_cdiag":
        return F.Gauss(np.diag(np.tile(aux["w"], 2)))
    if kind == "gauss_csandwich":
        Rc = aux["R"] + 1j * aux["Ri"]
        P = Rc.conj().T @ np.diag(aux["w"]) @ Rc
        return F.Gauss(np.block([[P.real, -P.imag], [P.imag, P.real]]))
    if kind == "poisson":
        return F.Poisson(n)
    if kind == "bernoulli":
        return F.Bernoulli(n)
    if kind == "studentt":
        return F.StudentT(np.full(n, aux["nu"]))
    if kind == "studentt_field":
        return F.StudentT(aux["nus"])
    if kind == "invgamma":
        return F.GammaScale(np.full(n, 0.5))          # default alpha = -0.5
    if kind == "invgamma_field":
        return F.GammaScale(aux["alphas"] + 1.)
    if kind == "categorical_ax0":
        nc = ncat_for(npix, tier)
        return F.Categorical((nc,) if npix == 1 else (nc, npix), 0)
    if kind == "categorical_ax1":
        nc = ncat_for(npix, tier)
        return F.Categorical((npix, nc), 1)
    if kind.startswith("sgamma"):
        return F.VarGauss(n, cplx=kind.endswith("cplx"), mean_fixed=True)
    if kind.startswith("vcg"):
        return F.VarGauss(n, cplx="cplx" in kind)
    raise ValueError(kind)


def realify(A):
    A = np.asarray(A)
    return np.block([[A.real, -A.imag], [A.imag, A.real]])


class Seg:
    """theta segment = model applied to one block of xi (hand-written value and Jacobian)."""

    def __init__(self, model, cplx=False, A=None, b=None, shape=None, axis=None):
        self.model, self.cplx, self.A, self.b, self.shape, self.axis = model, cplx, A, b, shape, axis

    def _rows(self, n):
        idx = np.arange(n).reshape(self.shape)
        return np.moveaxis(idx, self.axis, -1).reshape(-1, self.shape[self.axis])

    def f(self, x):
        m = self.model
        if m == "id":
            return x.copy()
        if m == "lin":
            if self.cplx:
                return realify(self.A) @ x + np.concatenate([self.b.real, self.b.imag])
            return self.A @ x + self.b
        if m == "exp":
            return np.exp(x)
        if m == "explin":
            return np.exp(self.A @ x)
        if m == "tanhlink":
            return 0.5 + 0.5 * np.tanh(x)
        if m == "softmax":
            out = np.zeros_like(x)
            for row in self._rows(x.size):
                e = np.exp(x[row])
                out[row] = e / e.sum()
            return out
        raise ValueError(m)

    def jac(self, x):
        m = self.model
        if m == "id":
            return np.eye(x.size)
        if m == "lin":
            return realify(self.A) if self.cplx else np.array(self.A, dtype=float)
        if m == "exp":
            return np.diag(np.exp(x))
        if m == "explin":
            return np.diag(np.exp(self.A @ x)) @ self.A
        if m == "tanhlink":
            return np.diag(0.5 * (1. - np.tanh(x) ** 2))
        if m == "softmax":
            J = np.zeros((x.size, x.size))
            th = self.f(x)
            for row in self._rows(x.size):
                J[np.ix_(row, row)] = np.diag(th[row]) - np.outer(th[row], th[row])
            return J
        raise ValueError(m)

    def f_jax(self, x):
        import jax.numpy as jnp
        m = self.model
        if m == "id":
            return x
        if m == "lin":
            if self.cplx:
                n = x.size // 2
                z = jnp.asarray(self.A) @ (x[:n] + 1j * x[n:]) + jnp.asarray(self.b)
                return jnp.concatenate([z.real, z.imag])
            return jnp.asarray(self.A) @ x + jnp.asarray(self.b)
        if m == "exp":
            return jnp.exp(x)
        if m == "explin":
            return jnp.exp(jnp.asarray(self.A) @ x)
        if m == "tanhlink":
            return 1. / (1. + jnp.exp(-2. * x))
        if m == "softmax":
            import jax
            y = jax.nn.softmax(x.reshape(self.shape), axis=self.axis)
            return y.reshape(-1)
        raise ValueError(m)


class Term:
    def __init__(self, fam, segs, kind, aux, dom_key):
        self.fam, self.segs, self.kind, self.aux, self.dom_key = fam, segs, kind, aux, dom_key
        self.scale = 1.          # factor of a scaled inner sum this term belongs to
        # segs: list of (block index, Seg)

    def theta(self, xb):
        return np.concatenate([s.f(xb[bi]) for bi, s in self.segs])

    def jac(self, xb, offs, D):
        rows = []
        for bi, s in self.segs:
            Jb = s.jac(xb[bi])
            full = np.zeros((Jb.shape[0], D))
            full[:, offs[bi]:offs[bi] + Jb.shape[1]] = Jb
            rows.append(full)
        return np.concatenate(rows, axis=0)


class Spec:
    pass


def build_spec(kind, wrap, npix, seed, tier):
    """Everything about a case that does not depend on the grid point."""
    ptype = KINDS[kind]
    model, combine, scaled, ham = WRAPS[wrap]
    if model == "LINK":
        model = LINK[ptype]
    sp = Spec()
    sp.kind, sp.wrap, sp.npix, sp.seed, sp.tier = kind, wrap, npix, seed, tier
    sp.ptype, sp.model, sp.combine, sp.ham = ptype, model, combine, ham
    sp.blocks = blocks_for(kind, wrap, npix, tier)
    sp.sizes = [n * (2 if c else 1) for _, n, c, _ in sp.blocks]
    sp.offs = list(np.concatenate([[0], np.cumsum(sp.sizes)])[:-1].astype(int))
    sp.D = int(sum(sp.sizes))
    sp.axes = grid_axes(sp.blocks)
    r = _rng(seed, "spec" + kind + wrap + str(npix))
    sp.scale = float(r.uniform(0.3, 0.8) if r.integers(0, 2) else r.uniform(1.5, 3.)) if scaled else 1.
    aux = aux_for(kind, npix, seed)
    fam = family_for(kind, npix, aux, tier)
    cplx = sp.blocks[0][2]
    # model constants: convex rows keep positive / unit-interval parameters inside their range
    A = r.uniform(0.2, 1., (npix, NLIN))
    A = A / A.sum(axis=1, keepdims=True)
    b = np.zeros(npix)
    if ptype in ("real", "creal", "vcg"):
        A = A * np.where(r.uniform(size=A.shape) < 0.4, -1., 1.)
        b = r.uniform(-0.5, 0.5, npix)
    if cplx:
        A = A + 0.5j * r.uniform(-1, 1, A.shape)
        b = b + 1j * r.uniform(-0.5, 0.5, npix)
    sp.A, sp.b = A, b
    if ptype == "vcg":
        if model == "vcgmodel":
            segs = [(0, Seg("lin", cplx, A, b)), (1, Seg("exp"))]
        else:
            segs = [(0, Seg("id")), (1, Seg("id"))]
    elif model == "softmax":
        segs = [(0, Seg("softmax", shape=fam.shape, axis=fam.axis))]
    elif model in ("lin", "explin"):
        segs = [(0, Seg(model, cplx, A, b))]
    else:
        segs = [(0, Seg(model))]
    sp.terms = [Term(fam, segs, kind, aux, None)]
    sp.tree = None
    if combine.startswith("nest"):
        multi = combine.startswith("nestM")
        sp.tree = NESTS[combine.split(":")[1]]
        sp.terms = []
        for i, (k, is_other) in enumerate(nest_term_kinds(kind, combine)):
            if not is_other:
                ai = aux if i == 0 else aux_for(kind, npix, seed, "nest%d" % i)
                sp.terms.append(Term(family_for(kind, npix, ai, tier), segs, kind, ai, None))
            else:
                n2 = 1 if multi else npix
                ai = aux_for("gauss_diag", n2, seed, "nest%d" % i)
                sp.terms.append(Term(family_for("gauss_diag", n2, ai, tier),
                                     [(len(sp.blocks) - 1 if multi else 0, Seg("id"))], "gauss_diag", ai,
                                     "b" if multi else None))
        # scale factors of scaled inner sums -> per-term factor of the reference

        def walk(t, f):
            if isinstance(t, int):
                sp.terms[t].scale = f
            elif t[0] == "s":
                walk(t[1], f * sp.inner_scale)
            else:
                walk(t[0], f)
                walk(t[1], f)
        sp.inner_scale = float(r.uniform(1.5, 3.))
        walk(sp.tree, 1.)
    if combine == "same":
        sp.terms.append(Term(fam, segs, kind, aux, None))
    elif combine == "gauss":
        aux2 = aux_for("gauss_diag", npix, seed, "second")
        sp.terms.append(Term(family_for("gauss_diag", npix, aux2, tier), [(0, Seg("id"))], "gauss_diag", aux2, None))
    elif combine == "multi":
        aux2 = aux_for("gauss_diag", 1, seed, "second")
        sp.terms.append(Term(family_for("gauss_diag", 1, aux2, tier), [(len(sp.blocks) - 1, Seg("id"))],
                             "gauss_diag", aux2, "b"))
    sp.trafo = None if ham else ("expect" if kind.startswith("vcg") else "exact")
    sp.metric_data_dependent = kind.startswith("vcg") and kind.endswith("approx")
    return sp


def xi_from_point(sp, pt):
    xi = np.zeros(sp.D)
    for (bi, atype, slot), idx in zip(sp.axes, pt):
        alt = coord_alphabet(atype, sp.seed)[idx]
        if atype.startswith("simplex"):
            # one pixel row of a categorical block
            fam = sp.terms[0].fam
            rows = np.moveaxis(np.arange(fam.theta_dim).reshape(fam.shape), fam.axis, -1).reshape(fam.npix, fam.ncat)
            rot = np.roll(np.array(alt), slot)
            xi[sp.offs[bi] + rows[slot]] = rot
        else:
            # make the pixels distinct: coordinate j is shifted a little
            xi[sp.offs[bi] + slot] = alt * (1. + 0.03 * slot) if atype in ("real", "smallreal", "logpos", "atanh") \
                else alt * (1. - 0.02 * slot)
    return xi


def split(sp, xi):
    return [xi[o:o + s] for o, s in zip(sp.offs, sp.sizes)]


# ------------------------------------------------------------------ library side
def _dense_op_class(ift):
    class DenseOp(ift.LinearOperator):
        """Harness-side rectangular (complex) matrix."""

        def __init__(self, domain, target, A):
            self._domain = ift.DomainTuple.make(domain)
            self._target = ift.DomainTuple.make(target)
            self._A = np.asarray(A)
            self._capability = self.TIMES | self.ADJOINT_TIMES

        def apply(self, x, mode):
            self._check_input(x, mode)
            v = x.asnumpy().reshape(-1)
            if mode == self.TIMES:
                return ift.makeField(self._target, (self._A @ v).reshape(self._target.shape))
            return ift.makeField(self._domain, (self._A.conj().T @ v).reshape(self._domain.shape))
    return DenseOp


def lib_domain(ift, kind, npix, fam):
    if kind.startswith("categorical"):
        return ift.DomainTuple.make(tuple(ift.UnstructuredDomain(s) for s in fam.shape))
    if kind in ("gauss_diag", "gauss_idiag", "poisson", "vcg_real_full", "vcg_cplx_approx", "studentt_field"):
        return ift.DomainTuple.make(ift.RGSpace(npix, distances=0.7))      # volume must not enter
    return ift.DomainTuple.make(ift.UnstructuredDomain(npix))


def lib_energy(ift, term, npix, d, dom=None):
    """The NIFTy energy of one term with data outcome d (flat real vector)."""
    from nifty.cl.operators.energy_operators import _SpecialGammaEnergy
    kind, aux, fam = term.kind, term.aux, term.fam
    if dom is None:
        dom = lib_domain(ift, kind, npix, fam)
    n = npix
    DenseOp = _dense_op_class(ift)

    def fld(v, dtype=np.float64):
        return ift.makeField(dom, np.asarray(v).reshape(dom.shape).astype(dtype))
    if kind == "gauss_unit":
        return ift.GaussianEnergy(data=fld(d))
    if kind == "gauss_diag":
        return ift.GaussianEnergy(data=fld(d), inverse_covariance=ift.DiagonalOperator(fld(aux["w"]),
                                                                                   sampling_dtype=np.float64))
    if kind == "gauss_idiag":
        # the same inverse covariance, given as the inverse of the diagonal COVARIANCE operator (an
        # inverse-flavoured DiagonalOperator: stored diagonal 1/w, actual diagonal w)
        cov = ift.DiagonalOperator(fld(1. / np.asarray(aux["w"])), sampling_dtype=np.float64)
        return ift.GaussianEnergy(data=fld(d), inverse_covariance=cov.inverse)
    if kind == "gauss_scaled":
        return ift.GaussianEnergy(data=fld(d), inverse_covariance=ift.ScalingOperator(dom, aux["c"], np.float64))
    if kind == "gauss_sandwich":
        icov = ift.SandwichOperator.make(DenseOp(dom, dom, aux["R"]),
                                         ift.DiagonalOperator(fld(aux["w"]), sampling_dtype=np.float64))
        return ift.GaussianEnergy(data=fld(d), inverse_covariance=icov)
    if kind == "gauss_cdiag":
        return ift.GaussianEnergy(data=fld(d[:n] + 1j * d[n:], np.complex128),
                                  inverse_covariance=ift.DiagonalOperator(fld(aux["w"]), sampling_dtype=np.complex128))
    if kind == "gauss_csandwich":
        icov = ift.SandwichOperator.make(DenseOp(dom, dom, aux["R"] + 1j * aux["Ri"]),
                                         ift.DiagonalOperator(fld(aux["w"]), sampling_dtype=np.complex128))
        return ift.GaussianEnergy(data=fld(d[:n] + 1j * d[n:], np.complex128), inverse_covariance=icov)
    if kind == "poisson":
        return ift.PoissonianEnergy(fld(np.rint(d), np.int64))
    if kind == "bernoulli":
        return ift.BernoulliEnergy(fld(np.rint(d), np.int64))
    if kind == "studentt":
        return ift.StudentTEnergy(dom, aux["nu"]) @ ift.Adder(fld(d), neg=True)
    if kind == "studentt_field":
        return ift.StudentTEnergy(dom, fld(aux["nus"])) @ ift.Adder(fld(d), neg=True)
    if kind == "invgamma":
        return ift.InverseGammaEnergy(fld(d))
    if kind == "invgamma_field":
        return ift.InverseGammaEnergy(fld(d), fld(aux["alphas"]))
    if kind.startswith("categorical"):
        return ift.CategoricalEnergy(fld(np.rint(d), np.int64), axis=fam.axis)
    if kind == "sgamma_real":
        return _SpecialGammaEnergy(fld(d))
    if kind == "sgamma_cplx":
        return _SpecialGammaEnergy(fld(d[:n] + 1j * d[n:], np.complex128))
    if kind.startswith("vcg"):
        cplx = "cplx" in kind
        e = ift.VariableCovarianceGaussianEnergy(dom, "res", "icov", np.complex128 if cplx else np.float64,
                                                 use_full_fisher=kind.endswith("full"))
        dd = fld(d[:n] + 1j * d[n:], np.complex128) if cplx else fld(d)
        shift = ift.MultiField.from_dict({"res": dd, "icov": fld(np.zeros(n))})
        return e @ ift.Adder(shift, neg=True)
    raise ValueError(kind)


def lib_model(ift, sp, term_dom):
    """The NIFTy forward model of the first term (None = identity)."""
    DenseOp = _dense_op_class(ift)
    m = sp.model
    if m == "id":
        return None
    if sp.ptype == "vcg":         # vcgmodel: res = A s + b, icov = exp(t)
        dom = term_dom["res"]
        sdom = ift.UnstructuredDomain(NLIN)
        dt = np.complex128 if sp.blocks[0][2] else np.float64
        bfld = ift.makeField(dom, sp.b.reshape(dom.shape).astype(dt))
        res = ift.Adder(bfld) @ DenseOp(sdom, dom, sp.A) @ ift.FieldAdapter(sdom, "s")
        icov = ift.FieldAdapter(dom, "t").exp()
        return res.ducktape_left("res") + icov.ducktape_left("icov")
    dom = term_dom
    if m in ("lin", "explin"):
        sdom = ift.UnstructuredDomain(NLIN)
        op = DenseOp(sdom, dom, sp.A)
        if m == "explin":
            return op.exp()
        dt = np.complex128 if sp.blocks[0][2] else np.float64
        return ift.Adder(ift.makeField(dom, sp.b.reshape(dom.shape).astype(dt))) @ op
    idop = ift.Operator.identity_operator(dom)
    if m == "exp":
        return idop.exp()
    if m == "tanhlink":
        return idop.ptw("tanh").scale(0.5) + 0.5
    if m == "softmax":
        fam = sp.terms[0].fam
        e = idop.exp()
        C = ift.ContractionOperator(dom, spaces=fam.axis if len(dom) > 1 else None)
        return e * (C.adjoint @ (C @ e).reciprocal())
    raise ValueError(m)


def lib_build(ift, sp, datas):
    """Likelihood (and Hamiltonian) of the case for one joint data outcome."""
    e1 = lib_energy(ift, sp.terms[0], sp.npix, datas[0])
    expected = []
    if sp.tree is not None:
        multi = sp.combine.startswith("nestM")
        leaves = []
        for i, (t, d) in enumerate(zip(sp.terms, datas)):
            if t.dom_key == "b":
                e = lib_energy(ift, t, 1, d).ducktape("b")
            else:
                e = e1 if i == 0 else lib_energy(ift, t, sp.npix, d, dom=e1.domain if t.kind != sp.kind else None)
                if multi and not isinstance(e.domain, ift.MultiDomain):
                    e = e.ducktape("a")
            if multi and sp.ham:          # named terms inside the Hamiltonian variants, default names elsewhere
                e.name = "t%d" % i
            leaves.append(e)

        def build(t):
            if isinstance(t, int):
                return leaves[t]
            if t[0] == "s":
                return build(t[1]).scale(sp.inner_scale)
            return build(t[0]) + build(t[1])
        lh = build(sp.tree)
        expected.append("_LikelihoodSum")
    elif sp.combine == "same":
        lh = e1 + lib_energy(ift, sp.terms[1], sp.npix, datas[1])
        expected.append("_LikelihoodSum")
    elif sp.combine == "gauss":
        lh = e1 + lib_energy(ift, sp.terms[1], sp.npix, datas[1], dom=e1.domain)
        expected.append("_LikelihoodSum")
    else:
        lh = e1
    model = lib_model(ift, sp, e1.domain)
    if model is not None:
        lh = lh @ model
        expected.append("_LikelihoodChain")
    if sp.combine == "multi":
        e2 = lib_energy(ift, sp.terms[1], 1, datas[1]).ducktape("b")
        if not isinstance(lh.domain, ift.MultiDomain):
            lh = lh.ducktape("a")
        lh.name = "first"
        e2.name = "second"
        lh = lh + e2
        expected.append("_LikelihoodSum")
    if sp.scale != 1.:
        lh = lh.scale(sp.scale)
        expected.append("_LikelihoodChain")
    op = lh
    if sp.ham == "plain":
        op = ift.StandardHamiltonian(lh)
    elif sp.ham == "ic":
        op = ift.StandardHamiltonian(lh, ift.GradientNormController(iteration_limit=5))
    cls_ok = (not expected) or type(lh).__name__ == expected[-1]
    return lh, op, cls_ok


class Layout:
    """Mapping between NIFTy fields on the case's domain and reference vectors."""

    def __init__(self, ift, sp, dom):
        self.ift, self.sp, self.dom = ift, sp, dom
        self.multi = isinstance(dom, ift.MultiDomain)
        keys = list(dom.keys()) if self.multi else [""]
        bkeys = [b[0] for b in sp.blocks]
        if sorted(keys) != sorted(bkeys):
            raise AssertionError("harness: domain keys %s != reference blocks %s" % (keys, bkeys))
        self.entries = []
        for k in keys:
            bi = bkeys.index(k)
            d = dom[k] if self.multi else dom
            if d.size != sp.blocks[bi][1]:
                raise AssertionError("harness: size mismatch for key %r" % k)
            self.entries.append((k, d, sp.offs[bi], sp.blocks[bi][1], sp.blocks[bi][2]))

    def field(self, v):
        ift = self.ift
        parts = {}
        for k, d, off, n, cplx in self.entries:
            a = (v[off:off + n] + 1j * v[off + n:off + 2 * n]) if cplx else np.array(v[off:off + n], dtype=np.float64)
            parts[k] = ift.makeField(d, a.reshape(d.shape))
        return ift.MultiField.from_dict(parts, self.dom) if self.multi else parts[""]

    def vec(self, f):
        out = np.zeros(self.sp.D)
        leak = 0.
        for k, d, off, n, cplx in self.entries:
            a = np.asarray((f[k] if self.multi else f).asnumpy()).reshape(-1)
            out[off:off + n] = a.real
            if cplx:
                out[off + n:off + 2 * n] = a.imag
            elif np.iscomplexobj(a):
                leak = max(leak, float(np.abs(a.imag).max()))
        return out, leak

    def dense(self, linop):
        D = self.sp.D
        M = np.zeros((D, D))
        for j in range(D):
            e = np.zeros(D)
            e[j] = 1.
            M[:, j], _ = self.vec(linop(self.field(e)))
        return M

    def gram(self, jac):
        """J^T J of a Jacobian into an arbitrary (real or complex, multi) target, real-ified."""
        from vf import dense
        cols = []
        for j in range(self.sp.D):
            e = np.zeros(self.sp.D)
            e[j] = 1.
            y = dense.flatten(jac(self.field(e)))
            cols.append(np.concatenate([y.real, y.imag]))
        J = np.array(cols).T
        return J.T @ J


# ------------------------------------------------------------------ the check
def block_of(sp, j):
    for (key, n, cplx, _), off, size in zip(sp.blocks, sp.offs, sp.sizes):
        if off <= j < off + size:
            return key or "x"
    return "?"


def where(sp, A, B):
    d = np.abs(np.asarray(A) - np.asarray(B))
    i, j = np.unravel_index(int(np.argmax(d)), d.shape)
    bi, bj = sorted([block_of(sp, i), block_of(sp, j)])
    return "%s,%s:%s" % (bi, bj, "diag" if i == j else "offdiag")


def rel(a, b):
    a, b = np.asarray(a, dtype=float), np.asarray(b, dtype=float)
    if not (np.all(np.isfinite(a)) and np.all(np.isfinite(b))):
        return float("inf")
    return float(np.abs(a - b).max(initial=0.) / (1. + np.abs(b).max(initial=0.)))


def check_point(sp, xi, xi0):
    """Run all clauses for one parameter point.  Returns (failures, info);
    failures = list of (clause, where, message)."""
    import nifty.cl as ift
    from vf.ref import c11_families as F
    fails = []
    xb, xb0 = split(sp, xi), split(sp, xi0)
    thetas = [t.theta(xb) for t in sp.terms]
    thetas0 = [t.theta(xb0) for t in sp.terms]
    # exact data expectation of every term (mode W) and reference Fisher in xi coordinates
    per = []
    Fxi = np.zeros((sp.D, sp.D))
    refdev = 0.
    for t, th in zip(sp.terms, thetas):
        Fs, Dm, W, g = F.fisher_enumerated(t.fam, th)
        Fc = t.fam.fisher(th)
        T = t.fam.tangent(th)
        refdev = max(refdev, rel(F.proj(Fs, T), F.proj(Fc, T)), abs(float(W.sum()) - 1.))
        J = t.jac(xb, sp.offs, sp.D)
        Fxi += t.scale * (J.T @ Fs @ J)
        per.append((Dm, W, g, J, t.fam.logpdf(th, Dm), t.fam.logpdf(t.theta(xb0), Dm)))
    if refdev > 1e-11:
        return [("harness", "reference", "enumerated Fisher != closed form (%.2e)" % refdev)], {}
    Fref = sp.scale * Fxi + (np.eye(sp.D) if sp.ham else 0.)
    # tangent space (only for an un-modelled categorical parameter)
    T = None
    if sp.ptype == "simplex" and sp.model == "id":
        T0 = sp.terms[0].fam.tangent(thetas[0])
        T = np.zeros((sp.D, T0.shape[1] + sp.D - T0.shape[0]))
        T[:T0.shape[0], :T0.shape[1]] = T0
        T[T0.shape[0]:, T0.shape[1]:] = np.eye(sp.D - T0.shape[0])
    joint = list(itertools.product(*[range(len(p[1])) for p in per]))
    if len(joint) > MAX_OUTCOMES:
        raise AssertionError("harness: %d joint outcomes" % len(joint))
    lay = None
    EJtJ = np.zeros((sp.D, sp.D))
    EM = np.zeros((sp.D, sp.D))
    wsum = 0.
    worst = dict(value=0., gradient=0., metric=0., trafo=0., get_metric_at=0., leak=0.)
    cls_ok = True
    first = {}
    for idx in joint:
        datas = [per[k][0][i] for k, i in enumerate(idx)]
        w = float(np.prod([per[k][1][i] for k, i in enumerate(idx)]))
        lh, op, cok = lib_build(ift, sp, datas)
        cls_ok = cls_ok and cok
        if lay is None:
            lay = Layout(ift, sp, op.domain)
            f_xi, f_xi0 = lay.field(xi), lay.field(xi0)
        lin = op(ift.Linearization.make_var(f_xi, True))
        val = float(lin.val.asnumpy())
        val0 = float(op(f_xi0).asnumpy())
        grad, leak = lay.vec(lin.gradient)
        worst["leak"] = max(worst["leak"], leak)
        # reference value difference and gradient
        dv = 0.
        gref = np.zeros(sp.D)
        for k, (t, i) in enumerate(zip(sp.terms, idx)):
            dv += t.scale * float(-per[k][4][i] + per[k][5][i])
            gref += t.scale * (per[k][3].T @ per[k][2][i])
        dv *= sp.scale
        gref = sp.scale * gref
        if sp.ham:
            dv += 0.5 * float(xi @ xi - xi0 @ xi0)
            gref = gref + xi
        e = abs((val - val0) - dv) / (1. + abs(val) + abs(val0))
        if e > worst["value"]:
            worst["value"] = e
            if e > TOL:
                first.setdefault("value", ("E(xi)-E(xi0) = %.12g, -log p(d|xi) + log p(d|xi0) = %.12g, data %s"
                                           % (val - val0, dv, datas), "-"))
        e = rel(grad, gref)
        if e > worst["gradient"]:
            worst["gradient"] = e
            if e > TOL:
                first.setdefault("gradient", ("gradient %s != score %s, data %s" % (grad, gref, datas),
                                              block_of(sp, int(np.argmax(np.abs(grad - gref))))))
        if lin.metric is None:
            fails.append(("metric", "none", "no metric although want_metric=True"))
            break
        M = lay.dense(lin.metric)
        EM += w * M
        wsum += w
        if not sp.metric_data_dependent:
            e = rel(F.proj(M, T), F.proj(Fref, T))
            if e > worst["metric"]:
                worst["metric"] = e
                if e > TOL:
                    first.setdefault("metric", ("metric\n%s\n!= Fisher\n%s\n(data %s)" % (M, Fref, datas),
                                                where(sp, F.proj(M, T), F.proj(Fref, T)) if T is None else "tangent"))
        if sp.trafo:
            tr = lh.get_transformation()
            if tr is None:
                fails.append(("trafo", "none", "get_transformation() returned None"))
                break
            G = lay.gram(tr[1](ift.Linearization.make_var(f_xi)).jac)
            EJtJ += w * G
            Gat = lay.dense(lh.get_metric_at(f_xi))
            e = rel(F.proj(Gat, T), F.proj(G, T))
            if e > worst["get_metric_at"]:
                worst["get_metric_at"] = e
                if e > TOL:
                    first.setdefault("get_metric_at", ("get_metric_at(xi)\n%s\n!= J_T^T J_T\n%s" % (Gat, G),
                                                       where(sp, Gat, G) if T is None else "tangent"))
            if sp.trafo == "exact" or sp.metric_data_dependent:
                # exact pull-back (also: the documented 'same approximation' metric of use_full_fisher=False)
                e = rel(F.proj(G, T), F.proj(M, T))
                if e > worst["trafo"]:
                    worst["trafo"] = e
                    if e > TOL:
                        first.setdefault("trafo", ("J_T^T J_T\n%s\n!= metric\n%s" % (G, M),
                                                   where(sp, G, M) if T is None else "tangent"))
    for clause in ("value", "gradient", "metric", "trafo", "get_metric_at"):
        if clause in first:
            fails.append((clause, first[clause][1], first[clause][0]))
    if abs(wsum - 1.) > 1e-12:
        fails.append(("harness", "weights", "joint weights sum to %r" % wsum))
    if sp.metric_data_dependent:
        e = rel(EM, Fref)
        worst["metric"] = e
        if e > TOL:
            fails.append(("local-approximation-expectation", where(sp, EM, Fref),
                          "E_d[metric]\n%s\n!= Fisher\n%s" % (EM, Fref)))
    if sp.trafo == "expect":
        Fl = sp.scale * Fxi
        e = rel(EJtJ, Fl)
        worst["trafo"] = max(worst["trafo"], e)
        if e > TOL:
            fails.append(("local-approximation-expectation", where(sp, EJtJ, Fl),
                          "E_d[J_T^T J_T]\n%s\n!= Fisher\n%s" % (EJtJ, Fl)))
    info = dict(outcomes=len(joint), worst=worst, cls_ok=cls_ok, lhclass=type(lh).__name__,
                thetas=[list(map(float, th)) for th in thetas])
    return fails, info


LIBCLASS = {"gauss": "GaussianEnergy", "poisson": "PoissonianEnergy", "bernoulli": "BernoulliEnergy",
            "studentt": "StudentTEnergy", "invgamma": "InverseGammaEnergy", "categorical": "CategoricalEnergy",
            "sgamma": "_SpecialGammaEnergy", "vcg": "VariableCovarianceGaussianEnergy"}


def libname(kind, clause=""):
    base = LIBCLASS[kind.split("_")[0]]
    rest = kind.split("_")[1:]
    if clause == "local-approximation-expectation":
        rest = rest[:1]          # same transformation for use_full_fisher=True/False
    return base + ("[%s]" % ",".join(rest) if rest else "")


def refcheck(case):
    """Validate the reference itself: numpy scores / closed-form Fisher / model Jacobians against jax autodiff of
    jax.scipy.stats and scipy.stats, at two diagonal grid points."""
    import jax
    import jax.numpy as jnp
    from vf.ref import c11_families as F
    kind, npix, seed, tier = case["kind"], case["npix"], case["seed"], case["tier"]
    worst = {}
    nout = 0
    for wrap in ["plain"] + [w for w in ("lin", "link", "explin") if w in WRAPS_FOR[KINDS[kind]]]:
        sp = build_spec(kind, wrap, npix, seed, tier)
        for a in (0, 2):
            xi = xi_from_point(sp, [(a + j) % 4 for j in range(len(sp.axes))])
            xb = split(sp, xi)
            t = sp.terms[0]
            th = t.theta(xb)
            if wrap == "plain":
                res = F.validate(t.fam, th)
                nout += res.pop("outcomes")
                for k, v in res.items():
                    worst[k] = max(worst.get(k, 0.), v)
            # model value / Jacobian vs jax
            for bi, s in t.segs:
                x = jnp.asarray(xb[bi])
                worst["model_value"] = max(worst.get("model_value", 0.), rel(s.f(xb[bi]), np.asarray(s.f_jax(x))))
                worst["model_jac"] = max(worst.get("model_jac", 0.),
                                         rel(s.jac(xb[bi]), np.asarray(jax.jacfwd(s.f_jax)(x))))
    badk = {k: v for k, v in worst.items() if not v < 1e-11}
    if badk:
        return bad("reference model inconsistent: %s" % badk, finding_key="harness|reference|%s" % kind, detail=worst)
    return ok(nontrivial=True, outcome="refcheck", stats=dict(ref_outcomes=nout), detail=worst)


def run(case):
    kind, wrap, npix, seed, tier = case["kind"], case["wrap"], case["npix"], case["seed"], case.get("tier", "quick")
    import time
    t0 = time.process_time()
    if wrap == "refcheck":
        out = refcheck(case)
        if os.environ.get("VERIF_CPU_STAT"):       # development aid; keeps replays deterministic by default
            out.setdefault("stats", {})["cpu_s"] = time.process_time() - t0
        return out
    out = run_case(case)
    if os.environ.get("VERIF_CPU_STAT"):       # development aid; keeps replays deterministic by default
        out.setdefault("stats", {})["cpu_s"] = time.process_time() - t0
    return out


def run_case(case):
    kind, wrap, npix, seed, tier = case["kind"], case["wrap"], case["npix"], case["seed"], case.get("tier", "quick")
    sp = build_spec(kind, wrap, npix, seed, tier)
    pt = case["pt"]
    xi = xi_from_point(sp, pt)
    xi0 = xi_from_point(sp, [(i + 1) % 4 for i in pt])
    fails, info = check_point(sp, xi, xi0)
    stats = dict(lib_evaluations=2 * info.get("outcomes", 0), data_outcomes=info.get("outcomes", 0))
    if fails:
        clause, wh, msg = fails[0]
        if clause == "harness":
            return bad("harness: " + msg, finding_key="harness|" + wh, stats=stats)
        key = "%s|%s|%s" % (libname(kind, clause), clause, wh)
        # blame: does the plain energy already fail the same clause at the same theta?
        if wrap != "plain":
            try:
                sp0 = build_spec(kind, "plain", npix, seed, tier)
                th = np.asarray(info["thetas"][0]) if info else None
                if th is not None and th.size == sp0.D:
                    th0 = th * (1.05 if KINDS[kind] not in ("simplex", "unit") else 1.) + \
                        (0. if KINDS[kind] != "unit" else 0.02)
                    if KINDS[kind] == "simplex":
                        th0 = sp.terms[0].theta(split(sp, xi0))
                    f0, _ = check_point(sp0, th, th0)
                    same = [f for f in f0 if f[0] == clause]
                    if same:
                        key = "%s|%s|%s" % (libname(kind, clause), clause, same[0][1])
                    else:
                        key = "%s|%s|%s|only-via:%s" % (libname(kind, clause), clause, wh, wrap)
            except Exception as e:      # blame is best effort
                key += "|only-via:%s" % wrap
        return bad("%s/%s npix=%d: %s clause failed: %s" % (kind, wrap, npix, clause, msg[:1500]),
                   finding_key=key, stats=stats,
                   detail=dict(all_failed=[f[:2] for f in fails], worst=info.get("worst"), xi=list(map(float, xi))))
    if not info["cls_ok"]:
        return bad("wrapper %s produced operator class %s" % (wrap, info["lhclass"]),
                   finding_key="harness|wrapper-class|%s" % wrap, stats=stats)
    trafo = {None: "none", "exact": "exact", "expect": "expectation"}[sp.trafo]
    return ok(nontrivial=info["outcomes"] > 1,
              outcome="%s|%s|%s|trafo=%s" % (kind, wrap, info["lhclass"], trafo),
              stats=stats, detail=dict(worst=info["worst"], outcomes=info["outcomes"]))
