"""C31 Multi-grid index maps are consistent at every level.

Mode P (configuration enumeration).  A case is (grid configuration, level).  Inside the case EVERY index of that
level (and, for the refinement clauses, every index of the next level) is pushed through the library's index maps,
batched and (up to a stated cap per level) one index at a time, and compared with an independent geometric model
(vf/ref/c31_model.py: cells as explicit intervals that are subdivided in place; HEALPix from ducc0; flat / nested /
sparse numberings by explicit construction):

  shape                      level shape = model shape
  coord                      index2coord = cell centre; coord2index(index2coord(i)) = i; coord2index(p) = i for points
                             p strictly inside cell i
  volume                     index2volume = cell size; level totals as documented (1, 4 pi, r_max - r_min);
                             total never grows under refinement; children never outweigh their parent
  refine                     refined_indices = model; children(i) = the sub-cells of i; parent(children(i)) = i;
                             the children of all refined indices hit every index of the next level exactly once;
                             parent(j) of EVERY next-level j = model; resort() puts child values at the child's index
  neighbourhood              = model window (periodic wrap; open grids: entries inside the grid; HEALPix: ducc0's 8
                             neighbours in healpy order), every entry a valid index, relation symmetric
  flat                       index2flatindex/flatindex2index = model numbering for level shifts -1/0/+1, bijective
"""
import itertools
import os
import time
import traceback

import numpy as np

from vf.core import ok, bad, skip
from vf.ref import c31_model as M

ID = "C31"
LEVEL = "exploration"
JAX = True
RULE = ("case = (grid configuration, level); configurations = full products of the alphabets in _catalogue(): regular "
        "Grid (shape0 x split pattern x depth), OpenGrid (shape0 x splits x padding patterns x depth), HEALPixGrid "
        "(nside0 x split sequences over {1,4,16}), SimpleOpenGrid / LogGrid / BrokenLogGrid (min_shape x window x "
        "splits x depth x distances|radii), MGrid products incl. HPLogRGrid / HPBrokenLogRGrid and a nested product, "
        "FlatGrid {serial,nest} over all of these, SparseGrid over ALL consistent mappings of tiny grids plus mapping "
        "alphabets on larger ones; configurations whose finest level exceeds the tier's size cap are left out. Per "
        "case ALL indices of the level (and of the next level for refinement clauses) are checked, batched; the "
        "un-batched (1-d index) code path is run for every index up to a per-level cap and for the corner indices "
        "beyond. non-trivial = level has > 1 index or has children/parent (an index map really mapped something)")
ASSUMPTIONS = [
    "indices are passed as numpy int64 arrays of shape (ndim, N) / (ndim,), as in the library's own tests and kernels",
    "coordinates/volumes compared at 1e-11 relative (float64, closed forms); index results compared exactly",
    "OpenGrid neighbourhood entries that fall outside the grid are not specified by the library (its comment says "
    "'jax-array inspired out of bounds handling'; it wraps periodically): only range-validity is demanded there",
    "HEALPix 9-neighbourhood: where a pixel has only 7 neighbours the library substitutes some valid pixel; only "
    "validity of the substitute is demanded (duplicates are histogrammed, not flagged)",
    "SparseGrid: children / neighbours that are not part of the sparse grid have no defined array index; compared only "
    "where the model says the cell exists",
    "numeric parameters (radii, distances) are alphabet values selected by VERIF_SEED; structure is exhaustive",
    "BrokenLogGrid outside [r_min, r_max] (padding cells): C1 continuation (1/r below, linear above) as documented",
]

TOL = 1e-11
SINGLE_CAP = dict(quick=12, thorough=60)
SINGLE_CAP_HP = dict(quick=2, thorough=4)
SIZE_CAP = dict(quick=1600, thorough=8000)


# =====================================================================================  catalogue
def _fill(seed):
    rng = np.random.default_rng([3100, int(seed)])
    r = lambda lo, hi: float(np.round(rng.uniform(lo, hi), 2))
    return dict(radii=[(r(0.3, 0.9), r(5., 9.)), (r(1., 2.), r(2.5, 4.))],
                broken=[(r(0.3, 0.9), r(1.5, 2.5), r(8., 16.)), (1.0, 1.0, r(3., 5.))],
                dist=[r(0.3, 0.8), r(1.5, 2.5)])


def G(shape0, splits):
    return dict(k="grid", shape0=list(shape0), splits=[list(s) if isinstance(s, (list, tuple)) else s for s in splits])


def _open_valid(shape0, splits, padding):
    """the library documents (and asserts) that every level must keep a positive shape: premise of an OpenGrid"""
    shp = np.array(shape0)
    for sp, pd in zip(splits, padding):
        shp = np.array(sp) * (shp - 2 * np.array(pd))
        if np.any(shp <= 0):
            return False
    return True


def O(shape0, splits, padding):
    return dict(k="open", shape0=list(shape0), splits=[list(s) for s in splits], padding=[list(p) for p in padding])


def HP(nside0, splits):
    return dict(k="hp", nside0=nside0, splits=list(splits))


def SO(min_shape, window, splits, depth, dist=None, kind="simple", radii=None, desired_size0=None):
    return dict(k=kind, min_shape=list(min_shape), window=window, splits=splits, depth=depth, dist=dist, radii=radii,
                desired_size0=desired_size0)


def P(*grids, nested=False):
    return dict(k="prod", grids=list(grids))


def HPR(kind, nside0, nside, r_min_shape, radii, window=3):
    return dict(k="hpr", kind=kind, nside0=nside0, nside=nside, r_min_shape=r_min_shape, radii=list(radii), window=window)


def F(grid, ordering):
    return dict(k="flat", grid=grid, ordering=ordering)


def S(grid, mapping):
    return dict(k="sparse", grid=grid, mapping=[list(map(int, m)) for m in mapping])


def _split_patterns(nd, depth):
    """name -> list (per level) of per-axis splits"""
    aniso = [1, 2, 3][:nd] if nd > 1 else [2]
    out = {"2": [[2] * nd] * depth, "3": [[3] * nd] * depth}
    if nd > 1:
        out["aniso"] = [aniso] * depth
        out["aniso-rev"] = [aniso[::-1]] * depth
    if depth >= 2:
        out["mixed"] = [[2, 3, 2][l % 3:l % 3 + 1] * nd for l in range(depth)]
        if nd > 1:
            out["mixed-aniso"] = [(aniso if l % 2 == 0 else [2] * nd) for l in range(depth)]
    return out


def _sparse_mappings_all(rg):
    """every consistent sparse mapping of a reference grid (nest numbering): level 0 = any non-empty subset of cells,
    level l+1 = all children of any non-empty subset of level l."""
    num = M.Numbering(rg, "nest")
    out = []

    def rec(l, maps):
        if l == rg.depth:
            out.append(maps)
            return
        cur = maps[-1]
        S_ = rg.level(l).nchildren()
        for k in range(1, len(cur) + 1):
            for sub in itertools.combinations(cur, k):
                nxt = sorted(f * S_ + c for f in sub for c in range(S_))
                rec(l + 1, maps + [nxt])
    n0 = rg.level(0).size
    for k in range(1, n0 + 1):
        for sub in itertools.combinations(range(n0), k):
            rec(0, [list(sub)])
    del num
    return out


def _sparse_mappings_alphabet(rg, quick=False):
    """mapping alphabet for larger grids: which cells exist at level 0 x which existing cells get refined"""
    n0 = rg.level(0).size
    lvl0 = {"all": list(range(n0)), "even": list(range(0, n0, 2)), "last": [n0 - 1]}
    pick = {"all": lambda c: c, "first-half": lambda c: c[:max(1, len(c) // 2)], "odd-pos": lambda c: c[1::2] or c[:1]}
    out = []
    for (n0l, m0), (pl, pf) in itertools.product(lvl0.items(), pick.items()):
        if quick and n0l == "last":
            continue
        maps = [m0]
        for l in range(rg.depth):
            S_ = rg.level(l).nchildren()
            maps.append(sorted(f * S_ + c for f in pf(maps[-1]) for c in range(S_)))
        out.append(("%s/%s" % (n0l, pl), maps))
    return out


def _catalogue(tier, seed):
    """-> list of (rank, label, spec)"""
    q = tier == "quick"
    fl = _fill(seed)
    out = []
    maxd = 2 if q else 3
    # ---- regular grids
    for shape0 in ([2], [3], [2, 3], [1, 2, 3]):
        out.append((0, "Grid%s depth0" % shape0, G(shape0, [])))
        for depth in range(1, maxd + 1):
            for name, sp in _split_patterns(len(shape0), depth).items():
                out.append((1, "Grid%s %s d%d" % (shape0, name, depth), G(shape0, sp)))
    # int / broadcast constructor forms
    out.append((1, "Grid[2,3] splits-as-ints", dict(k="grid", shape0=[2, 3], splits=[2, 3])))
    # ---- open grids
    for shape0, splits_l, pads_l in (
            ([3], ([2], [3]), ([0], [1])), ([4], ([2], [3]), ([0], [1])), ([5], ([2], [3]), ([1], [2])),
            ([4, 5], ([2, 2], [1, 2], [3, 2]), ([1, 1], [0, 2], [1, 0])),
            ([4, 9], ([1, 2],), ([0, 2],))):
        for depth in range(1, (maxd if len(shape0) == 1 else 2) + 1):
            for sp, pd in itertools.product(splits_l, pads_l):
                out.append((2, "Open%s s%s p%s d%d" % (shape0, sp, pd, depth), O(shape0, [sp] * depth, [pd] * depth)))
            if depth >= 2:      # level-varying padding / splits
                sp, pd = splits_l[0], pads_l
                out.append((2, "Open%s s%s p-alternating d%d" % (shape0, sp, depth),
                            O(shape0, [sp] * depth, [pd[l % len(pd)] for l in range(depth)])))
                out.append((2, "Open%s s-alternating p%s d%d" % (shape0, pd[-1], depth),
                            O(shape0, [splits_l[l % len(splits_l)] for l in range(depth)], [pd[-1]] * depth)))
    # ---- HEALPix
    hp = [(1, []), (1, [4]), (1, [4, 4]), (1, [16]), (2, [])]
    if not q:
        hp += [(1, [1, 4]), (2, [4]), (2, [4, 4]), (2, [16]), (1, [4, 4, 4]), (1, [4, 16]), (2, [4, 1])]
    for ns, sp in hp:
        out.append((3, "HEALPix nside0=%d s%s" % (ns, sp), HP(ns, sp)))
    # ---- simple open / log / broken log
    for ms in ([3], [5], [4, 3]):
        wins = (3, 5) if len(ms) == 1 else (3, [3, 1])
        ws = list(zip(wins, (2, 3))) if q else list(itertools.product(wins, (2, 3)))
        for (window, splits), depth in itertools.product(ws, range(0, 3)):
            for dist in (None, fl["dist"][:len(ms)]):
                out.append((4, "SimpleOpen%s w%s s%s d%d dist=%s" % (ms, window, splits, depth, dist),
                            SO(ms, window, splits, depth, dist)))
    out.append((4, "SimpleOpen[12] depth=auto", SO([12], 3, 2, None, None, desired_size0=4)))
    out.append((4, "SimpleOpen[5] splits-per-level", SO([5], 3, [[2], [3]], None, None)))
    wt = SO([4, 3], "tuple33", 2, 1, None)       # window_size: Union[int, Tuple[int]] (documented type)
    wt["all_levels"] = True
    out.append((4, "SimpleOpen[4,3] window-tuple", wt))
    for ms in ([3], [6]):
        ws = [(3, 2), (5, 3)] if q else list(itertools.product((3, 5), (2, 3)))
        for (window, splits), depth in itertools.product(ws, range(0, 3)):
            for rr in fl["radii"]:
                out.append((5, "Log%s w%s s%s d%d r%s" % (ms, window, splits, depth, rr),
                            SO(ms, window, splits, depth, None, kind="log", radii=list(rr))))
            for rr in (fl["broken"] if (not q or ms == [3]) else []):
                out.append((5, "BrokenLog%s w%s s%s d%d r%s" % (ms, window, splits, depth, rr),
                            SO(ms, window, splits, depth, None, kind="blog", radii=list(rr))))
    # ---- products
    g1 = G([2], [[2], [2]])
    g1b = G([3], [[3], [2]])
    g2 = G([2, 3], [[1, 2], [2, 1]])
    o1 = O([4], [[2], [2]], [[1], [1]])
    h1 = HP(1, [4, 4])
    prods = [("Grid x Grid", P(g1, g1b)), ("Grid x Grid2d", P(g1, g2)), ("Open x Grid", P(o1, g1)),
             ("Grid x HEALPix", P(g1, h1) if not q else P(G([2], [[2]]), HP(1, [4])))]
    if not q:
        prods += [("HEALPix x Open", P(h1, o1)),
                  ("Grid x HEALPix x Grid2d", P(G([3], [[2], [2]]), h1, G([3, 2], [[1, 2], [1, 2]]))),
                  ("(Grid x Open) x Grid nested", P(P(g1, o1), g1b)),
                  ("Log x Grid", P(SO([3], 3, 2, 2, None, kind="log", radii=list(fl["radii"][0])), g1))]
    for lb, p in prods:
        out.append((6, "MGrid " + lb, p))
    for kind, rr in (("log", fl["radii"][0]), ("blog", fl["broken"][0])):
        out.append((6, "HP%sRGrid nside0=1 nside=2" % kind, HPR(kind, 1, 2, 3, rr)))
        if not q:
            out.append((6, "HP%sRGrid nside0=1 nside=1" % kind, HPR(kind, 1, 1, 3, rr)))
            out.append((6, "HP%sRGrid nside0=1 nside=4 w5" % kind, HPR(kind, 1, 4, 4, rr, window=5)))
    # ---- flat grids
    inners = [("Grid1d", G([3], [[2], [2]])), ("Grid2d", G([2, 3], [[2, 2], [1, 2]])),
              ("Grid2d-mixed", G([3, 2], [[2, 2], [2, 3]])),
              ("HEALPix", HP(1, [4])), ("Grid x Grid", P(g1, g1b)),
              # >= 3 index axes with pairwise different trailing lengths: serial strides (b*c, c, 1) vs (b*c, b, 1)
              ("Grid3d-223", G([2, 2, 3], [[1, 2, 1]])), ("Grid3d-123", G([1, 2, 3], [[1, 2, 3]])),
              ("Grid3d-234", G([2, 3, 4], [[2, 1, 1]])),
              ("HEALPix x Grid2d", P(HP(1, [4]), G([2, 3], [[1, 2]])))]
    if not q:
        inners += [("Grid3d-223-d2", G([2, 2, 3], [[1, 2, 1], [2, 1, 2]])), ("Grid x HEALPix", P(g1, HP(1, [4, 4]))),
                   ("Grid2d-d3", G([2, 3], [[2, 2], [1, 2], [3, 1]])), ("HEALPix-d2", h1), ("Grid1d-d3", G([2], [[2], [3], [2]]))]
    for (lb, g), ordering in itertools.product(inners, ("serial", "nest")):
        out.append((7, "Flat-%s %s" % (ordering, lb), F(g, ordering)))
    for lb, g in ((("Open1d", o1), ("Open2d", O([4, 5], [[2, 2]] * 2, [[1, 1]] * 2)),
                   ("Open3d-345", O([3, 4, 5], [[2, 1, 2]], [[1, 1, 1]]))) + (() if q else (
            ("Open3d-456-d2", O([4, 5, 6], [[1, 2, 1], [2, 1, 1]], [[1, 1, 2], [0, 1, 0]])),
            ("Open x Grid", P(o1, g1)), ("SimpleOpen", SO([3], 3, 2, 2, None))))):
        out.append((7, "Flat-serial %s" % lb, F(g, "serial")))
    out.append((7, "Flat-nest Open1d (refused)", F(o1, "nest")))
    # a flat grid as a factor of a product
    for ordering in ("serial", "nest"):
        out.append((8, "MGrid Flat-%s(Grid2d) x Grid" % ordering, P(F(G([2, 3], [[2, 2], [1, 2]]), ordering), g1)))
    # ---- sparse grids
    tiny = [("Grid[2] s2 d2", G([2], [[2], [2]])), ("Grid[2,1] s(2,2) d1", G([2, 1], [[2, 2]]))]
    if not q:
        tiny += [("Grid[2,2] s2 d1", G([2, 2], [[2, 2]])), ("Grid[3] s(2,3) d2", G([3], [[2], [3]]))]
    for lb, g in tiny:
        for mp in _sparse_mappings_all(_ref(g)):
            sp_ = S(g, mp)
            sp_["all_levels"] = True          # tiny: one case checks every level
            out.append((9, "Sparse %s %s" % (lb, mp), sp_))
    bigger = [("Grid2d", G([2, 3], [[2, 2], [1, 2]])), ("HEALPix", HP(1, [4, 4]) if not q else HP(1, [4]))]
    if not q:
        bigger.append(("Grid x Grid", P(g1, g1b)))
    for lb, g in bigger:
        for ml, mp in _sparse_mappings_alphabet(_ref(g), q):
            out.append((9, "Sparse %s %s" % (lb, ml), S(g, mp)))
    out.append((9, "Sparse over Flat-nest", S(F(g1, "nest"), [[0, 1], [0, 1, 2, 3], list(range(8))])))
    out.append((9, "Sparse over Flat-serial (refused)", S(F(g1, "serial"), [[0, 1], [0, 1, 2, 3], list(range(8))])))
    out.append((9, "Sparse over Open (refused)", S(o1, [[0, 1, 2, 3], [0, 1, 2, 3], list(range(4))])))
    return out


def _finest_size(spec):
    try:
        r = _ref(spec)
        return max(r.level(l).size for l in range(r.depth + 1))
    except Exception:      # noqa  (configurations that need the library to be sized: small by construction)
        return 1


def cases(tier, seed):
    out = []
    seen = set()
    for rank, label, spec in _catalogue(tier, seed):
        if label in seen:
            continue
        seen.add(label)
        if spec["k"] == "open" and not _open_valid(spec["shape0"], spec["splits"], spec["padding"]):
            continue
        fs = _finest_size(spec)
        if fs > SIZE_CAP[tier]:
            continue
        depth = _depth(spec)
        if depth is None or _expected_refusal(spec) is not None or spec.get("all_levels"):
            out.append((rank, fs, 0, dict(label=label, fam=fam(spec).split("(")[0], grid=spec, level="all", tier=tier)))
            continue
        for l in range(depth + 1):
            out.append((rank, fs, l, dict(label=label, fam=fam(spec).split("(")[0], grid=spec, level=l, tier=tier)))
    out.sort(key=lambda t: (t[0], t[1], t[2], t[3]["label"]))
    return [t[3] for t in out]


def _depth(s):
    k = s["k"]
    if k in ("grid", "open", "hp"):
        return len(s["splits"])
    if k in ("simple", "log", "blog"):
        if s["depth"] is None:
            return None if not isinstance(s["splits"], list) else len(s["splits"])
        return s["depth"]
    if k == "prod":
        return _depth(s["grids"][0])
    if k == "hpr":
        return int(round(np.log2(s["nside"] / s["nside0"])))
    if k in ("flat", "sparse"):
        return _depth(s["grid"])
    raise ValueError(k)


# =====================================================================================  reference / library builders
def _simple_params(s, lib=None):
    """(shape0, splits, padding) of a SimpleOpenGrid-like spec.  shape0 (and an automatic depth) are the factory's
    free choice: taken from the constructed object when available, else from the documented recipe."""
    nd = len(s["min_shape"])
    depth = s["depth"]
    sp = s["splits"]
    if isinstance(sp, list):
        splits = [list(np.broadcast_to(x, (nd,))) for x in sp]
        depth = len(splits)
    else:
        if depth is None:
            depth = lib.depth
        splits = [[sp] * nd] * depth
    w = s["window"]
    w = [3, 3] if w == "tuple33" else w
    pad = list(np.broadcast_to((np.asarray(w) - 1) // 2, (nd,)))
    padding = [pad] * depth
    if lib is not None:
        shape0 = [int(x) for x in lib.shape0]
    else:
        tot = np.prod(np.array(splits, dtype=float).reshape(depth, nd), axis=0) if depth else np.ones(nd)
        mn = np.min(np.array(splits).reshape(depth, nd), axis=0) if depth else np.ones(nd)
        shape0 = [int(x) for x in np.ceil(np.array(s["min_shape"]) / tot + (2 + 2 / mn) * np.array(pad) * (depth > 0) + 1)]
    return shape0, splits, padding


def _ref(s, lib=None):
    k = s["k"]
    if k == "grid":
        nd = len(s["shape0"])
        return M.BoxGrid(s["shape0"], [list(np.broadcast_to(x, (nd,))) for x in s["splits"]])
    if k == "open":
        return M.BoxGrid(s["shape0"], s["splits"], s["padding"])
    if k == "hp":
        return M.HPGrid(s["nside0"], s["splits"])
    if k in ("simple", "log", "blog"):
        shape0, splits, padding = _simple_params(s, lib)
        umap = None
        dist = s.get("dist")
        if k == "log":
            umap = M.UMap("log", r_min=s["radii"][0], r_max=s["radii"][1])
        elif k == "blog":
            umap = M.UMap("broken", r_min=s["radii"][0], r_linthresh=s["radii"][1], r_max=s["radii"][2])
        return M.BoxGrid(shape0, splits, padding, anchor="fine", dist=dist, umap=umap)
    if k == "prod":
        libs = lib.grids if lib is not None else [None] * len(s["grids"])
        return M.ProdGrid([_ref(g, lg) for g, lg in zip(s["grids"], libs)])
    if k == "hpr":
        d = _depth(s)
        rs = SO([s["r_min_shape"]], s["window"], 2, d, None, kind=s["kind"], radii=s["radii"])
        libs = lib.grids if lib is not None else [None, None]
        return M.ProdGrid([_ref(HP(s["nside0"], [4] * d), libs[0]), _ref(rs, libs[1])], radial=True)
    if k == "flat":
        return M.FlatGrid(_ref(s["grid"], lib.grid if lib is not None else None), s["ordering"])
    if k == "sparse":
        inner = s["grid"]["grid"] if s["grid"]["k"] == "flat" else s["grid"]
        return M.FlatGrid(_ref(inner, lib.grid if lib is not None else None), "nest", sel=s["mapping"])
    raise ValueError(k)


def _lib(s):
    from nifty.re.multi_grid import grid as lg, grid_impl as li
    k = s["k"]
    tt = lambda x: tuple(tuple(y) if isinstance(y, list) else y for y in x)
    if k == "grid":
        return lg.Grid(shape0=tuple(s["shape0"]), splits=tt(s["splits"]))
    if k == "open":
        return lg.OpenGrid(shape0=tuple(s["shape0"]), splits=tt(s["splits"]), padding=tt(s["padding"]))
    if k == "hp":
        sp = s["splits"]
        if all(x == 4 for x in sp):
            return li.HEALPixGrid(nside0=s["nside0"], depth=len(sp))
        return li.HEALPixGrid(nside0=s["nside0"], depth=len(sp), splits=tuple(sp))
    if k in ("simple", "log", "blog"):
        w = s["window"]
        w = (3, 3) if w == "tuple33" else (np.array(w) if isinstance(w, list) else w)
        sp = tt(s["splits"]) if isinstance(s["splits"], list) else s["splits"]
        kw = dict(min_shape=tuple(s["min_shape"]), window_size=w, splits=sp, depth=s["depth"])
        if s.get("desired_size0") is not None:
            kw["desired_size0"] = s["desired_size0"]
        if k == "simple":
            return li.SimpleOpenGrid(distances=None if s["dist"] is None else tuple(s["dist"]), **kw)
        if k == "log":
            return li.LogGrid(r_min=s["radii"][0], r_max=s["radii"][1], **kw)
        return li.BrokenLogGrid(r_min=s["radii"][0], r_linthresh=s["radii"][1], r_max=s["radii"][2], **kw)
    if k == "prod":
        return lg.MGrid(*[_lib(g) for g in s["grids"]])
    if k == "hpr":
        if s["kind"] == "log":
            return li.HPLogRGrid(nside=s["nside"], r_min_shape=s["r_min_shape"], r_min=s["radii"][0], r_max=s["radii"][1],
                                 r_window_size=s["window"], nside0=s["nside0"])
        return li.HPBrokenLogRGrid(nside=s["nside"], r_min_shape=s["r_min_shape"], r_min=s["radii"][0],
                                   r_linthresh=s["radii"][1], r_max=s["radii"][2], r_window_size=s["window"],
                                   nside0=s["nside0"])
    if k == "flat":
        return lg.FlatGrid(_lib(s["grid"]), ordering=s["ordering"])
    if k == "sparse":
        return lg.SparseGrid(_lib(s["grid"]), tuple(np.array(m, dtype=np.int64) for m in s["mapping"]))
    raise ValueError(k)


def fam(s):
    k = s["k"]
    if k in ("grid", "open", "hp", "simple", "log", "blog"):
        return dict(grid="Grid", open="OpenGrid", hp="HEALPixGrid", simple="SimpleOpenGrid", log="LogGrid",
                    blog="BrokenLogGrid")[k]
    if k == "prod":
        return "MGrid(%s)" % ",".join(sorted(set(fam(g) for g in s["grids"])))
    if k == "hpr":
        return "HPLogRGrid" if s["kind"] == "log" else "HPBrokenLogRGrid"
    if k == "flat":
        return "FlatGrid-%s(%s)" % (s["ordering"], fam(s["grid"]))
    if k == "sparse":
        return "SparseGrid(%s)" % fam(s["grid"])
    raise ValueError(k)


def _expected_refusal(s):
    """documented rejections: nest ordering over open grids, sparse over serial flat grids"""
    def has_open(g):
        if g["k"] in ("open", "simple", "log", "blog", "hpr"):
            return True
        if g["k"] == "prod":
            return any(has_open(x) for x in g["grids"])
        if g["k"] in ("flat", "sparse"):
            return has_open(g["grid"])
        return False
    if s["k"] == "flat" and s["ordering"] == "nest" and has_open(s["grid"]):
        return "nest ordering over an open grid"
    if s["k"] == "sparse":
        if s["grid"]["k"] == "flat" and s["grid"]["ordering"] == "serial":
            return "sparse grid over a serial flat grid"
        if has_open(s["grid"]):
            return "sparse (nest) grid over an open grid"
    return None


# =====================================================================================  windows
def _windows(s, rl, tier):
    """neighbourhood windows for a level: list of (label, model window, library window)"""
    k = s["k"]
    if k in ("flat", "sparse"):
        g = s["grid"]
        return _windows(g["grid"] if (k == "sparse" and g["k"] == "flat") else g, rl.inner, tier)
    if k == "hp":
        ws = [1, 9] + ([rl.size] if rl.size <= 48 else [])
        return [("w%d" % w, [w], (w,)) for w in ws]
    if k in ("prod", "hpr"):
        subs = s["grids"] if k == "prod" else [HP(1, []), SO([1], 3, 2, 0, kind="log")]
        per = [_windows(g, p, tier) for g, p in zip(subs, rl.parts)]
        n = max(len(p) for p in per)
        out = []
        for i in range(n):         # pair the i-th window of every factor (all factor alphabets get exhausted)
            sel = [p[i % len(p)] for p in per]
            lw = []
            for x in sel:
                lw += list(x[2])
            out.append(("x".join(x[0] for x in sel), [x[1] for x in sel], tuple(lw)))
        return out
    nd = rl.ndim
    al = [[3] * nd, [2] * nd, ([3, 2, 1] * nd)[:nd] if nd > 1 else [5]]
    if tier != "quick":
        al += [[1] * nd, [5] * nd]
    out, seen = [], set()
    for w in al:
        if tuple(w) not in seen:
            seen.add(tuple(w))
            out.append(("w" + "".join(map(str, w)), list(w), tuple(w)))
    return out


# =====================================================================================  one case
class Fail(Exception):
    def __init__(self, clause, symptom, what, **detail):
        super().__init__(what)
        self.clause, self.symptom, self.what, self.detail = clause, symptom, what, detail


def _np(x):
    return np.asarray(x)


def _close(a, b):
    a, b = np.asarray(a, dtype=np.float64), np.asarray(b, dtype=np.float64)
    if a.shape != b.shape:
        return False, np.inf
    if a.size == 0:
        return True, 0.
    err = np.abs(a - b) / (1. + np.abs(b))
    err = np.where(np.isfinite(err), err, np.inf)
    return bool(np.all(err <= TOL)), float(err.max())


def _first_bad(mask):
    w = np.argwhere(mask)
    return [int(x) for x in w[0]] if len(w) else None


def _pad(x):
    """pad the batch axis (axis 1) to the next power of 8 by repeating the last column: the library is eager JAX,
    every new array shape costs a compilation of every primitive; padding keeps the number of distinct shapes small"""
    N = x.shape[1]
    P = 8
    while P < N:
        P *= 8
    if P == N:
        return x
    return np.concatenate([x, np.repeat(x[:, -1:], P - N, axis=1)], axis=1)


def _bcall(fn, x, *a, **k):
    """call a batched library map on a (d, N) array through the padded batch; result cut back to N columns"""
    N = x.shape[1]
    xp = _pad(x)
    out = _np(fn(xp, *a, **k))
    if out.ndim >= 2 and out.shape[1] == xp.shape[1] and xp.shape[1] != N:
        out = out[:, :N]
    elif out.ndim == 1 and out.shape[0] == xp.shape[1] and xp.shape[1] != N:
        out = out[:N]
    return out


def _vol(lv, idx):
    """library volumes broadcast to one number per index"""
    v = _bcall(lv.index2volume, idx) if idx.ndim > 1 else _np(lv.index2volume(idx))
    N = idx.shape[1] if idx.ndim > 1 else 1
    try:
        v = np.broadcast_to(v, (1, N) if idx.ndim > 1 else (1,))
    except ValueError:
        raise Fail("volume", "shape", "index2volume returned shape %s for index shape %s" % (v.shape, idx.shape))
    return v.reshape(-1).astype(np.float64)


def _documented_total(s, rg, l):
    """documented total volume of level l (None: not documented)"""
    k = s["k"]
    if k == "grid":
        return 1.
    if k == "open":
        return 1. if l == 0 else None
    if k == "hp":
        return 4 * np.pi
    if k == "simple" and l == rg.depth:
        lv = rg.level(l)
        return 1. if s["dist"] is None else float(np.prod(lv.shape * np.broadcast_to(s["dist"], lv.shape.shape)))
    if k in ("log", "blog") and l == rg.depth:
        return s["radii"][-1] - s["radii"][0]
    if k == "hpr" and l == rg.depth:
        return 4 * np.pi * (s["radii"][-1] ** 3 - s["radii"][0] ** 3) / 3.
    if k == "flat":
        return _documented_total(s["grid"], rg.grid, l)
    if k == "prod":
        ts = [_documented_total(g, r, l) for g, r in zip(s["grids"], rg.grids)]
        return None if any(t is None for t in ts) else float(np.prod(ts))
    return None


_CACHE = [False]


def _cache_dir(pid):
    import tempfile
    return os.path.join(tempfile.gettempdir(), "vf_c31_jaxcache_%d" % pid)


def _shared_compile_cache():
    """The library is eager JAX: the cost of a case is compiling tiny XLA programs for new shapes.  Pool workers share
    one per-run on-disk compilation cache (removed by finish()); results are unaffected."""
    if _CACHE[0]:
        return
    _CACHE[0] = True
    try:
        import multiprocessing as mp
        if mp.current_process().name == "MainProcess":
            return
        import jax
        jax.config.update("jax_compilation_cache_dir", _cache_dir(os.getppid()))
        jax.config.update("jax_persistent_cache_min_compile_time_secs", 0)
        jax.config.update("jax_persistent_cache_min_entry_size_bytes", -1)
    except Exception:      # noqa - the cache is only an accelerator
        pass


def finish(run):
    import shutil
    shutil.rmtree(_cache_dir(os.getpid()), ignore_errors=True)
    return {}


def run(case):
    _shared_compile_cache()
    try:
        out = _run(case)
    except Fail as f:
        s = case["grid"]
        out = bad("%s [%s level %s]: %s" % (fam(s), case["label"], case["level"], f.what),
                  finding_key="%s|%s|%s" % (fam(s), f.clause, f.symptom), detail=f.detail)
    return out


def _where(e):
    loc = "?"
    for fs in traceback.extract_tb(e.__traceback__):
        if os.sep + "nifty" + os.sep in fs.filename:
            loc = "%s:%s" % (os.path.basename(fs.filename), fs.name)
    return loc


def _run(case):
    import warnings
    warnings.simplefilter("ignore")
    s = case["grid"]
    refusal = _expected_refusal(s)
    try:
        g = _lib(s)
    except Exception as e:     # noqa
        if refusal is not None and isinstance(e, (ValueError, TypeError, NotImplementedError)):
            return ok(nontrivial=True, outcome="%s|refused(%s)" % (fam(s), refusal))
        raise Fail("construct", "%s@%s" % (type(e).__name__, _where(e)),
                   "constructing a documented configuration raised %r" % (e,))
    if refusal is not None:
        raise Fail("construct", "accepted-undocumented", "library accepted %s although it documents a refusal" % refusal)
    rg = _ref(s, g)
    if g.depth != rg.depth:
        raise Fail("shape", "depth", "depth %s != model %s" % (g.depth, rg.depth))
    levels = range(rg.depth + 1) if case["level"] == "all" else [int(case["level"])]
    stats = dict(indices=0, lib_calls=0, single_index_calls=0, nb_unspecified=0, hp_fillins=0, hp_dup_fillins=0)
    tags = set()
    for l in levels:
        _check_level(s, g, rg, l, stats, tags, case)
    nontrivial = stats["indices"] > 1 or rg.depth > 0
    return ok(nontrivial=nontrivial, outcome="%s|%s" % (fam(s), "+".join(sorted(tags))), stats=stats)


def _sizecap(s, tier):
    slow = any(t in repr(s) for t in ("'hp'", "'hpr'", "'blog'"))    # every call re-traces (lax.cond / piecewise)
    return (SINGLE_CAP_HP if slow else SINGLE_CAP)[tier]


def _check_level(s, g, rg, l, stats, tags, case):
    tier = "thorough" if case.get("tier") == "thorough" else "quick"
    lv, rl = g.at(l), rg.level(l)
    nd = rl.ndim
    # ------------------------------------------------------------------ shape
    if tuple(int(x) for x in lv.shape) != tuple(int(x) for x in rl.shape):
        raise Fail("shape", "level-shape", "shape %s != model %s" % (list(lv.shape), list(rl.shape)))
    if int(lv.size) != rl.size or int(lv.ndim) != nd:
        raise Fail("shape", "size", "size/ndim %s/%s != model %s/%s" % (lv.size, lv.ndim, rl.size, nd))
    if s["k"] in ("simple", "log", "blog") and l == rg.depth:
        if np.any(rl.shape < np.array(s["min_shape"])):
            raise Fail("shape", "min_shape", "final shape %s < min_shape %s" % (list(rl.shape), s["min_shape"]))
    A = rl.all_indices()
    N = A.shape[1]
    stats["indices"] += N
    tags.add("coord")
    # ------------------------------------------------------------------ coordinates
    C = _bcall(lv.index2coord, A)
    Cref = rl.coord(A)
    stats["lib_calls"] += 1
    good, err = _close(C, Cref)
    if not good:
        k = _first_bad(np.abs(C - Cref) > TOL * (1 + np.abs(Cref))) if C.shape == Cref.shape else None
        raise Fail("coord", "index2coord", "index2coord differs from the cell centre (rel err %.3g, shape %s vs %s)%s"
                   % (err, C.shape, Cref.shape,
                      "" if k is None else "; index %s: %s, model %s" % (A[:, k[1]].tolist(), C[:, k[1]].tolist(), Cref[:, k[1]].tolist())))
    back = _bcall(lv.coord2index, C)
    stats["lib_calls"] += 1
    if back.shape != A.shape or not np.array_equal(back.astype(np.int64), A):
        k = _first_bad(back.astype(np.int64) != A) if back.shape == A.shape else None
        raise Fail("coord", "roundtrip", "coord2index(index2coord(i)) != i%s"
                   % ("" if k is None else " at i=%s -> %s" % (A[:, k[1]].tolist(), back[:, k[1]].tolist())))
    for p in rl.probes(A):
        b2 = _bcall(lv.coord2index, p)
        stats["lib_calls"] += 1
        if b2.shape != A.shape or not np.array_equal(b2.astype(np.int64), A):
            k = _first_bad(b2.astype(np.int64) != A)
            raise Fail("coord", "point-in-cell", "coord2index of a point inside cell %s gives %s"
                       % (A[:, k[1]].tolist(), b2[:, k[1]].tolist()))
    # ------------------------------------------------------------------ volume
    V = _vol(lv, A)
    Vref = rl.volume(A)
    good, err = _close(V, Vref)
    if not good:
        k = int(np.argmax(np.abs(V - Vref) / (1 + np.abs(Vref))))
        raise Fail("volume", "index2volume", "index2volume differs from the cell size (rel err %.3g): index %s: %.12g, model %.12g"
                   % (err, A[:, k].tolist(), V[k], Vref[k]))
    if np.any(V <= 0):
        raise Fail("volume", "non-positive", "non-positive volume")
    tot = float(V.sum())
    doc = _documented_total(s, rg, l)
    if doc is not None:
        tags.add("voltotal")
        if abs(tot - doc) > 1e-9 * max(1., abs(doc)):
            raise Fail("volume", "documented-total", "total volume %.12g, documented %.12g" % (tot, doc))
    has_children = l < rg.depth
    # ------------------------------------------------------------------ refinement
    if has_children:
        tags.add("refine")
        lv1, rl1 = g.at(l + 1), rg.level(l + 1)
        A1 = rl1.all_indices()
        R = _np(lv.refined_indices())
        Rref = rl.refined()
        Rf = R.reshape(R.shape[0], -1).astype(np.int64)
        if Rf.shape != Rref.shape or not np.array_equal(Rf, Rref):
            raise Fail("refine", "refined_indices", "refined_indices() = %s..., model %s..." % (Rf[:, :6].tolist(), Rref[:, :6].tolist()))
        isr = _bcall(lv._is_index_refined, A).astype(bool)
        if isr.shape != (N,) or not np.array_equal(isr, rl.is_refined(A)):
            raise Fail("refine", "is_index_refined", "_is_index_refined disagrees with the model: %s vs %s"
                       % (isr.astype(int).tolist()[:12], rl.is_refined(A).astype(int).tolist()[:12]))
        ch = _bcall(lv.children, Rref)
        stats["lib_calls"] += 3
        nR = Rref.shape[1]
        chf = ch.reshape(ch.shape[0], nR, -1).astype(np.int64)
        chref = rl.children(Rref)
        if chf.shape != chref.shape or not np.array_equal(chf, chref):
            k = _first_bad(chf != chref) if chf.shape == chref.shape else None
            raise Fail("refine", "children", "children differ from the model (shape %s vs %s)%s" % (
                chf.shape, chref.shape, "" if k is None else "; parent %s: %s, model %s" % (
                    Rref[:, k[1]].tolist(), chf[:, k[1]].T.tolist()[:6], chref[:, k[1]].T.tolist()[:6])))
        # parent of every child is the index itself
        par = _bcall(lv1.parent, chf.reshape(chf.shape[0], -1)).astype(np.int64).reshape(chf.shape)
        stats["lib_calls"] += 1
        if not np.array_equal(par, np.broadcast_to(Rref[:, :, None], chf.shape)):
            k = _first_bad(par != Rref[:, :, None])
            raise Fail("refine", "parent-of-child", "parent(children(i)) != i for i=%s: child %s has parent %s"
                       % (Rref[:, k[1]].tolist(), chf[:, k[1], k[2]].tolist(), par[:, k[1], k[2]].tolist()))
        # the children of all refined indices partition the next level
        key = lambda a: np.ravel_multi_index(tuple(a), tuple(int(x) for x in rl1.shape))
        if np.any(chf < 0) or np.any(chf >= rl1.shape[:, None, None]):
            raise Fail("refine", "child-out-of-range", "a child index lies outside the next level")
        cnt = np.bincount(key(chf.reshape(chf.shape[0], -1)), minlength=rl1.size)
        if not np.all(cnt == 1):
            j = int(np.argmax(cnt != 1))
            raise Fail("refine", "partition", "next-level index %s is the child of %d indices (must be exactly 1)"
                       % (list(np.unravel_index(j, tuple(int(x) for x in rl1.shape))), int(cnt[j])))
        # parent of EVERY next-level index = model
        pall = _bcall(lv1.parent, A1).astype(np.int64)
        stats["lib_calls"] += 1
        if pall.shape != A1.shape or not np.array_equal(pall, rl1_parent(rl, rl1, A1)):
            k = _first_bad(pall != rl1_parent(rl, rl1, A1)) if pall.shape == A1.shape else None
            raise Fail("refine", "parent", "parent differs from the model%s" % (
                "" if k is None else ": parent(%s) = %s, model %s" % (A1[:, k[1]].tolist(), pall[:, k[1]].tolist(),
                                                                     rl1_parent(rl, rl1, A1)[:, k[1]].tolist())))
        # refinement never creates volume
        V1 = _vol(lv1, A1)
        if V1.sum() > tot * (1 + 1e-9):
            raise Fail("volume", "grows", "total volume grows under refinement: %.12g -> %.12g" % (tot, V1.sum()))
        cv = V1[key(chf.reshape(chf.shape[0], -1))].reshape(nR, -1).sum(axis=1)
        pv = V[np.ravel_multi_index(tuple(Rref), tuple(int(x) for x in rl.shape))]
        if np.any(cv > pv * (1 + 1e-9)):
            k = int(np.argmax(cv - pv))
            raise Fail("volume", "children-outweigh-parent", "children of %s have total volume %.12g > parent %.12g"
                       % (Rref[:, k].tolist(), cv[k], pv[k]))
        _check_resort(s, lv, lv1, rl, rl1, R, chf, tags, stats)
    # ------------------------------------------------------------------ neighbourhoods
    for wl, wm, wlib in _windows(s, rl, tier):
        try:
            nb = _bcall(lv.neighborhood, A, wlib)
        except NotImplementedError:
            continue
        except (AssertionError, TypeError, ValueError):
            if s["k"] == "prod" and any(x["k"] == "flat" for x in s["grids"]):
                tags.add("nb-unsupported(flat factor)")   # a product cannot hand a multi-axis window to a flat factor
                continue
            raise
        stats["lib_calls"] += 1
        nbf = nb.reshape(nb.shape[0], N, -1).astype(np.int64)
        ref, mask = rl.neigh(A, wm)
        if nbf.shape != ref.shape:
            raise Fail("neighbourhood", "shape", "window %s: shape %s, model %s" % (wl, nbf.shape, ref.shape))
        if np.any(nbf < 0) or np.any(nbf >= rl.shape[:, None, None]):
            if rl.kind == "flat" and rl.sel is not None:
                pass       # sparse: cells outside the sparse grid have no array index (insertion points)
            else:
                k = _first_bad((nbf < 0) | (nbf >= rl.shape[:, None, None]))
                raise Fail("neighbourhood", "out-of-range", "window %s: neighbour %s of %s is not a valid index"
                           % (wl, nbf[:, k[1], k[2]].tolist(), A[:, k[1]].tolist()))
        diff = (nbf != ref) & mask[None]
        if np.any(diff):
            k = _first_bad(diff)
            raise Fail("neighbourhood", "entries", "window %s: neighbourhood of %s is %s, model %s"
                       % (wl, A[:, k[1]].tolist(), nbf[:, k[1]].T.tolist()[:9], np.where(mask[k[1]][None], ref[:, k[1]], -1).T.tolist()[:9]))
        stats["nb_unspecified"] += int((~mask).sum())
        tags.add("nb")
        # symmetry of the (specified) relation for symmetric windows
        flatw = _flatten(wm)
        if all(int(x) % 2 == 1 for x in flatw) and not (rl.kind == "flat" and rl.sel is not None):
            kk = np.ravel_multi_index(tuple(nbf), tuple(int(x) for x in rl.shape))     # (N, W)
            rel = np.zeros((N, N), dtype=bool)
            rows = np.repeat(np.arange(N), kk.shape[1])[mask.reshape(-1)]
            rel[rows, kk.reshape(-1)[mask.reshape(-1)]] = True
            if not np.array_equal(rel, rel.T):
                i, j = np.argwhere(rel != rel.T)[0]
                raise Fail("neighbourhood", "asymmetric", "window %s: %d lists %d as neighbour but not vice versa" % (wl, i, j))
            tags.add("nbsym")
        if (~mask).any() and _has_hp(s) and "9" in wl and s["k"] != "sparse":
            fills = (~mask).sum()
            srt = np.sort(np.ravel_multi_index(tuple(nbf), tuple(int(x) for x in rl.shape)), axis=1)
            dups = int(np.sum(np.any(srt[:, 1:] == srt[:, :-1], axis=1)))
            stats["hp_fillins"] += int(fills)
            stats["hp_dup_fillins"] += dups
    # ------------------------------------------------------------------ flat numbering
    if s["k"] in ("flat", "sparse"):
        _check_flat(s, lv, rl, rg, l, tags, stats)
    # ------------------------------------------------------------------ un-batched code path
    cap = _sizecap(s, tier)
    if N <= cap:
        sel = list(range(N))
    else:
        corners = sorted(set([0, N - 1] + [int(np.ravel_multi_index(c, tuple(int(x) for x in rl.shape)))
                                           for c in itertools.product(*[(0, int(x) - 1) for x in rl.shape])]))
        sel = corners[:cap] if cap < len(corners) else corners
    w0 = _windows(s, rl, tier)
    w0 = w0[1] if len(w0) > 1 else w0[0]
    nb_ok = not (s["k"] == "prod" and any(x["k"] == "flat" for x in s["grids"]))
    for k in sel:
        i = A[:, k].copy()
        c1 = _np(lv.index2coord(i))
        if c1.shape != (rl.cdim,) or not _close(c1, Cref[:, k])[0]:
            raise Fail("coord", "single-index", "index2coord of the single index %s = %s, model %s" % (i.tolist(), c1.tolist(), Cref[:, k].tolist()))
        b1 = _np(lv.coord2index(c1))
        if b1.shape != (nd,) or not np.array_equal(b1.astype(np.int64), i):
            raise Fail("coord", "single-index-roundtrip", "coord2index of the single coordinate of %s = %s" % (i.tolist(), b1.tolist()))
        v1 = _vol(lv, i)
        if not _close(v1, Vref[k:k + 1])[0]:
            raise Fail("volume", "single-index", "index2volume of the single index %s = %s, model %s" % (i.tolist(), v1.tolist(), Vref[k]))
        ref, mask = rl.neigh(A[:, k:k + 1], w0[1])
        n1 = _np(lv.neighborhood(i, w0[2])).astype(np.int64).reshape(nd, -1) if nb_ok else ref[:, 0]
        if n1.shape != ref[:, 0].shape or np.any((n1 != ref[:, 0]) & mask[0][None]):
            raise Fail("neighbourhood", "single-index", "window %s: neighbourhood of the single index %s = %s, model %s"
                       % (w0[0], i.tolist(), n1.T.tolist()[:9], ref[:, 0].T.tolist()[:9]))
        stats["single_index_calls"] += 4
        if has_children and rl.is_refined(A[:, k:k + 1])[0]:
            c = _np(lv.children(i)).astype(np.int64).reshape(nd, -1)
            cr = rl.children(A[:, k:k + 1])[:, 0]
            if c.shape != cr.shape or not np.array_equal(c, cr):
                raise Fail("refine", "single-index-children", "children of the single index %s = %s, model %s" % (i.tolist(), c.T.tolist()[:6], cr.T.tolist()[:6]))
            p = _np(g.at(l + 1).parent(c[:, -1])).astype(np.int64)
            if p.shape != (nd,) or not np.array_equal(p, i):
                raise Fail("refine", "single-index-parent", "parent of the single index %s = %s, expected %s" % (c[:, -1].tolist(), p.tolist(), i.tolist()))
            stats["single_index_calls"] += 2
    tags.add("single")


def _flatten(x):
    return [z for y in x for z in _flatten(y)] if isinstance(x, (list, tuple)) else [x]


def rl1_parent(rl, rl1, A1):
    return rl1.parent(A1)


def _has_hp(s):
    if s["k"] in ("hp", "hpr"):
        return True
    if s["k"] == "prod":
        return any(_has_hp(x) for x in s["grids"])
    if s["k"] in ("flat", "sparse"):
        return _has_hp(s["grid"])
    return False


def _contains_serial_flat(s):
    if s["k"] == "flat":
        return s["ordering"] == "serial"
    if s["k"] == "prod":
        return any(_contains_serial_flat(x) for x in s["grids"])
    return False


def _check_resort(s, lv, lv1, rl, rl1, R, chf, tags, stats):
    """resort() of the next level must put the value computed for child c of refined index r at the position of
    that child: feed it the children's own (raveled) indices and expect the identity arrangement."""
    nd = rl.ndim
    # children of refined_indices() in the layout the kernels produce: (nd, *rshape, *splitshape); `chf` holds the
    # (already verified) children of the refined indices in C order, R is the library's refined_indices()
    if R.ndim != 1 + nd:
        raise Fail("resort", "refined-shape", "refined_indices() has shape %s for %d index axes" % (R.shape, nd))
    ch = chf.reshape((nd,) + tuple(R.shape[1:]) + tuple(int(x) for x in rl.split))
    perm = [0] + [1 + x for a in range(nd) for x in (a, nd + a)]      # interleave (r_a, s_a) per axis
    batched = np.ravel_multi_index(tuple(np.transpose(ch, perm)), tuple(int(x) for x in rl1.shape))
    want = np.arange(rl1.size).reshape(tuple(int(x) for x in rl1.shape))
    try:
        got = _np(lv1.resort(batched))
    except NotImplementedError as e:
        tags.add("resort-documented-notimplemented")
        return
    except Exception as e:     # noqa
        raise Fail("resort", "raises:%s" % type(e).__name__, "resort raised %r on the children array of shape %s" % (e, batched.shape))
    stats["lib_calls"] += 1
    if got.shape != want.shape or not np.array_equal(got, want):
        if got.shape == want.shape:
            j = _first_bad(got != want)
            where = "position %s holds the value of child %s" % (j, [int(x) for x in np.unravel_index(int(got[tuple(j)]), want.shape)])
        else:
            where = "shape %s, expected %s" % (got.shape, want.shape)
        if _contains_serial_flat(s) and s["k"] == "prod":
            raise Fail("resort", "serial-flat-factor-silently-misordered",
                       "MGrid with a serial FlatGrid factor: resort() is documented as not implemented but silently "
                       "returns a wrong arrangement (%s)" % where)
        raise Fail("resort", "misordered", "resort() does not place children at their own index: %s" % where)
    tags.add("resort")


def _check_flat(s, lv, rl, rg, l, tags, stats):
    """index2flatindex / flatindex2index against the explicitly constructed numbering, level shifts -1, 0, +1"""
    num = rl.num
    for shift in (-1, 0, 1):
        ll = l + shift
        if ll < 0 or ll > rg.depth:
            continue
        inner = rg.grid.level(ll)
        MI = inner.all_indices()
        f = _bcall(lv.index2flatindex, MI, shift).astype(np.int64)
        fref = num.flat(ll, MI)
        stats["lib_calls"] += 2
        if f.shape != fref.shape or not np.array_equal(f, fref):
            k = _first_bad(f != fref) if f.shape == fref.shape else None
            raise Fail("flat", "index2flatindex(shift=%+d)" % shift, "index2flatindex(levelshift=%d) differs from the %s numbering%s"
                       % (shift, num.ordering, "" if k is None else ": %s -> %s, model %s" % (MI[:, k[1]].tolist(), f[:, k[1]].tolist(), fref[:, k[1]].tolist())))
        if sorted(f[0].tolist()) != list(range(inner.size)):
            raise Fail("flat", "not-bijective", "flat indices of level %d are not a permutation of range(size)" % ll)
        b = _bcall(lv.flatindex2index, fref, shift).astype(np.int64)
        if b.shape != MI.shape or not np.array_equal(b, MI):
            k = _first_bad(b != MI) if b.shape == MI.shape else None
            raise Fail("flat", "flatindex2index(shift=%+d)" % shift, "flatindex2index(levelshift=%d) is not the inverse numbering%s"
                       % (shift, "" if k is None else ": %s -> %s, model %s" % (fref[:, k[1]].tolist(), b[:, k[1]].tolist(), MI[:, k[1]].tolist())))
    tags.add("flat")
    if s["k"] == "sparse":
        a = rl.all_indices()
        f = _bcall(lv.arrayindex2flatindex, a).astype(np.int64)
        want = np.asarray(s["mapping"][l], dtype=np.int64)[None]
        if not np.array_equal(f, want):
            raise Fail("flat", "arrayindex2flatindex", "arrayindex2flatindex != mapping")
        b, valid = lv.flatindex2arrayindex(want, return_valid=True)
        if not np.array_equal(_np(b).astype(np.int64), a) or not bool(np.all(_np(valid))):
            raise Fail("flat", "flatindex2arrayindex", "flatindex2arrayindex is not the inverse of the mapping")
        tags.add("sparse-map")
