"""C29 Gauss-Markov processes have the exact continuous-time covariance.

Mode P.  Every process of `nifty.re.gauss_markov` is, at fixed parameters, an AFFINE map
of its excitations:  path = b + J xi.  Per case the process is applied to xi = 0 and to
EVERY unit excitation (process excitations and, for random initial states, the latent of
x0), which gives b and the exact J; then
        b      = mean of the continuous-time process at the grid points,
        J J^T  = covariance of the continuous-time process at the grid points
is an algebraic identity decided to round-off (no sampling).  The reference
(vf/ref/c29_gmp.py, numpy only) assembles the grid covariance from the closed-form
per-interval transition/noise matrices of the documented SDE with piecewise-constant
parameters, and for constant parameters is itself cross-checked against the direct
kernel (WP s^2 min(t,u); IWP cubic blocks; OUP exponential kernel).

Three families of cases
  func    raw functions wiener_process / integrated_wiener_process /
          ornstein_uhlenbeck_process (compiled once per shape signature, so the real
          fori_loop path is what is measured), for every dt pattern over {0.5,1,2}^N
          and scalar dt, sigma/gamma/asperity scalar and per-step, x0 zero and generic;
          plus: `discrete_gauss_markov_process` (sequence / constant-matrix / scalar form)
          and `scalar_gauss_markov_process` fed the REFERENCE transition matrices must
          have the same mean and covariance as the specialised generator.
  model   the factories WienerProcess / IntegratedWienerProcess / OrnsteinUhlenbeckProcess
          (GaussMarkovProcess) with every parameter given as float / array / tuple
          (= prior) / LazyModel, x0 fixed / prior / (OUP) steady-state default, dt scalar
          + N_steps or array; hyper latents on the full grid {-1,0,1}^k, the remaining
          excitations by basis enumeration.
  generic `discrete_gauss_markov_process` with arbitrary (non-physical) matrices, state
          dimension 1..3, noise dimension != state dimension, every drift/diffamp form,
          against the numpy recursion res_{i+1} = D_i res_i + A_i xi_i.

The documented SDEs are the specification.  Which meaning of `asperity` (IWP) and of
`sigma` (OUP) is the documented one is read from the formula lines of the factory
docstrings (see `documented_conventions`): as shipped they say `sigma*asperity*xi` and
`dx/dt + gamma x = sigma xi`.  If the code realises the *other* convention exactly, this
single root cause is reported by eight dedicated smallest cases (role="convention", one
per interface and parameter form) with a convention key; every other case is then judged
under the convention the code realises (labelled in its outcome) and finish() demands that
this convention is the same in all cases.  Any other deviation is a covariance defect.
"""
import itertools

import numpy as np

from vf.core import ok, bad, skip
from vf.ref import c29_gmp as R

ID = "C29"
LEVEL = "exploration"
JAX = True
RULE = ("func: (process, N, dt = scalar in {0.5,1,2} or EVERY array in {0.5,1,2}^N, sigma scalar|per-step, "
        "gamma scalar|per-step, asperity None|0.3|per-step, x0 zero|generic); model: (factory, N, dt scalar+N_steps|"
        "array, every parameter as float|array|tuple-prior|LazyModel, x0 fixed|prior|steady-state default) with hyper "
        "latents on {-1,0,1}^k; generic: (state dim 1..3, noise dim, N, drift form, diffamp form). Per case the map is "
        "applied to 0 and to EVERY unit excitation (exact b, J). non-trivial = N>=1, J != 0 and both mean and full "
        "(N+1)d x (N+1)d covariance were compared with the closed-form reference")
ASSUMPTIONS = [
    "specification = the SDEs written in the factory docstrings, parameters constant inside each interval "
    "[t_i, t_i+dt_i) as documented; the convention for `asperity` (IWP) and `sigma` (OUP) is read from the formula "
    "line of the docstring (contains 'sqrt' or not)",
    "OUP default x0 ('steady state distribution'): steady state of the FIRST interval's parameters",
    "Gaussianity follows from linearity in the excitations (checked on a dense probe vector)",
    "numeric values: dt in {0.5,1,2}; sigma in [0.5,2], gamma in [0.2,1.5] (never within 0.1 of 0.5, where both OUP "
    "conventions coincide), asperity 0.3 / [0.1,0.6], selected by VERIF_SEED; structure is exhaustive",
    "raw functions are measured through jax.jit (one compilation per shape signature and worker), models through "
    "jax.jit(model); eager execution is not separately measured",
    "tolerance 1e-10 * max(1, max|reference|) in float64",
]

TOL = 1e-10
DTS = (0.5, 1.0, 2.0)


# =====================================================================================
#                                     enumeration
# =====================================================================================
def _r(x, nd=3):
    return float(np.round(float(x), nd))


class Fill:
    def __init__(self, seed, variant=0):
        self.rng = np.random.default_rng([2900, int(seed), int(variant)])

    def sigma(self, n=None):
        v = self.rng.uniform(0.5, 2.0, n or 1)
        return _r(v[0]) if n is None else [_r(x) for x in v]

    def gamma(self, n=None):
        out = []
        while len(out) < (n or 1):
            g = _r(self.rng.uniform(0.2, 1.5))
            if abs(g - 0.5) > 0.1:
                out.append(g)
        return out[0] if n is None else out

    def asp(self, n):
        return [_r(x) for x in self.rng.uniform(0.1, 0.6, n)]

    def x0(self, d):
        v = [_r(x) for x in self.rng.uniform(0.3, 1.5, d) * np.array([1., -1.])[:d]]
        return v[0] if d == 1 else v

    def mat(self, m, n):
        return [[_r(x, 2) for x in row] for row in self.rng.uniform(-1., 1., (m, n))]


def _dt_specs(nmax):
    out = []
    for N in range(1, nmax + 1):
        for h in DTS:
            out.append((N, h))                      # scalar dt
        for pat in itertools.product(DTS, repeat=N):
            out.append((N, list(pat)))              # every array pattern (uniform arrays included)
    return out


def cases(tier, seed):
    seed = int(seed)
    thorough = tier == "thorough"
    cs = []
    nmax = 5 if thorough else 4
    # ---------------------------------------------------------------- func
    for N, dt in _dt_specs(nmax):
        f = Fill(seed, 1000 + N)
        sig_forms = [f.sigma(), f.sigma(N)]
        gam_forms = [f.gamma(), f.gamma(N)]
        asp_forms = [None, 0.3, f.asp(N)]
        for sig in sig_forms:
            for x0 in (0.0, f.x0(1)):
                cs.append(dict(kind="func", proc="WP", N=N, dt=dt, sigma=sig, x0=x0, seed=seed))
        for sig in sig_forms:
            for asp in asp_forms:
                for x0 in ([0.0, 0.0], f.x0(2)):
                    cs.append(dict(kind="func", proc="IWP", N=N, dt=dt, sigma=sig, asperity=asp, x0=x0, seed=seed))
        for sig in sig_forms:
            for gam in gam_forms:
                for x0 in (0.0, f.x0(1)):
                    cs.append(dict(kind="func", proc="OUP", N=N, dt=dt, sigma=sig, gamma=gam, x0=x0, seed=seed))
    # ---------------------------------------------------------------- generic recursion
    gen = []
    for N in range(1, (5 if thorough else 4)):
        for d, k in ((1, 1), (1, 2), (2, 2), (2, 1), (2, 3), (3, 3), (3, 2)):
            for df in ("scalar", "mat", "seq"):
                for af in ("scalar", "mat", "seq"):
                    if (df == "scalar" or af == "scalar") and (d, k) != (1, 1):
                        continue        # scalars are documented shortcuts for 1x1 matrices only
                    gen.append(dict(kind="generic", N=N, d=d, k=k, drift=df, diffamp=af, seed=seed))
    # ---------------------------------------------------------------- model
    mod = []
    Ns = (1, 2, 3, 4) if thorough else (1, 3)
    pforms = ("float", "array", "prior", "model")
    for N in Ns:
        for dtf in ("scalar", "array"):
            for sf in pforms:
                for x0f in ("fixed", "prior"):
                    mod.append(dict(kind="model", proc="WP", N=N, dt=dtf, sigma=sf, x0=x0f, seed=seed))
                for af in (None,) + pforms:
                    for x0f in ("fixed", "prior"):
                        mod.append(dict(kind="model", proc="IWP", N=N, dt=dtf, sigma=sf, asperity=af, x0=x0f,
                                        seed=seed))
                for gf in pforms:
                    for x0f in ("default", "fixed", "prior"):
                        mod.append(dict(kind="model", proc="OUP", N=N, dt=dtf, sigma=sf, gamma=gf, x0=x0f,
                                        seed=seed))
    # simplest first: small N first, inside N: func < generic < model
    order = {"func": 0, "generic": 1, "model": 2}
    allc = cs + gen + mod
    allc.sort(key=lambda c: (c["N"], order[c["kind"]]))     # stable: keeps enumeration order inside a class
    # ---------------------------------------------------------------- parameter-convention cases (first)
    # The meaning of `asperity` (IWP) and `sigma` (OUP) is ONE global fact per process.  These smallest cases are
    # the ones that fail when the documented SDE and the code disagree about it; every other case is then judged
    # under the convention the code realises exactly (labelled in its outcome; finish() demands it is unique).
    f = Fill(seed, 1001)
    s0, g0 = f.sigma(), f.gamma()
    conv = [dict(kind="func", proc="IWP", N=1, dt=0.5, sigma=s0, asperity=0.3, x0=[0.0, 0.0], seed=seed),
            dict(kind="func", proc="IWP", N=1, dt=0.5, sigma=s0, asperity=[0.3], x0=[0.0, 0.0], seed=seed),
            dict(kind="func", proc="OUP", N=1, dt=0.5, sigma=s0, gamma=g0, x0=0.0, seed=seed),
            dict(kind="func", proc="OUP", N=1, dt=0.5, sigma=s0, gamma=[g0], x0=0.0, seed=seed),
            dict(kind="model", proc="IWP", N=1, dt="scalar", sigma="float", asperity="float", x0="fixed", seed=seed),
            dict(kind="model", proc="IWP", N=1, dt="scalar", sigma="float", asperity="prior", x0="fixed", seed=seed),
            dict(kind="model", proc="OUP", N=1, dt="scalar", sigma="float", gamma="float", x0="fixed", seed=seed),
            dict(kind="model", proc="OUP", N=1, dt="scalar", sigma="float", gamma="float", x0="default", seed=seed)]
    for c in conv:
        c["role"] = "convention"
    return conv + allc


# =====================================================================================
#                                  worker-side helpers
# =====================================================================================
_W = {}


def _jx():
    """jax + jitted library functions, created once per worker."""
    if not _W:
        import jax
        import jax.numpy as jnp
        from nifty.re import gauss_markov as gm
        _W.update(jax=jax, jnp=jnp, gm=gm,
                  WP=jax.jit(gm.wiener_process),
                  IWP=jax.jit(gm.integrated_wiener_process),
                  OUP=jax.jit(gm.ornstein_uhlenbeck_process),
                  GEN=jax.jit(gm.discrete_gauss_markov_process),
                  SGEN=jax.jit(gm.scalar_gauss_markov_process),
                  conv=documented_conventions(gm))
    return _W


def documented_conventions(gm):
    """The documented continuous-time processes (factory docstrings are the spec).
    IWP: 'linear' = dx = y dt + sigma*asperity*dW  (w = asperity^2)
         'sqrt'   = dx = y dt + sigma*sqrt(asperity)*dW  (w = asperity)
    OUP: 'sde'        = dx + gamma x dt = sigma dW
         'stationary' = dx + gamma x dt = sigma*sqrt(2 gamma) dW  (sigma = steady-state std)"""
    def line(doc, token):
        ls = [l for l in (doc or "").splitlines() if token in l]
        return ls[0] if ls else ""
    iwp = "sqrt" if "sqrt" in line(gm.IntegratedWienerProcess.__doc__, "xi^1") else "linear"
    oup = "stationary" if "sqrt" in line(gm.OrnsteinUhlenbeckProcess.__doc__, "\\gamma x_t") else "sde"
    return dict(IWP=iwp, OUP=oup)


def _arr(v):
    jnp = _jx()["jnp"]
    return None if v is None else jnp.asarray(np.asarray(v, dtype=np.float64))


def _affine(f, shape, probe_seed):
    """b, J of an affine map f: R^shape -> array, by 0 and every unit vector; plus the
    linearity residual on a dense probe."""
    n = int(np.prod(shape))
    b = np.asarray(f(np.zeros(shape))).astype(float)
    J = np.zeros((b.size, n))
    for i in range(n):
        e = np.zeros(n)
        e[i] = 1.
        J[:, i] = np.asarray(f(e.reshape(shape))).reshape(-1) - b.reshape(-1)
    p = np.random.default_rng([2901, probe_seed, n]).uniform(0.5, 1.5, n) * np.where(np.arange(n) % 2, -1., 1.)
    lin = float(np.abs(np.asarray(f(p.reshape(shape))).reshape(-1) - (b.reshape(-1) + J @ p)).max()) if n else 0.
    return b, J, lin


def _close(a, b, scale=None):
    a, b = np.asarray(a, dtype=float), np.asarray(b, dtype=float)
    if a.shape != b.shape:
        return False, float("inf")
    if not (np.all(np.isfinite(a)) and np.all(np.isfinite(b))):
        return False, float("nan")
    s = max(1., float(np.abs(b).max(initial=0.))) if scale is None else scale
    dv = float(np.abs(a - b).max(initial=0.))
    return dv <= TOL * s, dv


def _form(v):
    return "none" if v is None else ("scalar" if np.ndim(v) == 0 else "array")


def _uniform(dt):
    return np.ndim(dt) == 0 or len(set(np.asarray(dt).tolist())) == 1


def _ref_params(proc, conv, N, sigma, gamma=None, asperity=None):
    """(s, g, w) per-interval arrays of the SDE under convention `conv`."""
    s = R.as_steps(sigma, N)
    g = w = None
    if proc == "IWP":
        a = R.as_steps(0. if asperity is None else asperity, N)
        w = a ** 2 if conv == "linear" else a
    if proc == "OUP":
        g = R.as_steps(gamma, N)
        if conv == "stationary":
            s = s * np.sqrt(2. * g)
    return s, g, w


def _reference(proc, conv, N, dt, sigma, gamma, asperity, m0, P0):
    """mean (N+1,d) and covariance of the documented process at the grid points.
    P0 = 'steady' -> steady state of the first interval (OUP)."""
    dts = R.as_steps(dt, N)
    s, g, w = _ref_params(proc, conv, N, sigma, gamma, asperity)
    Phis, Qs = R.transitions(proc, dts, s, g, w)
    steady = isinstance(P0, str)
    if steady:
        P0 = np.array([[s[0] ** 2 / (2. * g[0])]])
    mean = R.grid_mean(Phis, m0)
    C = R.grid_cov(Phis, Qs, P0)
    # recursion-free second oracle for constant parameters
    const = all(np.ndim(v) == 0 for v in (sigma, gamma, asperity) if v is not None)
    if const and (steady or not np.any(np.asarray(P0))):
        K = R.kernel_cov(proc, dts, float(s[0]), None if g is None else float(g[0]),
                         0. if w is None else float(w[0]), stationary=steady)
        if not _close(C, K)[0]:
            raise AssertionError("reference self-check failed: recursion != kernel")
    return mean, C, Phis, Qs


def _other(proc, conv):
    return {"linear": "sqrt", "sqrt": "linear", "sde": "stationary", "stationary": "sde"}.get(conv)


CONV_KEYS = {
    ("IWP", "linear"): "IWP|asperity-convention|doc=sigma*asperity*xi|code=sigma*sqrt(asperity)*xi",
    ("IWP", "sqrt"): "IWP|asperity-convention|doc=sigma*sqrt(asperity)*xi|code=sigma*asperity*xi",
    ("OUP", "sde"): "OUP|sigma-convention|doc=SDE-noise-amplitude|code=steady-state-std",
    ("OUP", "stationary"): "OUP|sigma-convention|doc=steady-state-std|code=SDE-noise-amplitude",
}


def _judge(proc, tag, b, J, N, dt, sigma, gamma, asperity, m0, P0):
    """Compare (b, J) with the documented process.  Returns (None, conv_used, Phis, Qs, stats)
    or (bad(...), ...)."""
    W = _jx()
    conv = W["conv"].get(proc)
    mean, C, Phis, Qs = _reference(proc, conv, N, dt, sigma, gamma, asperity, m0, P0)
    d = mean.shape[1]
    okm, dm = _close(np.asarray(b).reshape(N + 1, d) if np.size(b) == (N + 1) * d else b, mean)
    if not okm:
        return bad("%s: mean of the process (zero excitation) differs from the continuous-time mean by %.3g"
                   % (proc, dm), finding_key="%s|mean|%s" % (proc, tag),
                   detail=dict(got=np.asarray(b).tolist(), ref=mean.tolist())), conv, Phis, Qs, {}
    cov = J @ J.T
    okc, dc = _close(cov, C)
    stats = dict(cov_entries=int(C.size))
    if okc:
        return None, conv, Phis, Qs, stats
    alt = _other(proc, conv)
    relevant = (proc == "IWP" and asperity is not None) or proc == "OUP"
    if alt is not None and relevant:
        mean2, C2, Phis2, Qs2 = _reference(proc, alt, N, dt, sigma, gamma, asperity, m0, P0)
        if _close(cov, C2)[0]:
            # The code realises the other parameter convention EXACTLY.  This single root cause is reported by
            # the dedicated role="convention" cases; everywhere else the case is judged under the realised
            # convention (labelled in the outcome) and finish() demands that it is the same in all cases.
            i = int(np.argmax(np.abs(cov - C)))
            r, c = divmod(i, C.shape[1])
            stats = dict(stats, mismatch=dict(
                what="%s: exact covariance J J^T differs from the documented continuous-time process "
                     "(entry (%d,%d): got %.6g, documented %.6g) but equals the '%s' convention exactly"
                     % (proc, r, c, cov[r, c], C[r, c], alt),
                key=CONV_KEYS[(proc, conv)], documented=conv, realised=alt, maxdiff=dc))
            return None, alt, Phis2, Qs2, stats
    i = int(np.argmax(np.abs(cov - C)))
    r, c = divmod(i, C.shape[1])
    return bad("%s: exact covariance J J^T differs from the continuous-time covariance at the grid points by %.3g "
               "(entry (%d,%d): got %.6g, ref %.6g)" % (proc, dc, r, c, cov[r, c], C[r, c]),
               finding_key="%s|cov|%s" % (proc, tag),
               detail=dict(got=cov.tolist(), ref=C.tolist())), None, Phis, Qs, stats


# =====================================================================================
#                                       func cases
# =====================================================================================
def _run_func(case):
    W = _jx()
    proc, N, dt = case["proc"], case["N"], case["dt"]
    sigma, gamma, asp, x0 = case["sigma"], case.get("gamma"), case.get("asperity"), case["x0"]
    d = 2 if proc == "IWP" else 1
    shape = (N, 2) if d == 2 else (N,)
    jdt, jsig, jgam, jasp, jx0 = _arr(dt), _arr(sigma), _arr(gamma), _arr(asp), _arr(x0)
    if proc == "WP":
        f = lambda xi: W["WP"](_arr(xi), jx0, jsig, jdt)
    elif proc == "IWP":
        f = lambda xi: W["IWP"](_arr(xi), jx0, jsig, jdt, jasp)
    else:
        f = lambda xi: W["OUP"](_arr(xi), jx0, jsig, jgam, jdt)
    tag = "func|dt=%s%s|params=%s" % (_form(dt), "" if _uniform(dt) else "-nonuniform",
                                      "per-step" if "array" in (_form(sigma), _form(gamma), _form(asp)) else "const")
    b, J, lin = _affine(f, shape, case["seed"])
    if b.shape != ((N + 1, 2) if d == 2 else (N + 1,)):
        return bad("%s: output shape %s for %d steps" % (proc, b.shape, N), finding_key="%s|shape|%s" % (proc, tag))
    if lin > TOL * max(1., np.abs(J).max()):
        return bad("%s is not affine in xi (residual %.3g)" % (proc, lin), finding_key="%s|nonlinear|%s" % (proc, tag))
    viol, conv, Phis, Qs, stats = _judge(proc, tag, b, J, N, dt, sigma, gamma, asp, x0, np.zeros((d, d)))
    # ---- the generic generator fed the reference matrices of the realised convention
    n_forms = 0
    if viol is None:
        cov = J @ J.T
        A = [R.psd_factor(Q) for Q in Qs]
        forms = [("seq", np.array(Phis), np.array(A))]
        const = _uniform(dt) and all(np.ndim(v) == 0 for v in (sigma, gamma, asp) if v is not None)
        if const:
            forms.append(("mat", Phis[0], A[0]))
            if d == 1:
                forms.append(("scalar", Phis[0][0, 0], A[0][0, 0]))
        x0v = np.atleast_1d(np.asarray(x0, dtype=float))
        for name, D, Am in forms:
            g = lambda xi, D=D, Am=Am: W["GEN"](_arr(xi), _arr(x0v), _arr(D), _arr(Am))
            bg, Jg, _ = _affine(g, (N, d), case["seed"])
            okb, db = _close(bg.reshape(-1), b.reshape(-1))
            okc, dc = _close(Jg @ Jg.T, cov)
            n_forms += 1
            if not (okb and okc) and viol is None:
                viol = bad("discrete_gauss_markov_process (%s form) fed the closed-form transition matrices of %s "
                           "disagrees with the specialised generator (mean diff %.3g, covariance diff %.3g)"
                           % (name, proc, db, dc), finding_key="generic-vs-%s|%s-form|%s" % (proc, name, tag))
        if d == 1:
            Ds = np.array([P[0, 0] for P in Phis])
            As = np.array([a[0, 0] for a in A])
            for name, D, Am in [("seq", Ds, As)] + ([("scalar", Ds[0], As[0])] if const else []):
                g = lambda xi, D=D, Am=Am: W["SGEN"](_arr(xi), _arr(float(x0)), _arr(D), _arr(Am))
                bg, Jg, _ = _affine(g, (N,), case["seed"])
                okb, db = _close(bg.reshape(-1), b.reshape(-1))
                okc, dc = _close(Jg @ Jg.T, cov)
                n_forms += 1
                if not (okb and okc) and viol is None:
                    viol = bad("scalar_gauss_markov_process (%s form) fed the closed-form transition of %s disagrees "
                               "with the specialised generator (mean diff %.3g, covariance diff %.3g)"
                               % (name, proc, db, dc), finding_key="scalar-generic-vs-%s|%s-form|%s" % (proc, name, tag))
    stats.update(unit_excitations=int(J.shape[1]), generic_forms=n_forms)
    outcome = "func:%s:sig-%s:%s:x0-%s:dt-%s%s" % (
        proc, _form(sigma), "gam-" + _form(gamma) if proc == "OUP" else "asp-" + _form(asp),
        "generic" if np.any(np.asarray(x0)) else "zero", _form(dt), "" if _uniform(dt) else "-nonuniform")
    return _conclude(case, proc, viol, stats, outcome, conv, N >= 1 and np.abs(J).max() > 0)


def _conclude(case, proc, viol, stats, outcome, conv, nontrivial):
    mm = stats.pop("mismatch", None)
    if viol is not None:
        return viol
    realised = {proc: conv} if proc in ("IWP", "OUP") and conv is not None and (
        proc == "OUP" or case.get("asperity") is not None) else {}
    if mm is not None and case.get("role") == "convention":
        return bad(mm["what"], finding_key=mm["key"], realised=realised,
                   detail={k: v for k, v in mm.items() if k not in ("what", "key")})
    if mm is not None:
        outcome += ":judged-under-realised-convention=" + mm["realised"]
    if case.get("role") == "convention":
        outcome = "convention:" + outcome
    return ok(nontrivial=nontrivial, outcome=outcome, stats=stats, realised=realised)


# =====================================================================================
#                                     generic cases
# =====================================================================================
def _run_generic(case):
    W = _jx()
    N, d, k = case["N"], case["d"], case["k"]
    f = Fill(case["seed"], 7000 + 100 * N + 10 * d + k)
    df, af = case["drift"], case["diffamp"]
    if df == "scalar":
        D = f.mat(1, 1)[0][0]
        Ds = [np.array([[D]])] * N
    elif df == "mat":
        D = np.array(f.mat(d, d))
        Ds = [D] * N
    else:
        D = np.array([f.mat(d, d) for _ in range(N)])
        Ds = list(D)
    if af == "scalar":
        A = f.mat(1, 1)[0][0]
        As = [np.array([[A]])] * N
    elif af == "mat":
        A = np.array(f.mat(d, k))
        As = [A] * N
    else:
        A = np.array([f.mat(d, k) for _ in range(N)])
        As = list(A)
    x0 = np.array(f.mat(1, d)[0])
    tag = "d=%d|k=%s|drift=%s|diffamp=%s" % (d, "d" if k == d else ("<d" if k < d else ">d"), df, af)
    g = lambda xi: W["GEN"](_arr(xi), _arr(x0), _arr(D), _arr(A))
    try:
        b, J, lin = _affine(g, (N, k), case["seed"])
    except (TypeError, ValueError) as e:
        if k != d:
            return skip("noise dimension != state dimension rejected (%s)" % type(e).__name__)
        raise
    Jx0, Jxi = R.recursion_matrix(Ds, As)
    okb, db = _close(b.reshape(-1), Jx0 @ x0)
    okj, dj = _close(J, Jxi)
    if b.shape != (N + 1, d):
        return bad("generic GMP: output shape %s, expected %s" % (b.shape, (N + 1, d)), finding_key="generic|shape|" + tag)
    if not okb:
        return bad("generic GMP: propagation of x0 differs from res_{i+1}=D_i res_i by %.3g" % db,
                   finding_key="generic|x0-propagation|" + tag)
    if not okj:
        return bad("generic GMP: exact matrix w.r.t. xi differs from the recursion res_{i+1}=D_i res_i + A_i xi_i by %.3g"
                   % dj, finding_key="generic|recursion|" + tag)
    return ok(nontrivial=True, outcome="generic:%s" % tag, stats=dict(unit_excitations=int(J.shape[1])))


# =====================================================================================
#                                      model cases
# =====================================================================================
def _param(form, name, N, fill_scalar, fill_array, prior, jft, jnp):
    """Returns (argument for the factory, hyper keys, value(h) -> float|array)."""
    if form is None:
        return None, [], lambda h: None
    if form == "float":
        v = fill_scalar
        return v, [], lambda h: v
    if form == "array":
        v = np.array(fill_array)
        return v, [], lambda h: v
    if form == "prior":
        m, s = prior
        key = name      # factory names it <procname>_<param>
        return (m, s), [key], lambda h: R.lognormal_value(m, s, h[key])
    if form == "model":
        base = np.array(fill_array)
        key = "h_" + name
        mod = jft.Model(lambda x: jnp.asarray(base) * jnp.exp(0.25 * x[key]),
                        domain={key: jft.ShapeWithDtype(())})
        return mod, [key], lambda h: base * np.exp(0.25 * h[key])
    raise ValueError(form)


def _run_model(case):
    W = _jx()
    jax, jnp = W["jax"], W["jnp"]
    import nifty.re as jft
    proc, N = case["proc"], case["N"]
    f = Fill(case["seed"], 3000 + N)
    d = 2 if proc == "IWP" else 1
    dt_arr = [DTS[(i + 1) % 3] for i in range(N)]            # 1, 2, 0.5, 1 ... (non-uniform for N >= 2)
    if case["dt"] == "scalar":
        dt, kw_dt = 2.0, dict(dt=2.0, N_steps=N)
    else:
        dt, kw_dt = dt_arr, dict(dt=np.array(dt_arr))
    pname = dict(WP="wp", IWP="iwp", OUP="oup")[proc]
    sig_arg, sig_keys, sig_val = _param(case["sigma"], pname + "_sigma", N, f.sigma(), f.sigma(N), (1.0, 0.8), jft, jnp)
    gam_arg, gam_keys, gam_val = _param(case.get("gamma"), pname + "_gamma", N, f.gamma(), f.gamma(N), (1.1, 0.5), jft, jnp)
    asp_arg, asp_keys, asp_val = _param(case.get("asperity"), pname + "_asperity", N, 0.3, f.asp(N), (0.3, 0.1), jft, jnp)
    # initial state
    x0f = case["x0"]
    x0_key = None
    if x0f == "fixed":
        m0 = np.array(f.x0(2)) if d == 2 else f.x0(1)
        x0_arg, std0 = m0, None
    elif x0f == "prior":
        if d == 2:
            m0, std0 = np.array(f.x0(2)), np.array([0.7, 1.3])
        else:
            m0, std0 = f.x0(1), 0.7
        x0_arg, x0_key = (m0, std0), pname + "_x0"
    else:                                                     # OUP default: steady state
        m0, std0, x0_arg, x0_key = 0.0, "steady", None, pname + "_x0"
    try:
        if proc == "WP":
            model = jft.WienerProcess(x0_arg, sig_arg, **kw_dt)
        elif proc == "IWP":
            model = jft.IntegratedWienerProcess(x0_arg, sig_arg, asperity=asp_arg, **kw_dt)
        else:
            model = jft.OrnsteinUhlenbeckProcess(sig_arg, gam_arg, x0=x0_arg, **kw_dt)
    except NotImplementedError as e:
        return skip("factory rejects configuration: %s" % e)
    forms = {case["sigma"], case.get("gamma"), case.get("asperity")} - {None, "float"}
    tag = "model|dt=%s|x0=%s|params=%s" % (case["dt"], x0f, "+".join(sorted(forms)) or "float")
    hyper = sig_keys + gam_keys + asp_keys
    dom = {k: tuple(v.shape) for k, v in model.domain.items()}
    want = {pname: (N, 2) if d == 2 else (N,)}
    if x0_key:
        want[x0_key] = (2,) if d == 2 else ()
    for k in hyper:
        want[k] = ()
    if dom != want:
        return bad("%s factory: latent domain %s, expected %s" % (proc, dom, want), finding_key="%s|domain|%s" % (proc, tag))
    jm = jax.jit(model)
    lin_keys = [pname] + ([x0_key] if x0_key else [])
    sizes = [int(np.prod(want[k])) if want[k] else 1 for k in lin_keys]
    nlin = sum(sizes)
    n_hyper = 0
    stats_tot = dict(cov_entries=0, unit_excitations=0)
    convs, mismatch = set(), None
    for hv in itertools.product((0.0, -1.0, 1.0), repeat=len(hyper)):
        h = dict(zip(hyper, hv))

        def fun(vec, h=h):
            x, off = {}, 0
            for k, n in zip(lin_keys, sizes):
                x[k] = _arr(np.asarray(vec[off:off + n]).reshape(want[k]))
                off += n
            for k in hyper:
                x[k] = _arr(h[k])
            return jm(x)
        b, J, lin = _affine(fun, (nlin,), case["seed"])
        if lin > TOL * max(1., np.abs(J).max()):
            return bad("%s model is not affine in its excitations at fixed hyper latents (residual %.3g)" % (proc, lin),
                       finding_key="%s|nonlinear|%s" % (proc, tag))
        sigma, gamma, asp = sig_val(h), gam_val(h), asp_val(h)
        if isinstance(std0, str):
            P0 = "steady"
        elif std0 is None:
            P0 = np.zeros((d, d))
        else:
            P0 = np.diag(np.atleast_1d(np.asarray(std0, dtype=float)) ** 2)
        viol, conv, _, _, st = _judge(proc, tag, b, J, N, dt, sigma, gamma, asp, m0, P0)
        n_hyper += 1
        if viol is not None:
            inner = viol.get("detail")
            viol["detail"] = dict(hyper=h, inner={k: v for k, v in inner.items() if k not in ("got", "ref")}
                                  if isinstance(inner, dict) else inner)
            return viol
        convs.add(conv)
        if "mismatch" in st and mismatch is None:
            mismatch = st["mismatch"]
        stats_tot["cov_entries"] += st.get("cov_entries", 0)
        stats_tot["unit_excitations"] += J.shape[1]
    if len(convs) > 1:
        return bad("%s model realises different parameter conventions at different hyper latents: %s"
                   % (proc, sorted(convs)), finding_key="%s|convention-inconsistent|%s" % (proc, tag))
    stats_tot["hyper_points"] = n_hyper
    if mismatch is not None:
        stats_tot["mismatch"] = mismatch
    return _conclude(case, proc, None, stats_tot, "model:%s:x0-%s:hyper%d" % (proc, x0f, len(hyper)),
                     convs.pop() if convs else None, True)


def run(case):
    k = case["kind"]
    if k == "func":
        return _run_func(case)
    if k == "generic":
        return _run_generic(case)
    return _run_model(case)


def collect(run, case, out):
    seen = run.__dict__.setdefault("c29_realised", {})
    for proc, conv in (out.get("realised") or {}).items():
        seen.setdefault(proc, {}).setdefault(conv, case)


def finish(run):
    seen = run.__dict__.get("c29_realised", {})
    for proc, byconv in sorted(seen.items()):
        if len(byconv) > 1:
            ex = {c: byconv[c] for c in sorted(byconv)}
            run.violations.append((dict(kind="cross-case", proc=proc, examples=ex),
                                   bad("%s: different cases realise different parameter conventions %s"
                                       % (proc, sorted(byconv)),
                                       finding_key="%s|convention-inconsistent-across-cases" % proc)))
    return dict(realised_conventions={p: sorted(c) for p, c in seen.items()}, dt_alphabet=list(DTS))
