"""C28 Correlated-field models: implementations agree and scale correctly.

Mode P.  A case is one model configuration (spaces, grid shapes, distances, amplitude
model per space, flexibility/asperity on/off, JAX parametrisation kind, Hartley
convention, hyper-parameter setting).  The classic (`nifty.cl`) and the JAX (`nifty.re`)
model are built for it and evaluated on a finite grid of hyper latents (every scalar
hyper parameter and every entry of every `spectrum` latent on {-1,0,1}: star + diagonals,
thorough: + all corners).  At fixed hyper latents the field is AFFINE in the harmonic
excitations xi, so evaluating xi = 0 and EVERY unit excitation gives the exact
        field = b + A xi.
Checks
  parity         b and A of the classic and of the JAX model agree (same latents; `spectrum`
                 transposed), for the power parametrisation directly and for the amplitude
                 parametrisation through ln P = 2 ln A (classic built with doubled
                 loglogavgslope / flexibility, resp. halved Matern slope);
                 SimpleCorrelatedField == CorrelatedFieldMaker with one spectrum.
  offset         b is the constant offset_mean.
  normalisation  exact expected fluctuations from A (vf/ref/c28_cf.py):
                 E[spatial variance about the spatial mean] = ||P A||_F^2 / N  etc., compared
                 (a) with the classic model's OWN `total_fluctuation`, `slice_fluctuation(i)`,
                     `average_fluctuation(i)` evaluated at the same hyper latents, and
                 (b) for both flavours with the documented formulas fed independently
                     computed hyper-parameter values (fluctuations f_i, zero mode z):
                     total^2 = z^2 (prod(1+f_i^2/z^2) - 1), slice_i, average_i = f_i
                 -- for every grid shape and every distance/volume of the alphabet, which is
                 the resolution/volume independence the property states.
Regular grids only for the normalisation: on HEALPix the pixel-space variance of a band
limited field is not an exact quadrature, so there only parity is decided.
"""
import itertools

import numpy as np

from vf.core import ok, bad, skip
from vf.ref import c28_cf as R

ID = "C28"
LEVEL = "exploration"
JAX = True
RULE = ("case = (list of spaces: amplitude model nonparametric|matern, geometry regular grid shape in "
        "{(2),(3),(4),(5),(2,3),(3,3)} x distances {0.1,1,5,anisotropic} | HEALPix nside {1,2}, flexibility/asperity "
        "on/off, renormalize flag), JAX kind power|amplitude, Hartley convention, hyper-parameter setting A|B); single "
        "spaces and products of two. Per case: hyper latents on a finite grid over {-1,0,1} (quick: centre, +1 per coordinate, 3 diagonals; thorough: +-1 per coordinate, diagonals, all corners of the first 6 coordinates); "
        "per hyper point xi = 0 and EVERY unit excitation for both flavours (exact b, A). non-trivial = A != 0 and at least "
        "one of parity / normalisation was compared")
ASSUMPTIONS = [
    "at fixed hyper latents the field is affine in xi (checked on a dense probe)",
    "classic <-> JAX correspondence as used by the project's own comparison tests: classic non-parametric == JAX kind "
    "'power'; classic Matern (adjust_for_volume=True) == JAX Matern kind 'amplitude', renormalize_amplitude=False; the "
    "other JAX kind is mapped through ln P = 2 ln A (doubled slope/flexibility, halved Matern slope)",
    "predicted fluctuations: classic = the model's own total/slice/average_fluctuation operators; documented formulas "
    "with f_i = `fluctuations` (non-parametric) or `scale` (JAX Matern with renormalize_amplitude=True); Matern without "
    "renormalisation makes no documented claim on the JAX side and is only compared for parity",
    "HEALPix: parity only (pixel-space variance is not an exact quadrature of the band-limited field)",
    "total_N > 0 / dofdex (classic only) and adjust_for_volume=False have no JAX counterpart and are not enumerated",
    "hyper-parameter (mean, std) settings A/B are jittered by VERIF_SEED; structure is exhaustive",
    "JAX model evaluated eagerly (no jit); tolerance 1e-9 relative (1e-8 on HEALPix)",
]

TOL = 1e-9
TOL_HP = 1e-8
CONVS = ("non_canonical_hartley", "canonical_hartley")

BASE = {
    "A": dict(offset_mean=0.3, azm=(0.5, 0.2), fluct=(1.5, 0.5), slope=(-2., 0.5), flex=(1., 0.5), asp=(0.3, 0.1),
              scale=(1.5, 0.5), cutoff=(1., 0.3), mslope=(-3., 0.5)),
    "B": dict(offset_mean=-1., azm=(2., 1.), fluct=(0.4, 0.3), slope=(-4., 1.), flex=(2., 1.), asp=(1., 0.5),
              scale=(0.4, 0.3), cutoff=(3., 1.), mslope=(-5., 1.)),
}


def _setting(name, seed, j):
    """(mean, std) of every hyper parameter of space j; numeric fill selected by the seed."""
    rng = np.random.default_rng([2800, int(seed), j, ord(name)])
    out = {}
    for k, v in BASE[name].items():
        fac = float(np.round(rng.uniform(0.8, 1.25), 3)) * (1. + 0.25 * j)
        if isinstance(v, tuple):
            out[k] = (float(np.round(v[0] * fac, 4)), float(np.round(v[1] * fac, 4)))
        else:
            out[k] = float(np.round(v * fac, 4))
    return out


# =====================================================================================
#                                     enumeration
# =====================================================================================
RG_SHAPES = [[2], [3], [4], [5], [2, 3], [3, 3]]


def _dists(shape, thorough):
    if len(shape) == 1:
        return [[0.1], [1.0], [5.0]]
    return [[0.1, 0.1], [1.0, 1.0], [5.0, 5.0], [0.5, 2.0]]


def _nbins(sp):
    """number of power bins of a regular grid (distinct |k|), without touching the library."""
    if sp["geom"] == "hp":
        return 2 * sp["shape"][0] + 1
    ks = [np.fft.fftfreq(n, d) for n, d in zip(sp["shape"], sp["dist"])]
    kk = np.sqrt(sum(np.meshgrid(*[k ** 2 for k in ks], indexing="ij")))
    return len(np.unique(np.round(kk.ravel(), 10)))


def _space(model, shape, dist, flex=False, asp=False, renorm=False, geom="rg"):
    return dict(model=model, geom=geom, shape=list(shape), dist=None if dist is None else list(dist),
                flex=bool(flex), asp=bool(asp), renorm=bool(renorm))


def cases(tier, seed):
    seed = int(seed)
    thorough = tier == "thorough"
    cs = []
    FA = [(False, False), (True, False), (True, True)]
    settings = ("A", "B")

    def add(spaces, re_kind, conv, setting):
        # models / shapes / geom: flat descriptive labels (convenient for VERIF_FILTER and for reading replays)
        cs.append(dict(kind="cf", spaces=spaces, re_kind=re_kind, conv=conv, setting=setting,
                       grid="corners" if thorough else "plus", seed=seed, n_spaces=len(spaces),
                       models=_models_tag(spaces), shapes="|".join("x".join(map(str, s["shape"])) for s in spaces),
                       geom="+".join(sorted({s["geom"] for s in spaces}))))

    # ---- single regular grids; (Hartley convention, kind, setting): thorough all 8, quick a pairwise covering 4
    if thorough:
        combos = [(c, k, st) for c in CONVS for k in ("power", "amplitude") for st in settings]
    else:
        combos = [(CONVS[0], "power", "A"), (CONVS[0], "amplitude", "B"),
                  (CONVS[1], "power", "B"), (CONVS[1], "amplitude", "A")]
    for shape in RG_SHAPES:
        for dist in _dists(shape, thorough):
            for conv, re_kind, st in combos:
                for fl, ap in FA:
                    add([_space("np", shape, dist, fl, ap)], re_kind, conv, st)
                for rn in (False, True):
                    add([_space("matern", shape, dist, renorm=rn)], re_kind, conv, st)
    # ---- SimpleCorrelatedField (classic only)
    for shape in RG_SHAPES:
        for dist in _dists(shape, thorough):
            for fl, ap in FA:
                for zm in ("tuple", "none"):
                    for st in settings:
                        cs.append(dict(kind="simple", shape=shape, dist=dist, flex=fl, asp=ap, offset_std=zm,
                                       setting=st, conv=CONVS[0], grid="star" if thorough else "plus", seed=seed,
                                       shapes="x".join(map(str, shape))))
    # ---- HEALPix
    for nside in ((1, 2) if thorough else (1, 2)):
        for re_kind in ("power", "amplitude"):
            for st in settings:
                for fl, ap in FA:
                    add([_space("np", [nside], None, fl, ap, geom="hp")], re_kind, CONVS[0], st)
                add([_space("matern", [nside], None, geom="hp")], re_kind, CONVS[0], st)
    # ---- products of two spaces
    pairs = [([2], [3]), ([3], [4])] + ([([4], [2, 3]), ([2, 3], [3])] if thorough else [])
    dpairs = [(1.0, 1.0), (0.1, 5.0)]
    for s1, s2 in pairs:
        for d1, d2 in dpairs:
            for conv in (CONVS if thorough else CONVS[:1]):
                for re_kind in ("power", "amplitude"):
                    for st in (settings if thorough else ("A",)):
                        for m1, m2 in itertools.product(("np", "matern"), repeat=2):
                            for rn in ((False, True) if "matern" in (m1, m2) else (False,)):
                                sp = []
                                for m, s, d in ((m1, s1, d1), (m2, s2, d2)):
                                    x = _space(m, s, [d] * len(s), renorm=rn and m == "matern")
                                    if m == "np" and _nbins(x) > 2:
                                        x["flex"] = x["asp"] = True
                                    sp.append(x)
                                add(sp, re_kind, conv, st)
    if thorough:   # HEALPix x regular grid
        for re_kind in ("power", "amplitude"):
            add([_space("np", [1], None, True, True, geom="hp"), _space("np", [4], [1.0], True, False)],
                re_kind, CONVS[0], "A")
            add([_space("np", [3], [0.5], False, False), _space("matern", [1], None, geom="hp")],
                re_kind, CONVS[0], "B")

    def size(c):
        if c["kind"] == "simple":
            return (1, int(np.prod(c["shape"])), 0)
        return (len(c["spaces"]), int(np.prod([np.prod(s["shape"]) if s["geom"] == "rg" else 12 * s["shape"][0] ** 2
                                               for s in c["spaces"]])), 1)
    cs.sort(key=size)
    return cs


# =====================================================================================
#                                   model construction
# =====================================================================================
def _prefixes(n):
    return [""] if n == 1 else ["s%d" % j for j in range(n)]


def _cl_params(sp, P, re_kind):
    """classic parameters that correspond to the JAX model of kind `re_kind`."""
    two = lambda t: (2. * t[0], 2. * t[1])
    half = lambda t: (0.5 * t[0], 0.5 * t[1])
    if sp["model"] == "np":
        slope, flex = P["slope"], P["flex"]
        if re_kind == "amplitude":
            slope, flex = two(slope), two(flex)
        return dict(fluctuations=P["fluct"], flexibility=flex if sp["flex"] else None,
                    asperity=P["asp"] if sp["asp"] else None, loglogavgslope=slope)
    ms = P["mslope"] if re_kind == "amplitude" else half(P["mslope"])
    return dict(scale=P["scale"], cutoff=P["cutoff"], loglogslope=ms)


def _build_cl(case, params):
    import nifty.cl as ift
    spaces = case["spaces"]
    cfm = ift.CorrelatedFieldMaker("")
    cfm.set_amplitude_total_offset(params[0]["offset_mean"], params[0]["azm"])
    for sp, P, pfx in zip(spaces, params, _prefixes(len(spaces))):
        dom = ift.HPSpace(sp["shape"][0]) if sp["geom"] == "hp" else ift.RGSpace(tuple(sp["shape"]), tuple(sp["dist"]))
        kw = _cl_params(sp, P, case["re_kind"])
        if sp["model"] == "np":
            cfm.add_fluctuations(dom, prefix=pfx, **kw)
        else:
            cfm.add_fluctuations_matern(dom, prefix=pfx, **kw)
    return cfm, cfm.finalize()


def _build_re(case, params):
    import nifty.re as jft
    spaces = case["spaces"]
    cfm = jft.CorrelatedFieldMaker("")
    cfm.set_amplitude_total_offset(offset_mean=params[0]["offset_mean"], offset_std=params[0]["azm"])
    for sp, P, pfx in zip(spaces, params, _prefixes(len(spaces))):
        ht = "spherical" if sp["geom"] == "hp" else "fourier"
        dist = None if sp["geom"] == "hp" else tuple(sp["dist"])
        if sp["model"] == "np":
            cfm.add_fluctuations(tuple(sp["shape"]), distances=dist, fluctuations=P["fluct"], loglogavgslope=P["slope"],
                                 flexibility=P["flex"] if sp["flex"] else None,
                                 asperity=P["asp"] if sp["asp"] else None, prefix=pfx, harmonic_type=ht,
                                 non_parametric_kind=case["re_kind"])
        else:
            cfm.add_fluctuations_matern(tuple(sp["shape"]), distances=dist, scale=P["scale"], cutoff=P["cutoff"],
                                        loglogslope=P["mslope"], renormalize_amplitude=sp["renorm"], prefix=pfx,
                                        harmonic_type=ht, non_parametric_kind=case["re_kind"])
    return cfm, cfm.finalize()


# =====================================================================================
#                                      evaluation
# =====================================================================================
class _Latents:
    """Common latent layout: scalars and `spectrum` arrays in the JAX layout (n, 2)."""

    def __init__(self, cl_dom, re_dom):
        self.cl_dom, self.re_dom = cl_dom, re_dom
        shapes = {}
        if re_dom is not None:
            for k, v in re_dom.items():
                shapes[k] = tuple(v.shape)
        if cl_dom is not None:
            for k in cl_dom.keys():
                shp = tuple(cl_dom[k].shape)
                if k.endswith("spectrum"):
                    shp = shp[::-1]
                if k in shapes and shapes[k] != shp:
                    raise _DomainMismatch(k, shapes[k], shp)
                shapes.setdefault(k, shp)
        self.xi_key = [k for k in shapes if k.endswith("xi")][0]
        self.shapes = shapes
        self.hyper = sorted((k for k in shapes if k != self.xi_key), key=lambda k: (len(shapes[k]), k))
        self.coords = [(k, i) for k in self.hyper for i in range(int(np.prod(shapes[k])))]
        self.n_xi = int(np.prod(shapes[self.xi_key]))

    def hyper_dict(self, vec):
        d = {k: np.zeros(self.shapes[k]) for k in self.hyper}
        for (k, i), v in zip(self.coords, vec):
            d[k].reshape(-1)[i] = v
        return d

    def cl_input(self, hd, xi):
        import nifty.cl as ift
        out = {}
        for k in self.cl_dom.keys():
            if k == self.xi_key:
                a = np.asarray(xi, dtype=float).reshape(self.cl_dom[k].shape)
            else:
                a = hd[k].T if k.endswith("spectrum") else hd[k]
                a = np.array(a, dtype=float).reshape(self.cl_dom[k].shape)
            out[k] = ift.makeField(self.cl_dom[k], a)
        return ift.MultiField.from_dict(out, self.cl_dom)

    def re_input(self, hd, xi, jnp):
        out = {}
        for k, v in self.re_dom.items():
            a = np.asarray(xi, dtype=float).reshape(v.shape) if k == self.xi_key else hd[k]
            out[k] = jnp.asarray(np.array(a, dtype=float).reshape(v.shape))
        return out


class _DomainMismatch(Exception):
    pass


def _hyper_points(n, grid):
    pts = [np.zeros(n)]
    for i in range(n):
        for s in ((1.,) if grid == "plus" else (1., -1.)):
            p = np.zeros(n)
            p[i] = s
            pts.append(p)
    if n > 1:
        pts.append(np.ones(n))
        pts.append(-np.ones(n))
        alt = np.where(np.arange(n) % 2, -1., 1.)
        pts.append(alt)
    if grid == "corners" and n > 1:
        m = min(n, 6)          # corners over the first (scalar) hyper coordinates, spectrum latents follow the sign
        for c in itertools.product((-1., 1.), repeat=m):
            p = np.concatenate([np.array(c), np.full(n - m, c[0])])
            pts.append(p)
    seen, out = set(), []
    for p in pts:
        t = tuple(p.tolist())
        if t not in seen:
            seen.add(t)
            out.append(p)
    return out


def _affine(f, n, probe_seed):
    b = np.asarray(f(np.zeros(n)), dtype=float)
    A = np.zeros((b.size, n))
    for i in range(n):
        e = np.zeros(n)
        e[i] = 1.
        A[:, i] = (np.asarray(f(e), dtype=float) - b).reshape(-1)
    p = np.random.default_rng([2801, probe_seed, n]).uniform(0.5, 1.5, n) * np.where(np.arange(n) % 2, -1., 1.)
    lin = float(np.abs(np.asarray(f(p), dtype=float).reshape(-1) - (b.reshape(-1) + A @ p)).max())
    return b, A, lin


def _affine_batch(fb, n, probe_seed):
    """same as _affine for a map that takes all inputs at once: fb((m, n) array) -> (m, ...) array"""
    p = np.random.default_rng([2801, probe_seed, n]).uniform(0.5, 1.5, n) * np.where(np.arange(n) % 2, -1., 1.)
    X = np.concatenate([np.zeros((1, n)), np.eye(n), p[None, :]], axis=0)
    Y = np.asarray(fb(X), dtype=float)
    b = Y[0]
    A = (Y[1:n + 1] - b[None]).reshape(n, -1).T
    lin = float(np.abs(Y[n + 1].reshape(-1) - (b.reshape(-1) + A @ p)).max())
    return b, A, lin


def _rel(a, b):
    a, b = np.asarray(a, dtype=float), np.asarray(b, dtype=float)
    if a.shape != b.shape:
        return float("inf")
    if not (np.all(np.isfinite(a)) and np.all(np.isfinite(b))):
        return float("nan")
    return float(np.abs(a - b).max(initial=0.) / max(1., np.abs(b).max(initial=0.)))


def _models_tag(spaces):
    return "x".join(("%s%s%s" % (s["model"], "+flex" if s["flex"] else "", "+asp" if s["asp"] else "")
                     + ("+renorm" if s["renorm"] else "") + (":hp" if s["geom"] == "hp" else "")) for s in spaces)


def _set_conv(conv):
    import nifty.config as cfg
    old = cfg._config.get("hartley_convention")
    cfg.update("hartley_convention", conv)
    return old


# =====================================================================================
#                                       cf cases
# =====================================================================================
def _run_cf(case):
    import jax
    import jax.numpy as jnp
    spaces = case["spaces"]
    nsp = len(spaces)
    params = [_setting(case["setting"], case["seed"], j) for j in range(nsp)]
    params = [dict(p, offset_mean=params[0]["offset_mean"], azm=params[0]["azm"]) for p in params]
    has_cl = all(not s["renorm"] for s in spaces)
    any_hp = any(s["geom"] == "hp" for s in spaces)
    tol = TOL_HP if any_hp else TOL
    mtag = _models_tag(spaces)
    tag = "%s|kind=%s" % (mtag, case["re_kind"])
    old = _set_conv(case["conv"])
    try:
        cfm_re, cf_re = _build_re(case, params)
        cfm_cl = cf_cl = None
        if has_cl:
            cfm_cl, cf_cl = _build_cl(case, params)
        try:
            L = _Latents(cf_cl.domain if has_cl else None, dict(cf_re.domain))
        except _DomainMismatch as e:
            return bad("classic and JAX model disagree on the latent shape of %r: %s vs %s" % e.args,
                       finding_key="parity|latent-domain|" + tag)
        pshape = tuple(int(n) for s in spaces for n in (s["shape"] if s["geom"] == "rg" else [12 * s["shape"][0] ** 2]))
        shapes = [tuple(s["shape"]) if s["geom"] == "rg" else (12 * s["shape"][0] ** 2,) for s in spaces]
        two_bin_flex = [j for j, s in enumerate(spaces) if s["model"] == "np" and s["flex"] and _nbins(s) == 2]
        stats = dict(hyper_points=0, unit_excitations=0, parity_compared=0, norm_compared=0)
        pts = _hyper_points(len(L.coords), case["grid"])
        maxA = 0.
        for hv in pts:
            hd = L.hyper_dict(hv)
            hdesc = {k: np.asarray(v).round(3).tolist() for k, v in hd.items()}
            if any_hp:      # the spherical transform is a host callback: one call per excitation
                f_re = lambda xi: np.asarray(cf_re(L.re_input(hd, xi, jnp)))
                b_re, A_re, lin_re = _affine(f_re, L.n_xi, case["seed"])
            else:           # all unit excitations in one batched (vmap) evaluation of the model
                hj = {k: v for k, v in L.re_input(hd, np.zeros(L.n_xi), jnp).items() if k != L.xi_key}
                xshape = tuple(cf_re.domain[L.xi_key].shape)
                fb = lambda X: jax.vmap(lambda xi: cf_re(dict(hj, **{L.xi_key: xi.reshape(xshape)})))(jnp.asarray(X))
                b_re, A_re, lin_re = _affine_batch(fb, L.n_xi, case["seed"])
            stats["hyper_points"] += 1
            stats["unit_excitations"] += L.n_xi
            if not (np.all(np.isfinite(b_re)) and np.all(np.isfinite(A_re))):
                return bad("JAX model returns non-finite values", finding_key="re|non-finite|" + tag, detail=hdesc)
            if b_re.shape != pshape:
                return bad("JAX field shape %s, expected %s" % (b_re.shape, pshape), finding_key="re|shape|" + tag)
            if lin_re > 1e-9 * max(1., np.abs(A_re).max()):
                return bad("JAX model is not affine in xi at fixed hyper latents (%.3g)" % lin_re,
                           finding_key="re|nonlinear|" + tag, detail=hdesc)
            maxA = max(maxA, float(np.abs(A_re).max()))
            flav = [("re", b_re, A_re)]
            if has_cl:
                f_cl = lambda xi: cf_cl(L.cl_input(hd, xi)).asnumpy()
                b_cl, A_cl, lin_cl = _affine(f_cl, L.n_xi, case["seed"])
                stats["unit_excitations"] += L.n_xi
                if not (np.all(np.isfinite(b_cl)) and np.all(np.isfinite(A_cl))):
                    if two_bin_flex:
                        return bad("classic model returns NaN when `flexibility` is given on a grid whose power space has "
                                   "only two bins (the JAX model ignores the deviations there and is finite)",
                                   finding_key="cl|nan|flexibility-on-two-bin-power-space", detail=hdesc)
                    return bad("classic model returns non-finite values", finding_key="cl|non-finite|" + tag, detail=hdesc)
                if lin_cl > 1e-9 * max(1., np.abs(A_cl).max()):
                    return bad("classic model is not affine in xi at fixed hyper latents (%.3g)" % lin_cl,
                               finding_key="cl|nonlinear|" + tag, detail=hdesc)
                # ---------------- parity
                db, dA = _rel(b_cl, b_re), _rel(A_cl, A_re.reshape(A_cl.shape))
                stats["parity_compared"] += 1
                if not (db <= tol and dA <= tol):
                    which = "offset" if not db <= tol else "excitation-response"
                    return bad("classic and JAX field differ for the same latents (offset rel diff %.3g, response rel "
                               "diff %.3g)" % (db, dA), finding_key="parity|%s|%s" % (which, tag),
                               detail=dict(hyper=hdesc, conv=case["conv"]))
                flav.append(("cl", b_cl, A_cl))
            # ---------------- offset and normalisation
            z = R.lognormal_value(*params[0]["azm"], float(hd["zeromode"]))
            f_doc = []
            for sp, P, pfx in zip(spaces, params, _prefixes(nsp)):
                if sp["model"] == "np":
                    f_doc.append(R.lognormal_value(*P["fluct"], float(hd[pfx + "fluctuations"])))
                elif sp["renorm"]:
                    f_doc.append(R.lognormal_value(*P["scale"], float(hd[pfx + "scale"])))
                else:
                    f_doc.append(None)
            doc = R.documented_fluctuations(z, f_doc) if all(f is not None for f in f_doc) else None
            for name, b, A in flav:
                if _rel(b, np.full(b.shape, params[0]["offset_mean"])) > tol:
                    return bad("%s: field at zero excitation is not the constant offset_mean" % name,
                               finding_key="%s|offset|%s" % (name, tag), detail=hdesc)
                if any_hp:
                    continue
                real = R.realised_fluctuations(A.reshape(-1, L.n_xi), shapes)
                preds = []
                if doc is not None:
                    preds.append(("documented-formula", doc, ("fluctuation", "total", "slice")))
                elif nsp > 1:
                    # a space without documented amplitude (Matern, not renormalised): take its realised average
                    # fluctuation as f_i and still decide the documented PRODUCT structure (total, slice)
                    f_mix = [real["average"][i] if f is None else f for i, f in enumerate(f_doc)]
                    preds.append(("documented-product-formula", R.documented_fluctuations(z, f_mix), ("total", "slice")))
                if name == "cl":
                    x0 = L.cl_input(hd, np.zeros(L.n_xi))
                    own = dict(total=float(cfm_cl.total_fluctuation.force(x0).asnumpy()),
                               slice=[float(cfm_cl.slice_fluctuation(i).force(x0).asnumpy()) for i in range(nsp)],
                               average=[float(cfm_cl.average_fluctuation(i).force(x0).asnumpy()) for i in range(nsp)])
                    preds.append(("own-prediction", own, ("fluctuation", "total", "slice")))
                for pname, pred, what in preds:
                    stats["norm_compared"] += 1
                    items = []
                    if "fluctuation" in what:      # per-space amplitude first: it is the root of the other formulas
                        for i in range(nsp):
                            items.append(("fluctuation-amplitude(%s-space)" % spaces[i]["model"],
                                          real["average"][i], pred["average"][i], ""))
                    if "total" in what:
                        items.append(("total_fluctuation", real["total"], pred["total"], "|" + mtag))
                    if "slice" in what and nsp > 1:
                        for i in range(nsp):
                            items.append(("slice_fluctuation(%s-space)" % spaces[i]["model"], real["slice"][i],
                                          pred["slice"][i], "|" + mtag))
                    for q, got, want, extra in items:
                        if not abs(got - want) <= 1e-9 * max(1., abs(want)):
                            return bad("%s: exact expected %s of the field (%.6g) differs from the %s (%.6g); grid %s, "
                                       "distances %s" % (name, q, got, pname, want, [s["shape"] for s in spaces],
                                                         [s["dist"] for s in spaces]),
                                       finding_key="%s|normalisation|%s|%s%s" % (name, q, pname, extra),
                                       detail=dict(hyper=hdesc, realised=real, predicted=pred))
        compared = stats["parity_compared"] + stats["norm_compared"]
        return ok(nontrivial=maxA > 0 and compared > 0,
                  outcome="cf:%s:%s:%s%s" % (mtag, case["re_kind"], "parity" if has_cl else "re-only",
                                            "" if any_hp else "+norm"),
                  stats=stats)
    finally:
        _set_conv(old)


# =====================================================================================
#                                     simple cases
# =====================================================================================
def _run_simple(case):
    import nifty.cl as ift
    P = _setting(case["setting"], case["seed"], 0)
    dom = ift.RGSpace(tuple(case["shape"]), tuple(case["dist"]))
    flex = P["flex"] if case["flex"] else None
    asp = P["asp"] if case["asp"] else None
    zm = P["azm"] if case["offset_std"] == "tuple" else None
    sp = _space("np", case["shape"], case["dist"], case["flex"], case["asp"])
    tag = "%s|offset_std=%s" % (_models_tag([sp]), case["offset_std"])
    scf = ift.SimpleCorrelatedField(dom, P["offset_mean"], zm, P["fluct"], flex, asp, P["slope"])
    cfm = ift.CorrelatedFieldMaker("")
    cfm.set_amplitude_total_offset(P["offset_mean"], zm)
    cfm.add_fluctuations(dom, P["fluct"], flex, asp, P["slope"])
    cf = cfm.finalize()
    if set(scf.domain.keys()) != set(cf.domain.keys()) or any(scf.domain[k] != cf.domain[k] for k in cf.domain.keys()):
        return bad("SimpleCorrelatedField and CorrelatedFieldMaker have different latent domains: %s vs %s"
                   % (sorted(scf.domain.keys()), sorted(cf.domain.keys())), finding_key="simple|latent-domain|" + tag)
    L = _Latents(cf.domain, None)
    stats = dict(hyper_points=0, unit_excitations=0, parity_compared=0, norm_compared=0)
    maxA = 0.
    two_bin = case["flex"] and _nbins(sp) == 2
    for hv in _hyper_points(len(L.coords), case["grid"]):
        hd = L.hyper_dict(hv)
        hdesc = {k: np.asarray(v).round(3).tolist() for k, v in hd.items()}
        b1, A1, _ = _affine(lambda xi: cf(L.cl_input(hd, xi)).asnumpy(), L.n_xi, case["seed"])
        b2, A2, _ = _affine(lambda xi: scf(L.cl_input(hd, xi)).asnumpy(), L.n_xi, case["seed"])
        stats["hyper_points"] += 1
        stats["unit_excitations"] += 2 * L.n_xi
        fin = [bool(np.all(np.isfinite(b)) and np.all(np.isfinite(A))) for b, A in ((b1, A1), (b2, A2))]
        if not all(fin):
            if two_bin:
                return bad("classic model returns NaN when `flexibility` is given on a grid whose power space has only "
                           "two bins (CorrelatedFieldMaker finite: %s, SimpleCorrelatedField finite: %s)" % tuple(fin),
                           finding_key="cl|nan|flexibility-on-two-bin-power-space", detail=hdesc)
            return bad("classic model returns non-finite values", finding_key="cl|non-finite|simple|" + tag, detail=hdesc)
        db, dA = _rel(b2, b1), _rel(A2, A1)
        stats["parity_compared"] += 1
        if not (db <= TOL and dA <= TOL):
            return bad("SimpleCorrelatedField differs from CorrelatedFieldMaker with one spectrum (offset %.3g, response "
                       "%.3g)" % (db, dA), finding_key="simple|parity|" + tag, detail=hdesc)
        maxA = max(maxA, float(np.abs(A1).max()))
        f = R.lognormal_value(*P["fluct"], float(hd["fluctuations"]))
        for name, A in (("cl", A1), ("simple", A2)):
            real = R.realised_fluctuations(A.reshape(-1, L.n_xi), [tuple(case["shape"])])
            stats["norm_compared"] += 1
            if not abs(real["total"] - f) <= 1e-9 * max(1., f):
                return bad("%s: exact expected total fluctuation of the field (%.6g) differs from `fluctuations` (%.6g); "
                           "grid %s, distances %s" % (name, real["total"], f, case["shape"], case["dist"]),
                           finding_key="%s|normalisation|total_fluctuation|documented-formula|%s" % (name, tag),
                           detail=hdesc)
    return ok(nontrivial=maxA > 0, outcome="simple:%s" % tag, stats=stats)


def run(case):
    if case["kind"] == "simple":
        return _run_simple(case)
    return _run_cf(case)
