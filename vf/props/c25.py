"""C25 The classic VI driver resumes after a crash with identical results.

Mode F, same engine as C24: the write history of one uninterrupted
`ift.optimize_kl(..., output_directory=...)` run is recorded; every crash
state (before every FS event, torn writes, end) is materialised and resumed
(resume=True, same arguments, pristine RNG state as a restarted script has);
final samples and mean must be bit-identical to the uninterrupted run.
"""
import os
import pickle
import shutil
import tempfile

from vf.core import ok, bad, skip

ID = "C25"
LEVEL = "fault_enumeration"
RULE = ("case = (scenario = save strategy x per-iteration sample schedule, crash point of the recorded write "
        "history incl. torn writes and the clean end); every crash state is materialised and resumed; "
        "non-trivial = directory differs from every iteration-boundary state; distinct = distinct directory digests")
ASSUMPTIONS = [
    "process-kill model (completed operations persist; torn writes; no power-loss reordering)",
    "plotting and HDF5 export disabled so that every write goes through Python open() (asserted: model FS == real FS)",
    "append-only report files (minisanity.txt, counting_report.txt) are not compared (contain wall-clock time)",
]

SCHEDULES = {"s222": [2, 2, 2], "s022": [0, 2, 2], "s202": [2, 0, 2], "s312": [3, 1, 2], "s220": [2, 2, 0],
             # four iterations with the stochasticity of iteration 0 re-used in iterations 1..3 (fresh_stochasticity=False)
             "s2222f": [2, 2, 2, 2]}
FRESH = {"s2222f": [True, False, False, False]}


def scenarios(tier):
    out = []
    scheds = ["s202", "s312"] if tier == "quick" else [k for k in SCHEDULES if k != "s2222f"]
    for strat in ("all", "latest"):
        for s in scheds:
            out.append("%s-%s" % (strat, s))
    out.append("all-s2222f")
    if tier != "quick":
        out.append("latest-s2222f")
    return out


def _scenario_run(name, odir, resume, total=None):
    import nifty.cl as ift
    from vf import models_cl
    models_cl.quiet()
    models_cl.reset_random()
    strat, s = name.split("-")
    ns = SCHEDULES[s]
    lh = models_cl.two_key_model()
    mini, ic_samp = models_cl.minimizers()
    sl, mean = ift.optimize_kl(lh, len(ns) if total is None else total, lambda i: ns[i], mini, ic_samp,
                               output_directory=odir, save_strategy=strat, resume=resume,
                               plot_energy_history=False, plot_minisanity_history=False,
                               fresh_stochasticity=(lambda i, fr=FRESH.get(s): True if fr is None else fr[i]),
                               return_final_position=True, comm=None)
    return models_cl.samplelist_digest(sl, mean)


def _record(name):
    from vf import fsfault
    import sys
    import nifty.cl  # noqa
    okl = sys.modules["nifty.cl.minimization.optimize_kl"]
    tmp = tempfile.mkdtemp(prefix="c25_ref_")
    odir = os.path.join(tmp, "out")
    try:
        rec = fsfault.Recorder(odir, module_patches=[(okl, "makedirs", "makedirs")] + ([(okl, "replace", "replace")] if hasattr(okl, "replace") else []))
        with rec:
            ref = _scenario_run(name, odir, resume=False)
        real = fsfault.snapshot(odir)
        model = fsfault.state_at(rec.events, len(rec.events))
        model.pop(".", None)
        if model != real:
            diff = [p for p in set(model) | set(real) if model.get(p, 0) != real.get(p, 0)]
            raise RuntimeError("fsfault model FS differs from the real directory: %s" % diff)
        return rec.events, ref, rec.overlap
    finally:
        shutil.rmtree(tmp, ignore_errors=True)


def _workdir():
    import multiprocessing
    main = multiprocessing.current_process().name == "MainProcess"
    return os.path.join(tempfile.gettempdir(), "c25_work_%d" % (os.getpid() if main else os.getppid()))


def _logpath(name):
    return os.path.join(_workdir(), name + ".pkl")


_RELOG = {}


def cases(tier, seed):
    from vf import fsfault
    os.makedirs(_workdir(), exist_ok=True)
    out = []
    for name in scenarios(tier):
        events, ref, overlap = _record(name)
        if _record(name)[1] != ref:
            raise RuntimeError("reference run not deterministic")
        with open(_logpath(name), "wb") as f:
            pickle.dump(dict(events=events, ref=ref), f)
        committed = {fsfault.fs_digest({})}
        for k, ev in enumerate(events):
            if ev["op"] == "close" and ev["path"].endswith("counting_report.txt"):
                committed.add(fsfault.fs_digest(fsfault.state_at(events, k + 1)))
        seen = set()
        for lab, fs in fsfault.crash_states(events):
            dig = fsfault.fs_digest(fs)
            if dig in seen and lab["point"] != "end":
                continue
            seen.add(dig)
            out.append(dict(scenario=name, k=lab["k"], point=lab["point"], op=lab["op"], path=lab["path"],
                            torn=lab.get("bytes"), lost=bool(lab.get("lost")), fsdigest=dig, committed=dig in committed,
                            n_events=len(events),
                            double=(tier == "thorough" and name in ("all-s202", "all-s312"))))
    out.sort(key=lambda c: (c["k"], c["scenario"]))
    return out


def _in_latest_window(events, k, torn):
    """True iff (strategy latest) the crash falls after the first in-place
    replacement of a `pickle/latest.*` sample/mean file of an iteration and
    before that iteration's update of the progress marker: the directory then
    mixes files of iteration N with a marker naming N-1.  This is the root
    cause recorded as a known finding (in-place overwrite under 'latest')."""
    import re
    dirty = False
    n = k + (1 if torn is not None else 0)
    for ev in events[:k]:
        p = ev.get("dst") or ev["path"]
        if ev["op"] in ("rename", "remove") or (ev["op"] == "open" and "w" in ev.get("mode", "")):
            if re.match(r"pickle/latest\.(\d+|mean)\.pickle$", p):
                dirty = True
            if p == "last_finished_iteration":
                dirty = False
    return dirty


def _window(case, events):
    k = case["k"]
    if case["point"] == "end":
        return "end"
    openfile = None
    for ev in events[:k]:
        if ev["op"] == "open":
            openfile = (ev["path"], ev["mode"])
        elif ev["op"] == "close":
            openfile = None
    ev = events[k]

    def gen(p):  # generic name: strip iteration / sample numbers
        import re
        p = re.sub(r"iteration_\d+", "iteration_N", p)
        p = re.sub(r"\.\d+\.pickle", ".K.pickle", p)
        return p
    if case["point"] == "torn":
        return "torn-write:%s" % gen(ev["path"])
    if case["point"] == "unflushed":
        return "unflushed-buffer-lost:before-%s(%s)" % (ev["op"], gen(ev["path"]))
    if openfile is not None:
        return "inside-open(%s,%s)" % (gen(openfile[0]), openfile[1])
    return "before-%s(%s)" % (ev["op"], gen(ev["path"]))


def run(case):
    from vf import fsfault
    name = case["scenario"]
    if os.path.exists(_logpath(name)):
        log = pickle.load(open(_logpath(name), "rb"))
        events, ref = log["events"], log["ref"]
    else:
        if name not in _RELOG:
            _RELOG[name] = _record(name)
        events, ref, _ = _RELOG[name]
    fs = fsfault.state_at(events, case["k"], torn_bytes=case["torn"], lost=bool(case.get("lost")))
    if fsfault.fs_digest(fs) != case["fsdigest"]:
        raise RuntimeError("crash state not reproducible")
    window = _window(case, events)
    strat, sched = name.split("-")
    inplace = strat == "latest" and _in_latest_window(events, case["k"], case["torn"])
    # which sample-list formats are involved (MAP iterations write plain lists)
    tmp = tempfile.mkdtemp(prefix="c25_crash_")
    odir = os.path.join(tmp, "out")
    try:
        if fs:
            fsfault.materialise(fs, odir)
        try:
            got = _scenario_run(name, odir, resume=True)
        except Exception as e:
            return bad("resume impossible after crash (%s, k=%d/%d, %s): %s: %s" % (
                window, case["k"], case["n_events"], name, type(e).__name__, str(e)[:160]),
                finding_key=("latest-inplace-window|resume-raises|%s" % type(e).__name__) if inplace else
                "resume-raises|%s|%s|%s" % (strat, window, type(e).__name__))
        if got != ref:
            diff = [k for k in ref if got.get(k) != ref[k]]
            return bad("resumed run silently differs from the uninterrupted run in %s (%s, k=%d, %s)" % (
                diff, window, case["k"], name),
                finding_key="latest-inplace-window|resume-differs" if inplace else
                "resume-differs|%s|%s|%s" % (strat, window, sched if case["point"] == "end" else "*"))
        # the directory left by the completed resumed run must itself be loadable and equal
        try:
            again = _scenario_run(name, odir, resume=True)
        except Exception as e:
            return bad("directory left by the resumed run cannot be resumed/loaded (%s): %r" % (window, e),
                       finding_key="final-state-unloadable|%s|%s" % (strat, window))
        if again != ref:
            return bad("directory left by the resumed run loads different samples (%s, %s)" % (window, name),
                       finding_key="final-state-differs|%s|%s" % (strat, window))
        second = 0
        if case.get("double"):
            # ---- second crash during the resumed run (strategy "all": every such state must be resumable, too)
            import sys
            okl = sys.modules["nifty.cl.minimization.optimize_kl"]
            shutil.rmtree(odir, ignore_errors=True)
            if fs:
                fsfault.materialise(fs, odir)
            rec = fsfault.Recorder(odir, module_patches=[(okl, "makedirs", "makedirs")] + (
                [(okl, "replace", "replace")] if hasattr(okl, "replace") else []))
            with rec:
                _scenario_run(name, odir, resume=True)
            seen2 = set()
            for lab2, fs2 in fsfault.crash_states(rec.events, initial=fs):
                dig2 = fsfault.fs_digest(fs2)
                if dig2 in seen2:
                    continue
                seen2.add(dig2)
                shutil.rmtree(odir, ignore_errors=True)
                if fs2:
                    fsfault.materialise(fs2, odir)
                w2 = _window(dict(k=lab2["k"], point=lab2["point"]), rec.events) if lab2["point"] != "end" else "end"
                try:
                    got2 = _scenario_run(name, odir, resume=True)
                except Exception as e:
                    return bad("resume impossible after a second crash during the resumed run (first: %s, second: %s, %s): %s: %s"
                               % (window, w2, name, type(e).__name__, str(e)[:150]),
                               finding_key="double|resume-raises|%s|%s|%s" % (strat, w2, type(e).__name__))
                if got2 != ref:
                    return bad("result differs after a second crash during the resumed run (first: %s, second: %s, %s)" % (window, w2, name),
                               finding_key="double|resume-differs|%s|%s" % (strat, w2))
                second += 1
    finally:
        shutil.rmtree(tmp, ignore_errors=True)
    return ok(nontrivial=not case["committed"], outcome="resumed-ok|%s|%s" % (strat, window.split("(")[0].split(":")[0]),
              stats=dict(states=1 + second, second_level_states=second))


def finish(run):
    shutil.rmtree(_workdir(), ignore_errors=True)
    return dict(crash_states=run.evaluations, scenarios=scenarios(run.tier), states=int(run.extra.get("states", 0)),
                second_level_crash_states=int(run.extra.get("second_level_states", 0)))
