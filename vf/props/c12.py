"""C12 JAX likelihoods factor their metric and equal the Fisher information.

Modes P + W.  A case = (likelihood kind(s), data shape, composition, grid point).
At the case's latent point xi the data distribution at theta = model(xi) is
enumerated EXACTLY (every outcome of Poisson / categorical data with its
probability, Poisson truncated far below 1e-14 tail mass; exact tensor Gauss
quadrature for the continuous families).  The real likelihood object is built
by its constructor, and for EVERY data outcome (vmapped over the data leaves of
the likelihood pytree) the following are computed by basis enumeration over
every real and imaginary unit vector:

  M = metric, L = left_sqrt_metric (on the declared lsm_tangents_shape),
  R = right_sqrt_metric, J = Jacobian of transformation, g = grad energy.

  factor     M == L R
  adjoint    R == L^H                      (real-ified transpose)
  pullback   L == J^H exactly, or  sum_d p(d) J(d)^H J(d) == M  where the
             transformation is documented as a local approximation
  fisher     M == J_f^T Fisher(theta) J_f  (Fisher = sum_d p(d) score score^T
             of the independent reference model == closed form), and
             sum_d p(d) g(d) g(d)^T == M   (mode W through the library's own energy)
  energy     g(d) == reference score, E(xi;d)-E(xi0;d) == -log p ratio (scipy.stats)

Compositions: amend (exp, matrix, pytree split, amend twice), LikelihoodSum of
pairs, freeze of every proper subset of the latent keys.
"""
import itertools
import os

import numpy as np

from vf.core import ok, bad, skip
from vf.props.c11 import _rng, alphabet, grid_points

ID = "C12"
LEVEL = "exploration"
JAX = True
RULE = ("case = (likelihood kind [Gaussian unit/diag callables/diag array/std only/dense/complex/complex Hermitian dense, StudentT scalar/"
        "field dof/dense+field dof, Poissonian, VariableCovarianceGaussian real/complex, VariableCovarianceStudentT "
        "scalar/field dof, NDVariableCovarianceGaussian covariance/precision, Categorical axis -1/0], data shape "
        "[array, batched 2 rows, pytree Vector], composition [plain, amend exp, amend matrix(+link), amend pytree "
        "split, freeze x, freeze y, amend twice, LikelihoodSum of every unordered pair of 8 base kinds, sum + "
        "freeze, every association shape of sums of 3 and 4 terms], point of a 4-value grid per latent coordinate (full product up to 16|256 points else 4 rotations "
        "+ all single-coordinate deviations)); every case enumerates ALL data outcomes / exact quadrature nodes and "
        "evaluates energy, gradient, dense metric, left/right square root and transformation Jacobian on each; "
        "non-trivial = more than one data outcome, non-identity metric")
ASSUMPTIONS = [
    "float64, x64 enabled; parameters on a 4-value alphabet per coordinate (VERIF_SEED jitters the values)",
    "Poisson data enumerated on 0..K with K = cut(4.0) (tail mass < 1e-16), rates < 4",
    "continuous data: tensor Gauss-Hermite/-Jacobi rules exact for the polynomial integrands",
    "noise_std_inv callables are symmetric (Hermitian) square roots of noise_cov_inv",
    "NDVariableCovarianceGaussian: Fisher bilinear form compared on symmetric matrix perturbations",
    "complex data: variance 1/cov_inv per real component; Fisher on (Re, Im) coordinates",
    "data leaves are vmapped through the likelihood pytree (the constructor runs once per case)",
]
TOL = 1e-9
MAX_OUTCOMES = 2600

SHAPES = ("vec", "batch", "tree")
# kind -> (family tag, allowed shapes)
KINDS = {
    "gauss_unit": SHAPES, "gauss_diag": SHAPES, "gauss_diagarr": SHAPES, "gauss_stdonly": SHAPES,
    "gauss_dense": ("vec",), "gauss_cplx": SHAPES, "gauss_cplxdense": ("vec",),
    "studentt": SHAPES, "studentt_fielddof": SHAPES, "studentt_dense_fielddof": ("vec",),
    "poissonian": SHAPES,
    "vcg_real": SHAPES, "vcg_cplx": SHAPES,
    "vcst": SHAPES, "vcst_fielddof": SHAPES,
    "ndvcg_cov": SHAPES, "ndvcg_prec": SHAPES,
    "categorical": SHAPES, "categorical_ax0": ("batch",),
}
BASE = ["gauss_diag", "gauss_cplx", "studentt", "poissonian", "vcg_real", "vcst", "ndvcg_cov", "categorical"]
WRAPS = ["plain", "exp", "matrix", "split", "freeze_x", "freeze_y", "amend2"]
NCAT = 3
# association shapes of LikelihoodSums of 3 and 4 terms: (a+b)+c flattens (LikelihoodSum.__add__), a+(b+c) nests
SUMTREES = {"sum3l": ((0, 1), 2), "sum3r": (0, (1, 2)), "sum4ll": (((0, 1), 2), 3), "sum4lm": ((0, (1, 2)), 3),
            "sum4bal": ((0, 1), (2, 3)), "sum4rm": (0, ((1, 2), 3)), "sum4rr": (0, (1, (2, 3)))}
SUMKINDS = {3: [["gauss_diag", "studentt", "poissonian"], ["vcg_real", "gauss_cplx", "vcst"]],
            4: [["gauss_diag", "studentt", "vcg_real", "vcst"]]}


def is_cplx(kind):
    return kind in ("gauss_cplx", "gauss_cplxdense", "vcg_cplx")


def blocks_of(kind, shape, n=2):
    """Primal blocks of a likelihood: (name, leaf shapes, complex, grid axis type)."""
    if kind.startswith("ndvcg"):
        rows = 1 if shape == "vec" else 2
        if shape == "vec":
            return [("mean", [(2,)], False, "real"), ("mat", [(2, 2)], False, "spd")]
        if shape == "batch":
            return [("mean", [(2, 2)], False, "real"), ("mat", [(2, 2, 2)], False, "spd")]
        return [("mean", [(2,), (2,)], False, "real"), ("mat", [(2, 2), (2, 2)], False, "spd")]
    if kind.startswith("categorical"):
        if shape == "vec":
            ls = [(NCAT,)]
        elif shape == "batch":
            ls = [(NCAT, 2)] if kind.endswith("ax0") else [(2, NCAT)]
        else:
            ls = [(NCAT,), (NCAT,)]
        return [("logits", ls, False, "real")]
    if shape == "vec":
        ls = [(n,)]
    elif shape == "batch":
        ls = [(n, 1)]
    else:
        ls = [(1,)] * n
    c = is_cplx(kind)
    if kind.startswith("vcg"):
        return [("mean", ls, c, "real"), ("std_inv", ls, False, "pos")]
    if kind.startswith("vcst"):
        return [("mean", ls, False, "real"), ("std", ls, False, "pos")]
    if kind == "poissonian":
        return [("rate", ls, False, "pos")]
    return [("mean", ls, c, "real")]


def n_outcomes(kind, shape, n=2):
    if kind.startswith("ndvcg"):
        return 9 if shape == "vec" else 81
    if kind.startswith("categorical"):
        return NCAT if shape == "vec" else NCAT ** 2
    per = {"gauss": 4 if is_cplx(kind) else 2, "studentt": 4, "poissonian": 29, "vcg": 9 if is_cplx(kind) else 3,
           "vcst": 5}[kind.split("_")[0]]
    return per ** n


def block_size(b):
    return int(sum(np.prod(s, dtype=int) for s in b[1])) * (2 if b[2] else 1)


def latent_axes(kinds, shape, wrap):
    """Grid axis types of the latent space of a structure (jax free)."""
    if wrap == "plain" or wrap == "exp":
        axes = []
        for name, ls, c, at in blocks_of(kinds[0], shape):
            if at == "spd":
                rows = len(ls) if len(ls) > 1 else (ls[0][0] if len(ls[0]) == 3 else 1)
                axes += ["spd"] * (3 * rows)
            else:
                axes += [("logpos" if at == "pos" else "smallreal") if wrap == "exp" else at] * block_size((name, ls, c))
        return axes
    return ["smallreal", "smallreal"]


def cases(tier, seed):
    seed = int(seed)
    out = []
    ref = [dict(kinds=[k], shape="vec" if "vec" in KINDS[k] else "batch", wrap="refcheck", pt=[], seed=seed, tier=tier)
           for k in KINDS]
    full_limit = 16 if tier == "quick" else 256
    structs = []
    for kind, shapes in KINDS.items():
        for shape in shapes:
            for wrap in WRAPS:
                if wrap == "exp" and (is_cplx(kind) or kind.startswith("ndvcg")):
                    continue
                if tier == "quick" and wrap != "plain" and shape != shapes[0] and not (shape == "tree" and wrap == "split"):
                    continue
                structs.append(([kind], shape, wrap))
    pairs = [(a, b) for i, a in enumerate(BASE) for b in BASE[i:]]
    for a, b in pairs:
        structs.append(([a, b], "vec", "sum"))
    for a in BASE:
        if tier == "thorough" or a in ("gauss_diag", "poissonian", "vcg_real", "categorical"):
            structs.append(([a, "gauss_diag"], "vec", "sum_freeze_x"))
            structs.append(([a, "studentt"], "vec", "sum_freeze_y"))
    for w, tree in SUMTREES.items():
        for ks in SUMKINDS[int(w[3])]:
            structs.append((ks, "vec", w))
    worder = WRAPS + ["sum", "sum_freeze_x", "sum_freeze_y"] + list(SUMTREES)
    structs.sort(key=lambda s: (worder.index(s[2]), SHAPES.index(s[1]), len(s[0])))
    for kinds, shape, wrap in structs:
        n = 1 if wrap.startswith("sum") else 2
        tot = 1
        for k in kinds:
            tot *= n_outcomes(k, shape, n)
        if tot > MAX_OUTCOMES:
            continue
        D = len(latent_axes(kinds, shape, wrap))
        for pt in grid_points(D, full_limit):
            out.append(dict(kinds=kinds, shape=shape, wrap=wrap, pt=pt, seed=seed, tier=tier))
    step = max(1, len(out) // len(ref))
    for i, r in enumerate(ref):
        out.insert(min(len(out), i * (step + 1)), r)
    return out


# ------------------------------------------------------------------ flat <-> pytree
class Flat:
    """Real-ified flat vector <-> pytree.  blocks: list of (name, leaf shapes, complex);
    layout per block: [Re of all leaves (C order) ..., Im of all leaves ...]."""

    def __init__(self, blocks, assemble):
        self.blocks = [(b[0], [tuple(s) for s in b[1]], bool(b[2])) for b in blocks]
        self.assemble = assemble          # list of leaf arrays (block order) -> pytree
        self.sizes = [block_size(b) for b in self.blocks]
        self.offs = list(np.concatenate([[0], np.cumsum(self.sizes)]).astype(int))
        self.dim = int(sum(self.sizes))
        self.nleaves = sum(len(b[1]) for b in self.blocks)

    def leaves(self, v):
        import jax.numpy as jnp
        out = []
        for (name, ls, c), off, size in zip(self.blocks, self.offs, self.sizes):
            half = size // 2 if c else size
            o = off
            for s in ls:
                k = int(np.prod(s, dtype=int))
                re = v[o:o + k].reshape(s)
                out.append(re + 1j * v[o + half:o + half + k].reshape(s) if c else re)
                o += k
        return out

    def tree(self, v):
        return self.assemble(self.leaves(v))

    def flat(self, tree):
        import jax
        import jax.numpy as jnp
        lv = jax.tree_util.tree_leaves(tree)
        if len(lv) != self.nleaves:
            raise ValueError("pytree has %d leaves, expected %d" % (len(lv), self.nleaves))
        parts, i = [], 0
        for name, ls, c in self.blocks:
            mine = lv[i:i + len(ls)]
            i += len(ls)
            for a, s in zip(mine, ls):
                if tuple(jnp.shape(a)) != tuple(s):
                    raise ValueError("leaf of block %s has shape %s, expected %s" % (name, jnp.shape(a), s))
            parts += [jnp.real(a).reshape(-1) for a in mine]
            if c:
                parts += [jnp.imag(a).reshape(-1) for a in mine]
        return jnp.concatenate(parts) if parts else jnp.zeros(0)

    def block_of(self, j):
        for (name, _, _), off, size in zip(self.blocks, self.offs, self.sizes):
            if off <= j < off + size:
                return name
        return "?"


def wrap_leaves(shape):
    import nifty.re as jft
    if shape == "tree":
        return lambda lv: jft.Vector({"a": lv[0], "b": lv[1]})
    return lambda lv: lv[0]


# ------------------------------------------------------------------ one likelihood term
class TermSpec:
    """One library likelihood + its reference family."""

    def __init__(self, kind, shape, n, seed, tag=""):
        from vf.ref import c11_families as F
        from vf.ref import c12_families as G
        self.kind, self.shape, self.n = kind, shape, n
        self.blocks = blocks_of(kind, shape, n)
        r = _rng(seed, "c12aux" + kind + shape + tag)
        w = r.uniform(0.5, 2., n)
        dof = [1.0, 2.5, 4.0][int(r.integers(0, 3))]
        dofs = np.array([1.0, 2.5, 4.0, 7.0])[(int(r.integers(0, 4)) + np.arange(n)) % 4]
        Rm = np.eye(n) + 0.3 * r.uniform(-1, 1, (n, n))
        P = Rm.T @ np.diag(w) @ Rm
        ev, U = np.linalg.eigh(P)
        S = U @ np.diag(np.sqrt(ev)) @ U.T
        Rc = Rm + 0.3j * r.uniform(-1, 1, (n, n))
        Pc = Rc.conj().T @ np.diag(w) @ Rc
        evc, Uc = np.linalg.eigh(Pc)
        Sc = Uc @ np.diag(np.sqrt(evc)) @ Uc.conj().T
        self.aux = dict(w=w, dof=dof, dofs=dofs, P=P, S=S, Pc=Pc, Sc=Sc)
        k = kind
        if k == "gauss_unit":
            fam = F.Gauss(np.eye(n))
        elif k in ("gauss_diag", "gauss_diagarr", "gauss_stdonly"):
            fam = F.Gauss(np.diag(w))
        elif k == "gauss_dense":
            fam = F.Gauss(P)
        elif k == "gauss_cplx":
            fam = F.Gauss(np.diag(np.tile(w, 2)))
        elif k == "gauss_cplxdense":
            fam = F.Gauss(np.block([[Pc.real, -Pc.imag], [Pc.imag, Pc.real]]))
        elif k == "studentt":
            fam = G.StudentTWhitened(np.full(n, dof), np.diag(np.sqrt(w)))
        elif k == "studentt_fielddof":
            fam = G.StudentTWhitened(dofs, np.diag(np.sqrt(w)))
        elif k == "studentt_dense_fielddof":
            fam = G.StudentTWhitened(dofs, S)
        elif k == "poissonian":
            fam = F.Poisson(n)
            kmax = F.Poisson.cut(4.0)
            fam_out = fam.outcomes

            def outcomes(theta, kmax=kmax, n=n):
                import scipy.stats as st
                assert np.all(np.asarray(theta) < 4.0)
                ks = np.arange(kmax + 1)
                return F.tensor([(ks, st.poisson.pmf(ks, lam)) for lam in np.asarray(theta)])
            fam.outcomes = outcomes
        elif k == "vcg_real":
            fam = F.VarGauss(n)
        elif k == "vcg_cplx":
            fam = F.VarGauss(n, cplx=True)
        elif k == "vcst":
            fam = G.VarStudentTArr(np.full(n, dof))
        elif k == "vcst_fielddof":
            fam = G.VarStudentTArr(dofs)
        elif k.startswith("ndvcg"):
            self.rows = 1 if shape == "vec" else 2
            fam = G.NDGauss(self.rows, 2, covariance=k.endswith("cov"))
        elif k.startswith("categorical"):
            ls = self.blocks[0][1]
            if shape == "vec":
                fam = F.Categorical((1, NCAT), 1)
            elif shape == "batch":
                fam = F.Categorical(ls[0], 0 if k.endswith("ax0") else 1)
            else:
                fam = F.Categorical((2, NCAT), 1)
        else:
            raise ValueError(k)
        self.fam = fam
        self.P = Flat(self.blocks, self._assemble_primals)

    # primal pytree from the list of leaves (block order)
    def _assemble_primals(self, lv):
        w = wrap_leaves(self.shape)
        nl = len(self.blocks[0][1])
        if len(self.blocks) == 1:
            return w(lv)
        return (w(lv[:nl]), w(lv[nl:]))

    def theta(self, pflat):
        """Reference parameter of the family from the flat primals (jnp transliteration of the documented
        parametrisation)."""
        import jax
        import jax.numpy as jnp
        k = self.kind
        if k.startswith("vcg"):
            nm = self.P.sizes[0]
            return jnp.concatenate([pflat[:nm], pflat[nm:] ** 2])          # precision = std_inv^2
        if k.startswith("categorical"):
            fam = self.fam
            return jax.nn.softmax(pflat.reshape(fam.shape), axis=fam.axis).reshape(-1)
        return pflat

    def data_tree(self, d):
        """Family data vector -> data pytree of the library likelihood."""
        import jax.numpy as jnp
        k, w = self.kind, wrap_leaves(self.shape)
        ls = self.blocks[0][1]
        d = np.asarray(d)
        if k.startswith("categorical"):
            fam = self.fam
            oh = d.reshape(fam.shape)
            idx = np.argmax(oh, axis=fam.axis)
            idx = np.expand_dims(idx, fam.axis)
            if self.shape == "vec":
                return jnp.asarray(idx.reshape(1))
            if self.shape == "batch":
                return jnp.asarray(idx)
            return w([jnp.asarray(idx[0].reshape(1)), jnp.asarray(idx[1].reshape(1))])
        if is_cplx(k):
            h = d.size // 2
            d = d[:h] + 1j * d[h:]
        if k == "poissonian":
            d = np.rint(d).astype(np.int64)
        out, o = [], 0
        for s in ls:
            kk = int(np.prod(s, dtype=int))
            out.append(jnp.asarray(d[o:o + kk].reshape(s)))
            o += kk
        return w(out)

    def like(self, arr):
        """numpy per-pixel array -> pytree shaped like the (real) data."""
        import jax.numpy as jnp
        out, o = [], 0
        for s in self.blocks[0][1]:
            kk = int(np.prod(s, dtype=int))
            out.append(jnp.asarray(np.asarray(arr)[o:o + kk].reshape(s)))
            o += kk
        return wrap_leaves(self.shape)(out)

    def make(self, data):
        import jax.numpy as jnp
        import nifty.re as jft
        k, a = self.kind, self.aux
        w = self.like(a["w"]) if not k.startswith(("ndvcg", "categorical")) else None
        if k == "gauss_unit":
            return jft.Gaussian(data)
        if k in ("gauss_diag", "gauss_cplx"):
            return jft.Gaussian(data, noise_cov_inv=lambda x: w * x, noise_std_inv=lambda x: w ** 0.5 * x)
        if k == "gauss_diagarr":
            return jft.Gaussian(data, noise_cov_inv=w)
        if k == "gauss_stdonly":
            return jft.Gaussian(data, noise_std_inv=lambda x: w ** 0.5 * x)
        if k == "gauss_dense":
            P, S = jnp.asarray(a["P"]), jnp.asarray(a["S"])
            return jft.Gaussian(data, noise_cov_inv=lambda x: P @ x, noise_std_inv=lambda x: S @ x)
        if k == "gauss_cplxdense":
            P, S = jnp.asarray(a["Pc"]), jnp.asarray(a["Sc"])
            return jft.Gaussian(data, noise_cov_inv=lambda x: P @ x, noise_std_inv=lambda x: S @ x)
        if k == "studentt":
            return jft.StudentT(data, a["dof"], noise_cov_inv=lambda x: w * x, noise_std_inv=lambda x: w ** 0.5 * x)
        if k == "studentt_fielddof":
            return jft.StudentT(data, self.like(a["dofs"]), noise_cov_inv=lambda x: w * x,
                                noise_std_inv=lambda x: w ** 0.5 * x)
        if k == "studentt_dense_fielddof":
            P, S = jnp.asarray(a["S"] @ a["S"]), jnp.asarray(a["S"])
            return jft.StudentT(data, jnp.asarray(a["dofs"]), noise_cov_inv=lambda x: P @ x,
                                noise_std_inv=lambda x: S @ x)
        if k == "poissonian":
            return jft.Poissonian(data)
        if k.startswith("vcg"):
            return jft.VariableCovarianceGaussian(data)
        if k == "vcst":
            return jft.VariableCovarianceStudentT(data, a["dof"])
        if k == "vcst_fielddof":
            return jft.VariableCovarianceStudentT(data, self.like(a["dofs"]))
        if k.startswith("ndvcg"):
            return jft.NDVariableCovarianceGaussian(data, covariance=k.endswith("cov"))
        if k.startswith("categorical"):
            kw = {}
            import inspect
            if "n_categories" in inspect.signature(jft.Categorical.__init__).parameters:
                kw["n_categories"] = NCAT      # forward compatible with the proposed repair (see report)
            return jft.Categorical(data, axis=self.fam.axis if self.shape == "batch" else -1, **kw)
        raise ValueError(k)


# ------------------------------------------------------------------ structures
class Struct:
    pass


def spd_embed(g):
    """3 grid coordinates (a11, a22, rho) -> symmetric positive definite 2x2 (numpy / jnp agnostic)."""
    a11, a22, rho = g
    off = 0.28 * rho * (a11 * a22) ** 0.5
    return [[a11, off], [off, a22]]


def build_struct(kinds, shape, wrap, seed):
    """Everything of a case that does not depend on the grid point."""
    import jax
    import jax.numpy as jnp
    import nifty.re as jft
    st = Struct()
    st.kinds, st.shape, st.wrap, st.seed = kinds, shape, wrap, seed
    nterm = len(kinds)
    n = 1 if wrap.startswith("sum") else 2
    st.terms = [TermSpec(k, shape, n, seed, tag=str(i)) for i, k in enumerate(kinds)]
    r = _rng(seed, "c12model" + "+".join(kinds) + shape + wrap)
    t0 = st.terms[0]
    st.frozen = None
    st.Tproj = None          # projection of both sides (symmetric matrix perturbations of a plain ND likelihood)

    def model_for(term, tag):
        """latent real vector z (size 2) -> flat primals of `term` (jnp): per block link(A z + c)."""
        rr = _rng(seed, "c12lin" + term.kind + shape + wrap + tag)
        mats = []
        for (name, ls, c, at), size in zip(term.blocks, term.P.sizes):
            m = size // 2 if c else size
            if at == "spd":
                rows = m // 4
                A = rr.uniform(-0.5, 0.5, (3 * rows, 2))
                cc = rr.uniform(-0.2, 0.2, 3 * rows)
                mats.append(("spd", A, cc, rows))
            else:
                A = rr.uniform(0.3, 1., (m, 2)) * np.where(rr.uniform(size=(m, 2)) < 0.4, -1., 1.)
                A = A / np.abs(A).sum(axis=1, keepdims=True)
                cc = rr.uniform(-0.3, 0.1 if at == "pos" else 0.3, m)
                if c:
                    A = A + 0.5j * rr.uniform(-1, 1, A.shape)
                    cc = cc + 1j * rr.uniform(-0.3, 0.3, m)
                mats.append((at, A, cc, c))

        def f(z):
            parts = []
            for at, A, cc, extra in mats:
                if at == "spd":
                    y = jnp.asarray(A) @ z + jnp.asarray(cc)
                    for i in range(extra):
                        l11, l22, l21 = jnp.exp(y[3 * i]), jnp.exp(y[3 * i + 1]), y[3 * i + 2]
                        Lm = jnp.array([[l11, 0.], [l21, l22]])
                        parts.append((Lm @ Lm.T + 0.3 * jnp.eye(2)).reshape(-1))
                else:
                    y = jnp.asarray(A) @ z + jnp.asarray(cc)
                    if at == "pos":
                        y = jnp.exp(y)
                    parts.append(jnp.concatenate([y.real, y.imag]) if extra else y)
            return jnp.concatenate(parts)
        return f

    if wrap in ("plain", "exp"):
        P = t0.P
        if wrap == "plain" and kinds[0].startswith("ndvcg"):
            # grid coordinates: mean entries + (a11, a22, rho) per row; library primals: mean + full matrices
            rows = t0.rows
            st.lat = Flat([("mean", t0.blocks[0][1], False), ("sym", [(3,)] * rows, False)], None)

            def prim_of(xi, rows=rows):
                mats = [jnp.array(spd_embed(xi[2 * rows + 3 * i:2 * rows + 3 * i + 3])).reshape(-1) for i in range(rows)]
                return jnp.concatenate([xi[:2 * rows]] + mats)
            st.prim_flat = [prim_of]
            st.lib_flat = P                    # the library works on the embedded primals
            st.embed = prim_of
        else:
            st.lat = Flat([b[:3] for b in t0.blocks], t0._assemble_primals)
            st.prim_flat = [(lambda xi: jnp.exp(xi)) if wrap == "exp" else (lambda xi: xi)]
            st.lib_flat = st.lat
            st.embed = None
        fwd = (lambda tree: jax.tree_util.tree_map(jnp.exp, tree)) if wrap == "exp" else None
        st.make_lh = lambda datas: (t0.make(datas[0]).amend(fwd) if fwd is not None else t0.make(datas[0]))
    else:
        split = wrap in ("split", "freeze_x", "freeze_y") or wrap.startswith("sum")
        if split:
            st.lat = Flat([("x", [(1,)], False), ("y", [(1,)], False)],
                          lambda lv: jft.Vector({"x": lv[0], "y": lv[1]}))
            zof = lambda tree: jnp.concatenate([tree["x"], tree["y"]])
        else:
            st.lat = Flat([("z", [(2,)], False)], lambda lv: lv[0])
            zof = lambda tree: tree
        st.lib_flat = st.lat
        st.embed = None
        models = [model_for(t, str(i)) for i, t in enumerate(st.terms)]
        if wrap == "amend2":
            C = r.uniform(-0.2, 0.2, (2, 2))
            inner = lambda z: 0.5 * jnp.tanh(z) + jnp.asarray(C) @ z
            st.prim_flat = [lambda xi, m=models[0]: m(inner(xi))]
        else:
            st.prim_flat = [(lambda xi, m=m: m(xi)) for m in models]
        dom = None
        if wrap.startswith("sum"):
            dom = jft.Vector({"x": jft.ShapeWithDtype((1,)), "y": jft.ShapeWithDtype((1,))})

        def make_lh(datas):
            lhs = []
            for t, m, d in zip(st.terms, models, datas):
                fwd = lambda tree, t=t, m=m: t.P.tree(m(zof(tree)))
                lh = t.make(d)
                if wrap == "amend2":
                    lh = lh.amend(lambda z, t=t, m=m: t.P.tree(m(z))).amend(inner)
                elif dom is not None:
                    lh = lh.amend(fwd, domain=dom)
                else:
                    lh = lh.amend(fwd)
                lhs.append(lh)
            if wrap in SUMTREES:
                def build(t):
                    return lhs[t] if isinstance(t, int) else build(t[0]) + build(t[1])
                return build(SUMTREES[wrap])
            return lhs[0] if len(lhs) == 1 else lhs[0] + lhs[1]
        st.make_lh = make_lh
        if wrap.endswith("freeze_x"):
            st.frozen = "x"
        elif wrap.endswith("freeze_y"):
            st.frozen = "y"
    st.D = st.lat.dim
    st.axes = latent_axes(kinds, shape, wrap)
    assert len(st.axes) == st.D, (len(st.axes), st.D)
    st.theta_fns = [(lambda xi, t=t, pf=pf: t.theta(pf(xi))) for t, pf in zip(st.terms, st.prim_flat)]
    # liquid coordinates
    if st.frozen is None:
        st.sel = list(range(st.D))
    else:
        st.sel = [1] if st.frozen == "x" else [0]
    return st


def xi_from_point(st, pt):
    seed = st.seed
    real, pos = alphabet("real", seed), alphabet("pos", seed)
    xi = np.zeros(st.D)
    for j, (at, idx) in enumerate(zip(st.axes, pt)):
        if at == "real":
            v = real[idx] * (1. + 0.03 * j)
        elif at == "smallreal":
            v = 0.6 * real[idx] * (1. + 0.03 * j)
        elif at == "pos":
            v = pos[idx] * (1. - 0.02 * j)
        elif at == "logpos":
            v = float(np.log(pos[idx])) * (1. + 0.03 * j)
        elif at == "spd":
            k = sum(1 for a in st.axes[:j] if a == "spd") % 3
            v = pos[idx] * (1. - 0.02 * j) if k < 2 else real[idx] / 1.8
        else:
            raise ValueError(at)
        xi[j] = v
    return xi


# ------------------------------------------------------------------ evaluation of the library (jitted per structure)
_CACHE = {}


class StructureError(Exception):
    pass


def get_theta(st):
    import jax
    key = ("theta", "+".join(st.kinds), st.shape, st.wrap, st.seed)
    if key not in _CACHE:
        _CACHE[key] = jax.jit(lambda xi: ([f(xi) for f in st.theta_fns], [jax.jacfwd(f)(xi) for f in st.theta_fns]))
    return _CACHE[key]


def get_eval(st, datas0, xi_lib):
    """Build (once per structure and process) the jitted function that evaluates the library for a stack of data
    outcomes.  Dynamic leaves of the likelihood pytree = data leaves (+ frozen primals)."""
    import jax
    import jax.numpy as jnp
    import nifty.re as jft
    key = ("+".join(st.kinds), st.shape, st.wrap, st.seed)
    if key in _CACHE:
        return _CACHE[key]
    lh0 = st.make_lh(datas0)
    lat0 = st.lib_flat.tree(jnp.asarray(xi_lib))
    if st.frozen is not None:
        lh0, _ = lh0.freeze(primals=lat0, point_estimates=(st.frozen,))
    leaves, treedef = jax.tree_util.tree_flatten(lh0)
    dleaves = [l for d in datas0 for l in jax.tree_util.tree_leaves(d)]
    dpos = []
    for dl in dleaves:
        hits = [i for i, l in enumerate(leaves) if l is dl]
        if len(hits) != 1:
            raise StructureError("the data of a summand occurs %d times in the composed likelihood pytree "
                                 "(a term was duplicated or dropped)" % len(hits))
        dpos.append(hits[0])
    fpos = None
    if st.frozen is not None:
        fl = lat0[st.frozen]
        hits = [i for i, l in enumerate(leaves) if l is fl]
        if len(hits) != 1:
            raise AssertionError("harness: frozen leaf found %d times" % len(hits))
        fpos = hits[0]
    # liquid primals
    lib = st.lib_flat
    if st.frozen is None:
        Dl = lib.dim
        liq_tree = lib.tree
    else:
        Dl = 1
        liq_tree = lambda v: jft.Vector((v.reshape(1),))
    liq_flat = (lambda tree: lib.flat(tree)) if st.frozen is None else \
        (lambda tree: jnp.real(jax.tree_util.tree_leaves(tree)[0]).reshape(-1))
    # declared tangent space of the left square root
    shp = lh0.lsm_tangents_shape
    sl, sdef = jax.tree_util.tree_flatten(shp, is_leaf=lambda x: hasattr(x, "shape") and hasattr(x, "dtype"))
    tblocks = [("t%d" % i, [tuple(s.shape)], bool(np.issubdtype(np.dtype(s.dtype), np.complexfloating)))
               for i, s in enumerate(sl)]
    TS = Flat(tblocks, lambda lv: jax.tree_util.tree_unflatten(sdef, lv))
    has_trafo = True
    try:
        lh0.transformation(liq_tree(liq_of(st, jnp.asarray(xi_lib))))
    except NotImplementedError:
        has_trafo = False
    natural = None
    if st.kinds[0].startswith("categorical") and st.wrap == "plain":
        natural = lib         # left square root applied on the logits space (see FIXME in the source)

    def per_outcome(xi_lib, xi0_lib, dl):
        lv = list(leaves)
        for p, a in zip(dpos, dl):
            lv[p] = a
        full = lib.tree(xi_lib)
        if fpos is not None:
            lv[fpos] = full[st.frozen]
        lh = jax.tree_util.tree_unflatten(treedef, lv)
        xl = xi_lib if st.frozen is None else xi_lib[jnp.array(st.sel)]
        x0 = xi0_lib if st.frozen is None else xi0_lib[jnp.array(st.sel)]
        p = liq_tree(xl)
        e, g = jax.value_and_grad(lambda v: lh.energy(liq_tree(v)))(xl)
        # the value at a second point needs the frozen part of the first one: move only the liquid coordinates
        e0 = lh.energy(liq_tree(x0))
        eye = jnp.eye(Dl)
        out = dict(e=e, e0=e0, g=g)
        out["M"] = jax.vmap(lambda t: liq_flat(lh.metric(p, liq_tree(t))))(eye).T
        out["R"] = jax.vmap(lambda t: TS.flat(lh.right_sqrt_metric(p, liq_tree(t))))(eye).T
        out["L"] = jax.vmap(lambda t: liq_flat(lh.left_sqrt_metric(p, TS.tree(t))))(jnp.eye(TS.dim)).T
        if has_trafo:
            out["J"] = jax.jacfwd(lambda v: TS.flat(lh.transformation(liq_tree(v))))(xl)
        if natural is not None:
            out["Lnat"] = jax.vmap(lambda t: liq_flat(lh.left_sqrt_metric(p, liq_tree(t))))(eye).T
        return out

    fn = jax.jit(jax.vmap(per_outcome, in_axes=(None, None, 0)))
    for k in [k for k in _CACHE if k[0] != "theta"][:-3]:
        del _CACHE[k]         # keep a few structures only (bounded memory); consecutive cases share the structure
    _CACHE[key] = (fn, TS, has_trafo)
    return _CACHE[key]


def liq_of(st, xi_lib):
    import jax.numpy as jnp
    return xi_lib if st.frozen is None else xi_lib[jnp.array(st.sel)]


def rel(a, b):
    a, b = np.asarray(a, dtype=float), np.asarray(b, dtype=float)
    if a.shape != b.shape:
        return float("inf")
    if not (np.all(np.isfinite(a)) and np.all(np.isfinite(b))):
        return float("inf")
    return float(np.abs(a - b).max(initial=0.) / (1. + np.abs(b).max(initial=0.)))


LIBCLASS = {"gauss": "Gaussian", "studentt": "StudentT", "poissonian": "Poissonian", "vcg": "VariableCovarianceGaussian",
            "vcst": "VariableCovarianceStudentT", "ndvcg": "NDVariableCovarianceGaussian", "categorical": "Categorical"}


def libname(kind):
    p = kind.split("_")
    return LIBCLASS[p[0]] + ("[%s]" % ",".join(p[1:]) if len(p) > 1 else "")


def keyname(kind, clauses):
    """Semantic finding key: library class (+ variant where it matters) | set of violated clauses."""
    clauses = list(dict.fromkeys(clauses))
    if kind.startswith("categorical"):
        name = "Categorical"
    elif kind.startswith("ndvcg") and clauses == ["pullback:E[J^H J]!=M"]:
        name = "NDVariableCovarianceGaussian"
    else:
        name = libname(kind)
    return "%s|%s" % (name, "+".join(clauses))


_BLAME = {}


def plain_failures(kind, shape, seed):
    """Clauses violated by the plain likelihood of `kind` (two grid points), cached per process."""
    key = (kind, shape, seed)
    if key not in _BLAME:
        found = []
        try:
            st0 = build_struct([kind], shape, "plain", seed)
            for a in (0, 1):
                p0 = xi_from_point(st0, [(a + j) % 4 for j in range(st0.D)])
                p1 = xi_from_point(st0, [(a + 1 + j) % 4 for j in range(st0.D)])
                f0, _ = check_point(st0, p0, p1)
                found += [f[0] for f in f0 if f[0] != "harness"]
        except Exception:
            pass
        _BLAME[key] = list(dict.fromkeys(found))
    return _BLAME[key]


def check_point(st, xi, xi0):
    """All clauses at one latent point.  Returns (failures [(clause, where, message)], info)."""
    import jax
    import jax.numpy as jnp
    from vf.ref import c11_families as F
    # ---- reference: theta, model Jacobian, exact data expectation
    xij, xi0j = jnp.asarray(xi), jnp.asarray(xi0)
    thetaf = get_theta(st)
    ths, Jfs = thetaf(xij)
    ths0, _ = thetaf(xi0j)
    per = []
    for t, th in zip(st.terms, ths):
        th = np.asarray(th)
        Fs, Dm, W, g = F.fisher_enumerated(t.fam, th)
        Fc = t.fam.fisher(th)
        T = t.fam.tangent(th)
        if rel(F.proj(Fs, T), F.proj(Fc, T)) > 1e-11 or abs(float(W.sum()) - 1.) > 1e-12:
            return [("harness", "reference", "enumerated Fisher != closed form")], {}
        per.append([Dm, W, g, Fs])
    datas0 = [t.data_tree(p[0][0]) for t, p in zip(st.terms, per)]
    xi_lib = xij if st.embed is None else st.embed(xij)
    xi0_lib = xi0j if st.embed is None else st.embed(xi0j)
    fn, TS, has_trafo = get_eval(st, datas0, xi_lib)
    Jfs = [np.asarray(J) for J in Jfs]
    Fxi = sum(J.T @ p[3] @ J for J, p in zip(Jfs, per))
    for t, p, th, th0 in zip(st.terms, per, ths, ths0):
        p.append(t.fam.logpdf(np.asarray(th), p[0]))
        p.append(t.fam.logpdf(np.asarray(th0), p[0]))
    # ---- joint outcomes, stacked data leaves
    joint = list(itertools.product(*[range(len(p[1])) for p in per]))
    Wj = np.array([np.prod([per[k][1][i] for k, i in enumerate(idx)]) for idx in joint])
    stacks = []
    for k, t in enumerate(st.terms):
        trees = [t.data_tree(per[k][0][i]) for i in range(len(per[k][1]))]
        lv = [jax.tree_util.tree_leaves(tr) for tr in trees]
        for li in range(len(lv[0])):
            col = np.stack([np.asarray(l[li]) for l in lv])
            stacks.append(jnp.asarray(col[[idx[k] for idx in joint]]))
    out = {k: np.asarray(v) for k, v in fn(xi_lib, xi0_lib, stacks).items()}
    sel = st.sel
    # projection: symmetric perturbations of a plain ND likelihood (library coordinates -> grid coordinates)
    Tp = None
    if st.embed is not None:
        Tp = np.asarray(jax.jacfwd(st.embed)(xij))
    pr = (lambda A: A) if Tp is None else (lambda A: Tp.T @ A @ Tp)
    Fref = Fxi[np.ix_(sel, sel)]
    fails = []
    lib = st.lib_flat

    def blk(i, j):
        names = sorted([st.lat.block_of(sel[i] if Tp is None else i), st.lat.block_of(sel[j] if Tp is None else j)])
        return "%s,%s:%s" % (names[0], names[1], "diag" if i == j else "offdiag")

    def wh(A, B):
        d = np.abs(np.asarray(A) - np.asarray(B))
        if d.ndim != 2 or d.shape[0] != d.shape[1]:
            return "-"
        i, j = np.unravel_index(int(np.argmax(d)), d.shape)
        return blk(i, j)
    K = len(joint)
    M, L, R = out["M"], out["L"], out["R"]
    worst = {}

    def clause(name, a, b, where=None, msg=None):
        e = rel(a, b)
        worst[name] = max(worst.get(name, 0.), e)
        if e > TOL and not any(f[0] == name for f in fails):
            fails.append((name, where if where is not None else wh(a, b),
                          msg or "%s:\n%s\n!=\n%s" % (name, np.round(np.asarray(a), 10), np.round(np.asarray(b), 10))))
    # data independence of M, L, R (all documented metrics depend on the primals only)
    for nm in ("M", "L", "R"):
        worst["data_dep_" + nm] = float(np.abs(out[nm] - out[nm][:1]).max(initial=0.))
    dd = max(worst["data_dep_M"], worst["data_dep_L"], worst["data_dep_R"]) > 1e-12
    ks = range(K) if dd else [0]
    for k in ks:
        clause("factor:M!=L.R", pr(M[k]), pr(L[k] @ R[k]))
        clause("adjoint:R!=L^H", R[k], L[k].T, where="-")
        clause("fisher:M!=Fisher", pr(M[k]), Fref)
    # energy: value differences and gradients for every outcome; W-mode Fisher through the library's energy
    gref = np.zeros((K, st.D))
    dv = np.zeros(K)
    for kk, idx in enumerate(joint):
        for k, i in enumerate(idx):
            gref[kk] += Jfs[k].T @ per[k][2][i]
            dv[kk] += -per[k][4][i] + per[k][5][i]
    glib = out["g"]
    if Tp is not None:
        glib = glib @ Tp
    else:
        gref = gref[:, sel]
    clause("energy:value", out["e"] - out["e0"], dv, where="-",
           msg="E(xi;d)-E(xi0;d) != -log p(d|xi)+log p(d|xi0): max dev %.3e" %
           float(np.abs(out["e"] - out["e0"] - dv).max()))
    clause("energy:gradient", glib, gref, where="-",
           msg="grad energy != reference score, e.g. %s vs %s" % (glib[0], gref[0]))
    FW = np.einsum("k,ki,kj->ij", Wj, glib, glib)
    clause("fisher:E[gg^T]!=M", FW, pr(M[0]))
    # transformation
    if has_trafo:
        J = out["J"]
        EJJ = np.einsum("k,kai,kaj->ij", Wj, J, J)
        local = float(np.abs(J - J[:1]).max(initial=0.)) > 1e-12       # data dependent = documented local approximation
        if local:
            clause("pullback:E[J^H J]!=M", pr(EJJ), pr(M[0]))
        else:
            clause("pullback:L!=J^H", L[0], J[0].T, where="-")
    if "Lnat" in out:
        Ln = out["Lnat"][0]
        clause("natural-sqrt:L_logits L_logits^H!=M", Ln @ Ln.T, M[0])
    info = dict(outcomes=K, worst=worst, has_trafo=has_trafo, local=bool(has_trafo and local),
                trivial=bool(rel(M[0], np.eye(M[0].shape[0])) < 1e-12), lsm_dim=int(TS.dim))
    return fails, info


def refcheck(case):
    from vf.ref import c11_families as F
    kind, shape, seed = case["kinds"][0], case["shape"], case["seed"]
    worst, nout = {}, 0
    st = build_struct([kind], shape, "plain", seed)
    import jax.numpy as jnp
    for a in (0, 2):
        xi = xi_from_point(st, [(a + j) % 4 for j in range(st.D)])
        th = np.asarray(st.theta_fns[0](jnp.asarray(xi)))
        res = F.validate(st.terms[0].fam, th)
        nout += res.pop("outcomes")
        for k, v in res.items():
            worst[k] = max(worst.get(k, 0.), v)
    badk = {k: v for k, v in worst.items() if not v < 1e-11}
    if badk:
        return bad("reference model inconsistent: %s" % badk, finding_key="harness|reference|%s" % kind, detail=worst)
    return ok(nontrivial=True, outcome="refcheck", stats=dict(ref_outcomes=nout), detail=worst)


def run(case):
    import time
    t0 = time.process_time()
    out = refcheck(case) if case["wrap"] == "refcheck" else run_case(case)
    if os.environ.get("VERIF_CPU_STAT"):       # development aid; keeps replays deterministic by default
        out.setdefault("stats", {})["cpu_s"] = time.process_time() - t0
    return out


def run_case(case):
    kinds, shape, wrap, seed = case["kinds"], case["shape"], case["wrap"], case["seed"]
    st = build_struct(kinds, shape, wrap, seed)
    xi = xi_from_point(st, case["pt"])
    xi0 = xi_from_point(st, [(i + 1) % 4 for i in case["pt"]])
    if st.frozen is not None:           # the second point differs in the liquid coordinates only
        xi0 = np.array([xi0[j] if j in st.sel else xi[j] for j in range(st.D)])
    try:
        fails, info = check_point(st, xi, xi0)
    except StructureError as e:
        return bad("%s %s/%s: %s" % ("+".join(kinds), shape, wrap, e),
                   finding_key="%s|composition:summand-count|only-via:%s" % ("+".join(libname(k) for k in kinds), wrap))
    stats = dict(data_outcomes=info.get("outcomes", 0), lib_evaluations=info.get("outcomes", 0))
    if fails:
        clause, wh, msg = fails[0]
        if clause == "harness":
            return bad("harness: " + msg, finding_key="harness|" + wh, stats=stats)
        clauses = [f[0] for f in fails]
        key = None
        if wrap == "plain":
            key = keyname(kinds[0], clauses)
        else:
            # blame: is one of these clauses already violated by the plain likelihood of one of the kinds?
            for k in dict.fromkeys(kinds):
                pc = plain_failures(k, shape if shape in KINDS[k] else KINDS[k][0], seed)
                if set(pc) & set(clauses):
                    key = keyname(k, pc)
                    break
            if key is None:
                key = "%s|%s|only-via:%s" % ("+".join(libname(k) for k in kinds), "+".join(clauses), wrap)
        return bad("%s %s/%s: clause %s failed at block %s: %s" % ("+".join(kinds), shape, wrap, clause, wh, msg[:1500]),
                   finding_key=key, stats=stats,
                   detail=dict(all_failed=[f[:2] for f in fails], worst=info.get("worst"), xi=list(map(float, xi))))
    label = "%s|%s|%s|trafo=%s" % ("+".join(kinds), shape, wrap,
                                   "none" if not info["has_trafo"] else ("expectation" if info["local"] else "exact"))
    return ok(nontrivial=info["outcomes"] > 1 and not info["trivial"], outcome=label, stats=stats,
              detail=dict(worst=info["worst"], outcomes=info["outcomes"], lsm_dim=info["lsm_dim"]))
