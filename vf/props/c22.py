"""C22 Classic VI results do not depend on the number of MPI tasks.

Mode S.  libmpi cannot be loaded in this image, so the ranks are SimComm
greenlets; the per-process global state the library keeps (the
nifty.cl.random generator stack) is swapped in and out on every baton switch,
which emulates one interpreter per rank.  For every (configuration, ntask) the
observables on EVERY rank must be bit-identical to the comm=None run with the
same seed.  Schedules: the default schedule for every configuration; for the
smallest configuration additionally all schedules with <= D deviations
(stateless, D = 1 quick / 2 thorough) and rendezvous + buffered semantics.
"""
import itertools

import numpy as np

from vf.core import ok, bad, skip

ID = "C22"
LEVEL = "exploration"
RULE = ("case = (observable kind, configuration from the full product n_samples x mirror x constants x "
        "point_estimates x geoVI, ntask 1..4|6, schedule bound); oracle = bit-identity with the comm=None run on "
        "every rank; non-trivial = ntask > 1 and at least one rank owns no sample or samples are split over ranks")
ASSUMPTIONS = [
    "simulated communicator instead of libmpi (cannot be loaded here); per-rank interpreter state emulated by "
    "swapping nifty.cl.random's stacks at every baton switch",
    "sanity_checks=False for optimize_kl (the sanity check demands a real mpi4py communicator)",
]


def _rank_state_hooks(k):
    import nifty.cl as ift
    import pickle
    rnd = ift.random
    init = rnd.getState()
    store = {}

    def switch_in(rank):
        if rank not in store:
            store[rank] = pickle.loads(init)
        store["main"] = (rnd._sseq, rnd._rng)
        rnd._sseq, rnd._rng = store[rank]

    def switch_out(rank):
        store[rank] = (rnd._sseq, rnd._rng)
        rnd._sseq, rnd._rng = store["main"]
    return switch_in, switch_out


def _fb(f):
    from vf.models_cl import field_bytes
    return field_bytes(f)


def observable(kind, cfg, comm):
    """Runs on one rank (or with comm=None); returns a JSON-able digest."""
    import nifty.cl as ift
    from vf import models_cl
    models_cl.quiet()
    import warnings
    warnings.simplefilter("ignore")
    lh = models_cl.two_key_model()
    mini, ic_samp = models_cl.minimizers(3)
    dom = lh.domain
    pos = ift.MultiField.from_dict({"a": ift.makeField(dom["a"], np.array([0.1, -0.2, 0.3])),
                                    "b": ift.makeField(dom["b"], np.array([0.2, 0.0, -0.1]))})
    n = cfg["n_samples"]
    consts = ["a"] if cfg["constants"] else []
    pes = ["b"] if cfg["point_estimates"] else []
    geo = ift.NewtonCG(ift.AbsDeltaEnergyController(1e-8, iteration_limit=2)) if cfg["geovi"] else None
    if kind == "kl":
        with ift.random.Context(31):
            ham = ift.StandardHamiltonian(lh, ic_samp, prior_sampling_dtype=float)
            e = ift.SampledKLEnergy(pos, ham, n, geo, mirror_samples=cfg["mirror"], constants=consts,
                                    point_estimates=pes, comm=comm)
        x = ift.full(e.position.domain, 0.5)
        d = dict(value=np.float64(e.value).tobytes().hex(), grad=_fb(e.gradient),
                 metric=_fb(e.apply_metric(x)), items=[_fb(s) for s in e.samples.iterator()],
                 n=e.samples.n_samples)
        m, v = e.samples.sample_stat(lh.get_transformation()[1] if False else None)
        d["stat_mean"], d["stat_var"] = _fb(m), _fb(v)
        d["avg"] = _fb(e.samples.average())
        e2 = e.at(e.position + ift.full(e.position.domain, 0.01))
        d["value2"] = np.float64(e2.value).tobytes().hex()
        # persisted form: every task writes its own files; what is on disk must be the single-process file set
        import os, shutil, tempfile, hashlib
        if comm is None:
            base_dir = tempfile.mkdtemp(prefix="c22_save_")
        else:
            base_dir = comm.bcast(tempfile.mkdtemp(prefix="c22_save_") if comm.Get_rank() == 0 else None, root=0)
        try:
            e.samples.save(os.path.join(base_dir, "sl"), overwrite=True)
            if comm is not None:
                comm.Barrier()
            files = sorted(os.listdir(base_dir))
            d["saved_files"] = files
            back = ift.ResidualSampleList.load(os.path.join(base_dir, "sl"), comm=comm)
            d["reloaded"] = [_fb(s) for s in back.iterator()]
            if comm is not None:
                comm.Barrier()
        finally:
            if comm is None or comm.Get_rank() == 0:
                shutil.rmtree(base_dir, ignore_errors=True)
        return d
    if kind == "okl":
        models_cl.reset_random() if comm is None else None
        ns = cfg["n_samples"]
        with ift.random.Context(77):
            sl, mean = ift.optimize_kl(lh, 2, (lambda i: [ns, max(ns - 1, 0)][i]), mini, ic_samp,
                                       nonlinear_sampling_minimizer=geo, constants=consts, point_estimates=pes,
                                       comm=comm, sanity_checks=False, return_final_position=True,
                                       initial_position=pos, output_directory=None)
        return dict(items=[_fb(s) for s in sl.iterator()], mean=_fb(mean), n=sl.n_samples)
    raise ValueError(kind)


def cases(tier, seed):
    out = []
    maxk = 4 if tier == "quick" else 6
    prod = list(itertools.product([1, 2, 3], [False, True], [False, True], [False, True], [False, True]))
    for kind in ("kl", "okl"):
        for (n, mirror, const, pe, geo) in prod:
            if kind == "okl" and tier == "quick" and (geo or (const and pe)):
                continue
            if kind == "okl" and not mirror:
                continue   # optimize_kl always mirrors
            cfg = dict(n_samples=n, mirror=mirror, constants=const, point_estimates=pe, geovi=geo)
            for k in range(2, maxk + 1):
                out.append(dict(kind=kind, cfg=cfg, ntask=k, sem="rendezvous", dev=0))
    # MAP branch of optimize_kl (n_samples = 0: rank-0 minimisation + bcast)
    for k in range(2, maxk + 1):
        out.append(dict(kind="okl", cfg=dict(n_samples=0, mirror=True, constants=False, point_estimates=False,
                                             geovi=False), ntask=k, sem="rendezvous", dev=0))
    # schedule exploration for the smallest configuration
    small = dict(n_samples=2, mirror=True, constants=False, point_estimates=False, geovi=False)
    D = 1 if tier == "quick" else 2
    for k in (2, 3):
        for sem in ("rendezvous", "buffered"):
            out.append(dict(kind="kl", cfg=small, ntask=k, sem=sem, dev=D))
    out.sort(key=lambda c: (c["dev"], c["kind"] != "kl", c["ntask"], c["cfg"]["n_samples"]))
    return out


_REF = {}


def run(case):
    import json
    from vf import simcomm
    kind, cfg, k = case["kind"], case["cfg"], case["ntask"]
    key = json.dumps([kind, cfg], sort_keys=True)
    if key not in _REF:
        from vf import models_cl
        models_cl.reset_random()
        _REF[key] = observable(kind, cfg, None)
    ref = _REF[key]

    def program(rank, comm):
        return observable(kind, cfg, comm)

    def check(x):
        if x.deadlock:
            return "deadlock"
        for r in range(k):
            if x.errors[r] is not None:
                return "rank %d raised %r" % (r, x.errors[r])
        for r in range(k):
            got = x.results[r]
            for kk in ref:
                if got.get(kk) != ref[kk]:
                    return "rank %d/%d: %s differs from the single-process run" % (r, k, kk)
        return None
    from vf import models_cl
    models_cl.reset_random()
    hf = lambda: _rank_state_hooks(k)
    if case["dev"] == 0:
        x = simcomm.Execution(k, program, case["sem"], [], hooks_factory=hf).run()
        v = check(x)
        st = dict(executions=1, transitions=len(x.transitions), messages=x.msgs)
    else:
        res = simcomm.explore(k, program, case["sem"], check, state_matching=False,
                              max_deviations=case["dev"], max_exec=4000, hooks_factory=hf)
        v = res["violations"][0]["what"] if res["violations"] else None
        if res["capped"] and not v:
            v = None
        st = dict(executions=res["executions"], transitions=res["transitions"], capped=int(res["capped"]))
    n_mirrored = cfg["n_samples"] * (2 if cfg["mirror"] else 1)
    if v:
        return bad("%s (kind=%s cfg=%s ntask=%d sem=%s)" % (v, kind, cfg, k, case["sem"]),
                   finding_key="%s|%s" % (kind, v.split(":")[-1].strip().split(" differs")[0]), stats=st)
    return ok(nontrivial=k > 1, outcome="identical|%s|k%s%s" % (kind, k, "|empty-ranks" if k > max(cfg["n_samples"], 1) else ""),
              stats=st)


def finish(run):
    return dict(executions=int(run.extra.get("executions", 0)), transitions=int(run.extra.get("transitions", 0)),
                schedule_caps_hit=int(run.extra.get("capped", 0)))
