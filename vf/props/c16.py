"""C16 Classic descent minimisers are monotone and their line search is sound.

Three exhaustively enumerated spaces (DESIGN "### C16"):

 kind="ls"   (P) direct calls of `LineSearch.perform_line_search`:
             energy x start-grid point x search direction x f_k_minus_1 x line-search configuration.
 kind="run"  (P) complete minimiser runs: energy x start-grid point x line-search configuration x
             {SteepestDescent, RelaxedNewton, NewtonCG, L_BFGS, VL_BFGS} x iteration limit, with a
             recording controller, a recording line searcher and a recording LineEnergy.
 kind="hist" (H) every op history (visit one of n points / reset) of a fixed length on a strictly convex
             quadratic fed to L_BFGS.get_descent_direction and VL_BFGS.get_descent_direction; both are
             compared after EVERY op with each other and with the explicit dense BFGS matrix recursion.

Oracles are the harness's own analytic f / grad (vf/ref/c16_problems.py): accepted energies never
increase, status in {CONVERGED, ERROR}, success of the line search => both strong Wolfe inequalities
with respect to the start of that line search.
"""
import itertools

import numpy as np

from vf.core import ok, bad, skip
from vf.ref import c16_problems as P

ID = "C16"
LEVEL = "exploration"
RULE = ("case = (kind, energy, dimension, domain kind, start-grid point, line-search configuration, and "
        "direction/f_k_minus_1 [ls] or minimiser/iteration limit [run]) or (quadratic, history length, "
        "max_history_length, op history over {visit point i, reset}) [hist]; all combinations of the stated "
        "alphabets are run. non-trivial: ls = the search reported success and both Wolfe inequalities were "
        "evaluated by the harness; run = at least one step was accepted and at least one successful line "
        "search was Wolfe-checked; hist = the circular buffer wrapped around (more pairs than max_history_length) "
        "and every direction was compared with the dense BFGS matrix form")
ASSUMPTIONS = [
    "energies are smooth everywhere (no NaN/overflow back-tracking paths of the line search are exercised)",
    "Energy.metric handed to RelaxedNewton/NewtonCG is positive definite (Hessian shifted to lambda_min >= 0.5), as documented",
    "Wolfe inequalities are evaluated with the exact trial step length (recorded at LineEnergy construction) and a 1e-12 relative slack for the differing summation order of phi'(0)",
    "BFGS histories satisfy s.y > 0 (strictly convex quadratic, consecutive visited points differ)",
]

WOLFE_SLACK = 1e-12
BFGS_TOL = 1e-9

MINIMIZERS = ["SteepestDescent", "RelaxedNewton", "NewtonCG", "L_BFGS", "VL_BFGS"]
DIRECTIONS = ["negg", "newton", "negg_small", "negg_big", "skew", "ascent"]
FKM1 = [None, 0.1, 10.]


# ------------------------------------------------------------------ alphabets
def ls_configs(tier):
    out = []
    c1s, c2s = ([1e-4, 0.1], [0.1, 0.9]) if tier == "quick" else ([1e-4, 0.1], [0.1, 0.5, 0.9])
    prefs = [None, 1., 10.] if tier == "quick" else [None, 0.1, 1., 10.]
    maxs = [1e30, 1.] if tier == "quick" else [1e30, 1., 0.1]
    for c1, c2, pref, mx in itertools.product(c1s, c2s, prefs, maxs):
        out.append(dict(c1=c1, c2=c2, pref=pref, maxstep=mx, maxit=100, maxzoom=100))
    # forced exits: iteration budgets of the two stages exhausted
    for pref in prefs:
        out.append(dict(c1=1e-4, c2=0.9, pref=pref, maxstep=1e30, maxit=2, maxzoom=1))
    out.append(dict(c1=1e-4, c2=0.1, pref=None, maxstep=1e30, maxit=100, maxzoom=2))
    # simplest first: library defaults, then increasing deviation
    default = dict(c1=1e-4, c2=0.9, pref=None, maxstep=1e30, maxit=100, maxzoom=100)
    out.sort(key=lambda c: sum(c[k] != default[k] for k in default))
    return out


def cases(tier, seed):
    seed = int(seed)
    lscf = ls_configs(tier)
    out = []
    if tier == "quick":
        geoms = [(2, "u", 3, [15])]                 # (dimension, domain kind, grid points per axis, iteration limits)
    else:
        geoms = [(2, "u", 5, [3, 40]), (3, "m", 3, [15])]
    # ---- direct line searches
    for (d, dom, npts, itlims) in geoms:
        for pname in P.PROBLEMS:
            prob = P.problem(pname, d, seed)
            for start in P.start_grid(prob, npts, seed):
                for direc in DIRECTIONS:
                    for fk in FKM1:
                        for ls in lscf:
                            if ls["pref"] is not None and fk is not None and fk != FKM1[1]:
                                continue   # f_k_minus_1 is ignored when a preferred step is given
                            out.append(dict(kind="ls", prob=pname, d=d, dom=dom, seed=seed, start=start,
                                            direction=direc, fkm1=fk, ls=ls))
    # ---- minimiser runs
    for (d, dom, npts, itlims) in geoms:
        for pname in P.PROBLEMS:
            prob = P.problem(pname, d, seed)
            for itlim in itlims:
                for mini in MINIMIZERS:
                    for ls in lscf:
                        for start in P.start_grid(prob, npts, seed):
                            out.append(dict(kind="run", prob=pname, d=d, dom=dom, seed=seed, start=start,
                                            minimizer=mini, itlim=itlim, ls=ls))
    # ---- BFGS histories
    if tier == "quick":
        # (points, history length, max_history_length values, condition numbers, dimensions)
        hspecs = [(3, 7, (2, 5), (1., 10.), (3,))]
    else:
        hspecs = [(3, 9, (1, 2, 3, 5), (10.,), (3, 5)), (4, 7, (2, 3, 5), (1., 100.), (4,))]
    for nsym, length, mhs, kappas, dims in hspecs:
        for hist in P.histories(nsym, length, with_reset=True):
            for mh in mhs:
                for kappa in kappas:
                    for d in dims:
                        out.append(dict(kind="hist", kappa=kappa, d=d, seed=seed, nsym=nsym, maxhist=mh,
                                        hist=hist))
    return out


# ------------------------------------------------------------------ NIFTy-side harness objects
_H = {}


def _harness():
    """Build (once per worker) the harness-side subclasses of NIFTy base classes."""
    if _H:
        return _H
    import logging
    import nifty.cl as ift
    import nifty.cl.minimization.line_search as lsmod
    from vf import dense
    logging.getLogger("NIFTy").setLevel(logging.CRITICAL)

    trials = []          # (alpha, LineEnergy) of every LineEnergy constructed; cleared per line search

    class RecLineEnergy(lsmod.LineEnergy):
        # the module global is replaced by this subclass: pure observation of the
        # exact trial step lengths (no behaviour change)
        def __init__(self, line_position, energy, line_direction, offset=0.):
            super().__init__(line_position, energy, line_direction, offset=offset)
            trials.append((float(line_position), self))

    lsmod.LineEnergy = RecLineEnergy

    class DenseSym(ift.LinearOperator):
        """Symmetric positive definite dense matrix with all four modes."""

        def __init__(self, domain, M):
            self._domain = self._target = ift.makeDomain(domain)
            self._capability = self._all_ops
            self._M = M

        def apply(self, x, mode):
            self._check_input(x, mode)
            v = dense.flatten(x).real
            if mode & (self.TIMES | self.ADJOINT_TIMES):
                r = self._M @ v
            else:
                r = np.linalg.solve(self._M, v)
            return dense.unflatten(self._domain, r, force_real=True)

    class HEnergy(ift.Energy):
        def __init__(self, position, prob, log):
            super().__init__(position)
            self._prob, self._log = prob, log
            self._x = dense.flatten(position).real.copy()
            self._v = self._g = None
            log.append(self._x)

        def at(self, position):
            return HEnergy(position, self._prob, self._log)

        @property
        def value(self):
            if self._v is None:
                self._v = self._prob.f(self._x)
            return self._v

        @property
        def gradient(self):
            if self._g is None:
                self._g = dense.unflatten(self._position.domain, self._prob.g(self._x), force_real=True)
            return self._g

        @property
        def metric(self):
            return DenseSym(self._position.domain, self._prob.metric(self._x))

        def apply_metric(self, x):
            return self.metric(x)

    class RecLS(ift.LineSearch):
        def __init__(self, records, **kw):
            super().__init__(**kw)
            self.records = records

        def perform_line_search(self, energy, pk, f_k_minus_1=None):
            del trials[:]
            res = super().perform_line_search(energy, pk, f_k_minus_1)
            alphas = [a for a, _ in trials]
            alpha = None
            if res[0] is energy:
                alpha = 0.
            for a, le in trials:
                if le.energy is res[0] and a != 0.:
                    alpha = a
            self.records.append(dict(x0=energy._x, pk=dense.flatten(pk).real.copy(), fkm1=f_k_minus_1,
                                     x1=res[0]._x, success=res[1], alpha=alpha, alphas=alphas[1:],
                                     res_type=type(res[1]).__name__))
            del trials[:]
            return res

    class RecController(ift.IterationController):
        def __init__(self, inner, log):
            super().__init__()
            self._inner, self.log = inner, log

        def start(self, energy):
            self.log.append(("start", energy))
            return self._inner.start(energy)

        def check(self, energy):
            self.log.append(("check", energy))
            return self._inner.check(energy)

    _H.update(ift=ift, dense=dense, HEnergy=HEnergy, RecLS=RecLS, RecController=RecController,
              DenseSym=DenseSym)
    return _H


def _domain(d, kind):
    ift = _harness()["ift"]
    if kind == "u":
        return ift.makeDomain(ift.UnstructuredDomain(d))
    return ift.MultiDomain.make({"a": ift.UnstructuredDomain(1), "b": ift.UnstructuredDomain(d - 1)})


def _field(dom, x):
    return _harness()["dense"].unflatten(dom, np.asarray(x, float), force_real=True)


def _make_ls(ls, records):
    return _harness()["RecLS"](records, preferred_initial_step_size=ls["pref"], c1=ls["c1"], c2=ls["c2"],
                               max_step_size=ls["maxstep"], max_iterations=ls["maxit"],
                               max_zoom_iterations=ls["maxzoom"])


def _lskey(ls):
    return "c1=%g,c2=%g,pref=%s,max=%g,it=%d/%d" % (ls["c1"], ls["c2"], ls["pref"], ls["maxstep"],
                                                   ls["maxit"], ls["maxzoom"])


# ------------------------------------------------------------------ Wolfe oracle
def wolfe(prob, rec, ls):
    """Evaluate one recorded line search.  Returns (label, violation-or-None)."""
    x0, pk, x1 = rec["x0"], rec["pk"], rec["x1"]
    phi0 = prob.f(x0)
    dphi0 = float(prob.g(x0) @ pk)
    if rec["res_type"] not in ("bool", "bool_"):
        return "badtype", ("success flag is %s, not bool" % rec["res_type"], "flag-type")
    if not rec["success"]:
        if dphi0 >= 0:
            return "fail:not-descent", None
        if not rec["alphas"]:
            return "fail:no-trial", None
        if ls["maxstep"] < 1e29 and max(rec["alphas"]) >= 0.49*ls["maxstep"]:
            return "fail:max-step", None
        zoomed = any(b < a for a, b in zip(rec["alphas"], rec["alphas"][1:]))
        return ("fail:zoom-budget" if zoomed else "fail:stage1-budget"), None
    # success claimed
    if not dphi0 < 0:
        return "success", ("success reported for a non-descent direction (phi'(0)=%g)" % dphi0,
                           "success-on-non-descent")
    alpha = rec["alpha"]
    if alpha is None or not alpha > 0:
        return "success", ("success reported but the returned energy is not a trial point with alpha>0 "
                           "(alpha=%r)" % (alpha,), "success-without-step")
    xr = x0 + alpha*pk
    if np.abs(xr - x1).max() > 1e-12*(np.abs(x0).max() + abs(alpha)*np.abs(pk).max()):
        return "success", ("returned position is not start + alpha*direction", "off-ray")
    phi1 = prob.f(x1)
    dphi1 = float(prob.g(x1) @ pk)
    lim = phi0 + ls["c1"]*alpha*dphi0
    tol = WOLFE_SLACK*(abs(phi0) + abs(phi1) + abs(ls["c1"]*alpha*dphi0))
    if phi1 > lim + tol:
        return "success", ("sufficient-decrease (Armijo) inequality violated: phi(a)=%.17g > phi(0)+c1*a*phi'(0)=%.17g "
                           "(a=%g, c1=%g)" % (phi1, lim, alpha, ls["c1"]), "armijo")
    if abs(dphi1) > ls["c2"]*abs(dphi0)*(1 + WOLFE_SLACK) + WOLFE_SLACK*np.abs(prob.g(x1)*pk).sum():
        kind = "curvature-weak-only" if dphi1 >= ls["c2"]*dphi0 else "curvature"
        return "success", ("strong curvature inequality violated: |phi'(a)|=%.17g > c2*|phi'(0)|=%.17g (a=%g, c2=%g)"
                           % (abs(dphi1), ls["c2"]*abs(dphi0), alpha, ls["c2"]), kind)
    al = rec["alphas"]
    zoomed = any(b < a for a, b in zip(al, al[1:]))
    if zoomed:
        return "success:zoom", None
    return ("success:first-trial" if len(al) == 1 else "success:extended"), None


# ------------------------------------------------------------------ kind = ls
def run_ls(case):
    H = _harness()
    prob = P.problem(case["prob"], case["d"], case["seed"])
    dom = _domain(case["d"], case["dom"])
    x0 = np.asarray(case["start"], float)
    log, records = [], []
    e0 = H["HEnergy"](_field(dom, x0), prob, log)
    g = prob.g(x0)
    kind = case["direction"]
    if kind == "negg":
        pk = -g
    elif kind == "newton":
        pk = -np.linalg.solve(prob.metric(x0), g)
    elif kind == "negg_small":
        pk = -1e-3*g
    elif kind == "negg_big":
        pk = -1e2*g
    elif kind == "skew":          # descent direction at ~72 degrees to the steepest descent
        R = np.eye(case["d"])
        c, s = np.cos(1.25), np.sin(1.25)
        R[0, 0], R[0, 1], R[1, 0], R[1, 1] = c, -s, s, c
        pk = -(R @ g)
    else:
        pk = g.copy()
    ls = case["ls"]
    fk = None if case["fkm1"] is None else prob.f(x0) + case["fkm1"]
    searcher = _make_ls(ls, records)
    try:
        e1, success = searcher.perform_line_search(e0, _field(dom, pk), fk)
    except Exception as e:     # the line search documents no exception for smooth energies
        return bad("perform_line_search raised %r" % (e,),
                   finding_key="ls|exception|%s:%s" % (type(e).__name__, str(e)[:40]))
    label, viol = wolfe(prob, records[0], ls)
    if viol:
        return bad("%s [%s, %s, dir=%s]" % (viol[0], case["prob"], _lskey(ls), kind),
                   finding_key="ls|wolfe|%s" % viol[1], detail=dict(alphas=records[0]["alphas"]))
    return ok(nontrivial=label.startswith("success"), outcome="ls|" + label,
              stats=dict(line_searches=1, energy_evaluations=len(log) - 1,
                         wolfe_checked=int(label.startswith("success"))))


# ------------------------------------------------------------------ kind = run
def run_min(case):
    H = _harness()
    ift = H["ift"]
    prob = P.problem(case["prob"], case["d"], case["seed"])
    dom = _domain(case["d"], case["dom"])
    x0 = np.asarray(case["start"], float)
    log, records, clog = [], [], []
    e0 = H["HEnergy"](_field(dom, x0), prob, log)
    ls = case["ls"]
    inner = ift.GradientNormController(tol_abs_gradnorm=1e-10, iteration_limit=case["itlim"])
    ctrl = H["RecController"](inner, clog)
    mini = getattr(ift, case["minimizer"])(ctrl, line_searcher=_make_ls(ls, records))
    mk = case["minimizer"]
    try:
        res = mini(e0)
    except Exception as e:
        return bad("%s raised %r instead of reporting CONVERGED/ERROR [%s, %s]" % (mk, e, case["prob"], _lskey(ls)),
                   finding_key="run|%s|exception|%s:%s" % (mk, type(e).__name__, str(e)[:40]))
    if not (isinstance(res, tuple) and len(res) == 2):
        return bad("%s returned %r, not (energy, status)" % (mk, type(res)), finding_key="run|%s|return-shape" % mk)
    e1, status = res
    if status not in (ift.IterationController.CONVERGED, ift.IterationController.ERROR) or \
            status == ift.IterationController.CONTINUE:
        return bad("%s returned status %r (neither CONVERGED nor ERROR)" % (mk, status),
                   finding_key="run|%s|status" % mk)
    # accepted energies: what the controller saw, in order, then what was returned; values are
    # recomputed from the positions by the harness's own f
    acc = [prob.f(e._x) for _, e in clog]
    fin = prob.f(e1._x)
    if fin != e1.value:
        return bad("returned energy object is incoherent with its position", finding_key="run|%s|incoherent" % mk)
    seq = acc + [fin]
    for i in range(len(seq) - 1):
        if seq[i + 1] > seq[i]:
            where = "returned" if i + 1 == len(seq) - 1 else "accepted step %d" % (i + 1)
            return bad("%s: energy increased at %s: %.17g -> %.17g [%s, %s]" % (mk, where, seq[i], seq[i+1],
                                                                                  case["prob"], _lskey(ls)),
                       finding_key="run|%s|energy-increase|%s" % (mk, "returned" if where == "returned" else "accepted"),
                       detail=dict(sequence=seq))
    if status == ift.IterationController.ERROR and e1 is not clog[-1][1]:
        return bad("%s reported ERROR but did not return the last accepted energy" % mk,
                   finding_key="run|%s|error-returns-rejected-point" % mk)
    labels = set()
    nchecked = 0
    for rec in records:
        label, viol = wolfe(prob, rec, ls)
        if viol:
            return bad("%s: %s [%s, %s]" % (mk, viol[0], case["prob"], _lskey(ls)),
                       finding_key="run|wolfe|%s" % viol[1], detail=dict(alphas=rec["alphas"]))
        labels.add(label)
        nchecked += label.startswith("success")
    flags = "".join(f for f, l in (("1", "success:first-trial"), ("X", "success:extended"), ("Z", "success:zoom"))
                    if l in labels)
    if any(l.startswith("fail") for l in labels):
        flags += "F"
    nacc = len(clog) - 1
    st = "CONV" if status == ift.IterationController.CONVERGED else "ERR"
    return ok(nontrivial=(nacc >= 1 and nchecked >= 1),
              outcome="run|%s|%s|%s" % (mk, st, flags or "-"),
              stats=dict(line_searches=len(records), wolfe_checked=nchecked, accepted_steps=nacc,
                         energy_evaluations=len(log) - 1))


# ------------------------------------------------------------------ kind = hist
def run_hist(case):
    H = _harness()
    ift = H["ift"]
    d, mh = case["d"], case["maxhist"]
    prob = P.Quadratic(d, case["kappa"], case["seed"])
    dom = _domain(d, "u")
    # position alphabet: generic fixed points (seed shifts them)
    pts = [np.array([np.cos(1.3*i + 0.7*j + 0.11*case["seed"]) + 0.4*i for j in range(d)]) for i in range(case["nsym"])]
    ctrl = ift.GradientNormController(iteration_limit=1)
    lb = ift.L_BFGS(ctrl, max_history_length=mh)
    vl = ift.VL_BFGS(ctrl, max_history_length=mh)
    lb.reset()
    vl._information_store = None      # what VL_BFGS.__call__ does before the first direction
    xs, gs = [], []
    wrapped = False
    ndir = 0
    log = []
    for step, op in enumerate(case["hist"]):
        if op == "R":
            lb.reset()
            vl.reset()
            xs, gs = [], []
            continue
        x = pts[op]
        e = H["HEnergy"](_field(dom, x), prob, log)
        xs.append(x)
        gs.append(prob.g(x))
        ref = P.dense_lbfgs_direction(xs, gs, mh)
        try:
            p1 = H["dense"].flatten(lb.get_descent_direction(e)).real
            p2 = H["dense"].flatten(vl.get_descent_direction(e)).real
        except Exception as ex:
            return bad("get_descent_direction raised %r at op %d of %s" % (ex, step, case["hist"]),
                       finding_key="hist|exception|%s" % type(ex).__name__)
        npairs = len(xs) - 1
        wrapped = wrapped or npairs > mh
        ndir += 1
        sc = np.abs(ref).max()
        regime = "first" if npairs == 0 else ("partial" if npairs <= mh else "wrapped")
        for nm, p in (("L_BFGS", p1), ("VL_BFGS", p2)):
            if not np.all(np.isfinite(p)) or np.abs(p - ref).max() > BFGS_TOL*sc:
                return bad("%s direction differs from the dense BFGS recursion by %.3g (rel) at op %d (%d pairs since "
                           "reset, max_history_length=%d)" % (nm, np.abs(p - ref).max()/sc, step, npairs, mh),
                           finding_key="hist|%s-vs-dense|%s" % (nm, regime),
                           detail=dict(lib=p.tolist(), ref=ref.tolist()))
        if np.abs(p1 - p2).max() > BFGS_TOL*sc:
            return bad("L_BFGS and VL_BFGS directions differ by %.3g (rel) at op %d" % (np.abs(p1 - p2).max()/sc, step),
                       finding_key="hist|variants-disagree|%s" % regime)
    return ok(nontrivial=wrapped, outcome="hist|mh=%d|%s|%s" % (mh, "wrapped" if wrapped else "no-wrap",
                                                               "reset" if "R" in case["hist"] else "no-reset"),
              stats=dict(directions_compared=ndir))


def run(case):
    return dict(ls=run_ls, run=run_min, hist=run_hist)[case["kind"]](case)


def finish(run):
    """Harness sanity (not a property check): analytic gradients/Hessians of the reference energies agree
    with central differences; reported as coverage, a failure is a harness error surfaced as violation."""
    worst = 0.
    for d in (2, 3):
        for pname in P.PROBLEMS:
            prob = P.problem(pname, d, run.seed)
            for x in P.start_grid(prob, 3, run.seed):
                worst = max(worst, P.selfcheck(prob, x))
    if worst > 1e-5:
        run.violations.append((dict(kind="selfcheck"), bad("reference energies: analytic derivatives disagree with "
                                                            "finite differences (%g)" % worst,
                                                            finding_key="harness|reference-derivatives")))
    return dict(reference_derivative_fd_deviation=worst)
