"""C20 Linear Gaussian problems: Wiener filter, curvature, MAP and MGVI give the exact posterior.

Mode P.  Model: d = R s + n, n ~ N(0, N), s ~ N(0, 1) on 2..3 latent pixels (field and multi-domain layouts), R from a
matrix alphabet (full rank, rank deficient, wide, tall, zero row, zero column, zero), noise variance in {0.1, 1, 10}
(and a generic diagonal).  Oracle: closed-form dense algebra, D = (R^T N^-1 R + 1)^-1, m = D R^T N^-1 d.
The posterior mean is linear in the data, so running a driver on EVERY unit data vector gives its exact filter matrix
W = D R^T N^-1 (decides the mean for all data); covariances are decided exactly through the RNG seam (sampler run on
every unit vector of its white-noise tape: samples = L xi, L L^T = D).  Drivers:

  wf_re_mean / wf_re_samples   jft.wiener_filter_posterior in signal and in data space, linear and linearised form
  wf_re_api                    its documented defaults and its type check
  wfc_cl                       ift.WienerFilterCurvature: inverse_times / times on every unit vector (= D, D^-1 exactly),
                               mean, samples from the inverse and from the curvature itself, unit and diagonal prior S
  map_cl / mgvi_cl             ift.optimize_kl with n_samples = 0 / 1,2 (two global iterations, NewtonCG)
  map_re / mgvi_re             jft.optimize_kl with n_samples = 0 / 1,2 (linear_resample, nonlinear_resample)
For the VI drivers the final mean must equal m for every tape (mirrored samples of a quadratic Hamiltonian do not bias
the mean) and the final residuals must have covariance D and depend only on the noise of the last iteration.
"""
import os
import time

import numpy as np

from vf.core import ok, bad, skip
from vf.ref import c18_models as M

ID = "C20"
LEVEL = "exploration"
JAX = True
RULE = ("case = (linear model spec with all numbers written out: key layout x response shape x noise level, driver, driver "
        "options [signal/data space, linear/linearised, prior S, n_samples, sample mode, jit]); full product of the alphabets "
        "in cases(); per case the driver runs on EVERY unit data vector plus one generic data vector (exact filter matrix) "
        "and/or on EVERY unit vector of its white-noise tape (exact covariance). non-trivial = the driver returned a mean "
        "/ samples that were compared with the closed form and the response is not identically zero")
ASSUMPTIONS = [
    "all normal draws flow through nifty.cl.random._rng[-1].normal (classic) / nifty.re random_like (JAX; same key = same draw)",
    "numeric values are alphabet values (non-zero singular values of R in [0.3,4], noise variances 0.1/1/10 or in [0.1,2]); "
    "condition number of every system <= ~200",
    "classic CG: GradientNormController(tol_abs_gradnorm=1e-13), NewtonCG(tol_abs_gradnorm=1e-10, 10 iterations); JAX CG: "
    "resnorm<=1e-12, newton_cg xtol=1e-11; means / covariances compared at 1e-8 * scale",
    "JAX residual_map is a Python loop (vmap/lmap would trace the scripted draw once)",
    "'sample covariances converge' is decided as exact covariance of the sampling map (no Monte-Carlo)",
]

TOL = 1e-8
EPS = np.finfo(np.float64).eps
CGK = dict(resnorm=1e-12, miniter=1, maxiter=300)


def _models(tier, seed):
    if tier == "quick":
        plan = [("F3", ("full", "rankdef", "zerorow"), (0.1, 1.0, 10.0)),
                ("a2b1", ("full", "rankdef", "wide"), (0.1, 10.0))]
    else:
        plan = [("F3", M.RSHAPES, (0.1, 1.0, 10.0, "diag")),
                ("F2", ("full", "rankdef", "wide", "tall"), (0.1, 10.0)),
                ("a2b1", M.RSHAPES, (0.1, 1.0, 10.0, "diag")),
                ("a1b1c1", ("full", "rankdef", "wide"), (0.1, 10.0))]
    out, var = [], 0
    for layout, rshapes, noises in plan:
        nl = tuple("lin" for _ in M.LAYOUTS[layout][1])
        for rs in rshapes:
            for noise in noises:
                var += 1
                out.append(M.make_spec(M.Fill(seed, var, salt=2000), layout, rs, nl, noise, False))
    return out


def _cmodels(tier, seed):
    if tier == "quick":
        plan = [("F3", ("full", "rankdef"), (0.1, 10.0)), ("a2b1", ("full", "rankdef"), (0.1,))]
    else:
        plan = [("F3", ("full", "rankdef", "wide"), (0.1, 1.0, 10.0, "diag")), ("F2", ("full", "rankdef"), (0.1, 10.0)),
                ("a2b1", ("full", "rankdef", "wide"), (0.1, 10.0, "diag"))]
    out, var = [], 0
    for layout, rshapes, noises in plan:
        for rs in rshapes:
            for noise in noises:
                var += 1
                out.append(M.make_cspec(M.Fill(seed, var, salt=2001), layout, rs, noise))
    return out


def cases(tier, seed):
    out = []
    first = True
    for spec in _models(tier, seed):
        field = spec["field"]
        jits = (False, True) if (tier != "quick" and _rs(spec) in ("full", "rankdef")) else (False,)
        for sig in (True, False):
            for linear in (True, False):
                for jit in jits:
                    out.append(dict(driver="wf_re_mean", model=spec, signal_space=sig, model_is_linear=linear, jit=jit))
            for ns in (1, 2):
                out.append(dict(driver="wf_re_samples", model=spec, signal_space=sig, ns=ns))
        if first:
            out.append(dict(driver="wf_re_api", model=spec, what="defaults"))
            out.append(dict(driver="wf_re_api", model=spec, what="wrong-type"))
            first = False
        for S in ("unit", "diag"):
            for sampling in (True, False):
                out.append(dict(driver="wfc_cl", model=spec, S=S, sampling=sampling))
        if not field:
            out.append(dict(driver="map_cl", model=spec))
            for ns in (1, 2):
                out.append(dict(driver="mgvi_cl", model=spec, ns=ns))
        out.append(dict(driver="map_re", model=spec, jit=False))
        modes = ("linear_resample", "nonlinear_resample") if (tier != "quick" or spec["name"].split("|")[1] == "rankdef") \
            else ("linear_resample",)
        for mode in modes:
            for ns in ((1,) if mode != "linear_resample" else (1, 2)):
                out.append(dict(driver="mgvi_re", model=spec, ns=ns, mode=mode, jit=True))
    # complex response, complex data, real latent parameters
    for spec in _cmodels(tier, seed):
        out.append(dict(driver="wfc_cl_cplx", model=spec))
        for sig in (True, False):
            for linear in (True, False):
                out.append(dict(driver="wf_re_cmean", model=spec, signal_space=sig, model_is_linear=linear))
        out.append(dict(driver="wf_re_csamples", model=spec, signal_space=True, ns=1))
    # MGVI on several (forced host) devices: antithetic pairs, exact mean, same samples as on one device
    devcases = []
    for ndev, ns in ((2, 1), (4, 2), (4, 4)):
        devcases.append(dict(driver="mgvi_re_devices", ndev=ndev, ns=ns))
    order = dict(mgvi_re_devices=8, wfc_cl=0, map_cl=1, mgvi_cl=2, wfc_cl_cplx=2.5, wf_re_api=3, wf_re_mean=4, wf_re_cmean=4.5, wf_re_samples=5,
                 wf_re_csamples=5.5, map_re=6, mgvi_re=7)

    def cost(c):
        r = M.Ref(c["model"])
        return (order[c["driver"]], len(r.keys), r.n, c.get("ns", 0), c["model"]["name"], str(sorted((k, str(v)) for k, v in c.items() if k != "model")))
    out.sort(key=cost)
    return out + devcases


# =====================================================================================
def _where(e):
    import traceback
    loc = "?"
    for fs in traceback.extract_tb(e.__traceback__):
        if os.sep + "nifty" + os.sep in fs.filename:
            loc = "%s:%s" % (os.path.basename(fs.filename), fs.name)
    return loc


def _rs(spec):
    return spec["name"].split("|")[1]


def _rk(spec):
    """rank class of the response (outcome label): every latent direction observed or not"""
    R = np.array(spec["R"], dtype=np.float64)
    return "fullrank" if np.linalg.matrix_rank(R) == R.shape[1] else "rankdef"


def _scale(*a):
    return max([1.] + [float(np.abs(x).max(initial=0.)) for x in a])


def _with_data(spec, d):
    s = dict(spec)
    s["data"] = [float(x) for x in d]
    return s


def _datas(ref):
    """every unit data vector + the generic data of the spec"""
    return [np.eye(ref.nd)[k] for k in range(ref.nd)] + [ref.d.copy()]


def run(case):
    t0 = time.process_time()
    out = globals()["_run_" + case["driver"]](case)
    st = out.get("stats")
    if not isinstance(st, dict):
        st = out["stats"] = {}
    st["cpu_s"] = round(time.process_time() - t0, 4)
    return out


def _mean_check(means, ref, drv, det, tol=TOL):
    """means: list of library posterior means for _datas(ref) -> None | bad"""
    m, D = ref.posterior()
    W = D @ (ref.R.T / ref.nvar[None, :])
    G = np.array(means[:ref.nd]).T            # n x nd: exact filter matrix of the driver
    dev = float(np.abs(G - W).max(initial=0.))
    if not dev <= tol * _scale(W):
        k = int(np.argmax(np.abs(G - W).max(axis=0)))
        return bad("%s: posterior mean for unit data vector e_%d differs from D R^T N^-1 e_%d by %.3g (response %s, noise %s)"
                   % (drv, k, k, dev, _rs(ref.spec), ref.spec["name"].split("|")[3]),
                   finding_key="%s|mean-mismatch|unit-data" % drv, detail=det)
    dg = float(np.abs(means[-1] - m).max())
    if not dg <= tol * _scale(m):
        return bad("%s: posterior mean for generic data differs from the closed form by %.3g" % (drv, dg),
                   finding_key="%s|mean-mismatch|generic-data" % drv, detail=det)
    return None


def _cov_check(L, T, drv, what, det, tol=TOL):
    dev = float(np.abs(L @ L.T - T).max(initial=0.))
    if not dev <= tol * _scale(T):
        return bad("%s: covariance of %s differs from the closed form by %.3g" % (drv, what, dev),
                   finding_key="%s|cov-mismatch|%s" % (drv, what.replace(" ", "-")), detail=det)
    return None


# =====================================================================================
#                                   classic
# =====================================================================================
def _run_wfc_cl(case):
    import nifty.cl as ift
    from vf import rngseam, dense
    M.quiet_cl()
    spec = case["model"]
    b = M.build_cl(spec)
    ref = b["ref"]
    n = ref.n
    drv = "wfc_cl"
    det = dict(model=spec["name"], S=case["S"], sampling=case["sampling"])
    ic = ift.GradientNormController(tol_abs_gradnorm=1e-13, iteration_limit=400)
    if case["S"] == "unit":
        svar = np.ones(n)
        S = ift.ScalingOperator(b["dom"], 1., sampling_dtype=np.float64)
    else:
        svar = 0.5 + 1.5 * (0.5 + 0.5 * np.cos(1. + np.arange(n)))      # prior variances in [0.5, 2]
        S = ift.makeOp(M.cl_unflat(b["dom"], svar, ref.keys), sampling_dtype=np.float64)
    Dinv = ref.R.T @ (ref.R / ref.nvar[:, None]) + np.diag(1. / svar)
    D = np.linalg.inv(Dinv)
    try:
        curv = ift.WienerFilterCurvature(b["Rop"], b["N"], S, ic, ic if case["sampling"] else None)
        Dm = dense.rmatrix(curv, ift.LinearOperator.INVERSE_TIMES, complex_in=False)[:n]
        Cm = dense.rmatrix(curv, ift.LinearOperator.TIMES, complex_in=False)[:n]
    except Exception as e:   # noqa
        return bad("WienerFilterCurvature raised %r in %s" % (e, _where(e)),
                   finding_key="%s|raises|%s@%s" % (drv, type(e).__name__, _where(e)), detail=det)
    if not np.abs(Cm - Dinv).max() <= TOL * _scale(Dinv):
        return bad("WienerFilterCurvature.times differs from R^T N^-1 R + S^-1 by %.3g" % np.abs(Cm - Dinv).max(),
                   finding_key="%s|curvature-mismatch" % drv, detail=det)
    if not np.abs(Dm - D).max() <= TOL * _scale(D):
        return bad("WienerFilterCurvature.inverse_times on unit vectors differs from the posterior covariance by %.3g"
                   % np.abs(Dm - D).max(), finding_key="%s|inverse-mismatch" % drv, detail=det)
    means = []
    for d in _datas(ref):
        j = b["Rop"].adjoint_times(b["N"].inverse_times(ift.makeField(b["ddom"], d)))
        means.append(M.cl_flat(curv.inverse_times(j), ref.keys))
    if case["S"] == "unit":
        out = _mean_check(means, ref, drv, det)
        if out is not None:
            return out
    else:
        mref = D @ (ref.R.T @ (ref.d / ref.nvar))
        if not np.abs(means[-1] - mref).max() <= TOL * _scale(mref):
            return bad("wfc_cl: posterior mean with a diagonal prior differs from the closed form by %.3g" % np.abs(means[-1] - mref).max(),
                       finding_key="%s|mean-mismatch|diag-prior" % drv, detail=det)
    stats = dict(unit_vectors=2 * n + ref.nd)
    label = "sampled"
    for inv, T, what in ((True, D, "posterior samples"), (False, Dinv, "curvature samples")):
        try:
            r = M.tape_map(lambda: curv.draw_sample(from_inverse=inv), lambda s: M.cl_flat(s, ref.keys), rngseam.scripted_cl)
        except NotImplementedError:
            if not case["sampling"] and inv:
                label = "no-sampling-controller"      # documented: needs iteration_controller_sampling
                continue
            return bad("draw_sample(from_inverse=%s) raised NotImplementedError" % inv, finding_key="%s|sampling-refused" % drv, detail=det)
        except Exception as e:   # noqa
            return bad("draw_sample(from_inverse=%s) raised %r in %s" % (inv, e, _where(e)),
                       finding_key="%s|sampling-raises|%s@%s" % (drv, type(e).__name__, _where(e)), detail=det)
        stats["unit_vectors"] += r["n"]
        if np.abs(r["off"]).max(initial=0.) > 1e-13 or r["resid"] > TOL * _scale(T) or r["n"] == 0:
            return bad("%s: not a zero-mean linear map of its excitation (offset %.3g, nonlinearity %.3g, %d draws)" % (
                what, np.abs(r["off"]).max(initial=0.), r["resid"], r["n"]), finding_key="%s|not-gaussian" % drv, detail=det)
        out = _cov_check(r["L"], T, drv, what, det)
        if out is not None:
            return out
    return ok(nontrivial=bool(np.abs(ref.R).max() > 0), outcome="wfc_cl|S=%s|%s|%s" % (case["S"], label, _rk(spec)), stats=stats, detail=det)


def _okl_cl(b, ns, tape, lh=None):
    import nifty.cl as ift
    from vf import rngseam
    ic = ift.GradientNormController(tol_abs_gradnorm=1e-13, iteration_limit=400)
    mini = ift.NewtonCG(ift.GradientNormController(tol_abs_gradnorm=1e-10, iteration_limit=10))
    with rngseam.scripted_cl(tape):
        sl, mean = ift.optimize_kl(b["lh"] if lh is None else lh, 2, ns, mini, ic, initial_position=b["pos"], output_directory=None,
                                   return_final_position=True, sanity_checks=False, plot_energy_history=False,
                                   plot_minisanity_history=False)
    return sl, mean


def _run_map_cl(case):
    from vf import rngseam
    M.quiet_cl()
    spec = case["model"]
    ref = M.Ref(spec)
    det = dict(model=spec["name"])
    means = []
    try:
        for d in _datas(ref):
            b = M.build_cl(_with_data(spec, d))
            tape = rngseam.Tape(None)
            sl, mean = _okl_cl(b, 0, tape)
            xs = [M.cl_flat(s, ref.keys) for s in sl.iterator()]
            if tape.pos != 0 or len(xs) != 1 or not np.array_equal(xs[0], M.cl_flat(mean, ref.keys)):
                return bad("optimize_kl(n_samples=0) drew %d normals / returned %d samples" % (tape.pos, len(xs)),
                           finding_key="map_cl|not-a-point-estimate", detail=det)
            means.append(xs[0])
    except Exception as e:   # noqa
        return bad("optimize_kl(n_samples=0) raised %r in %s" % (e, _where(e)),
                   finding_key="map_cl|raises|%s@%s" % (type(e).__name__, _where(e)), detail=det)
    out = _mean_check(means, ref, "map_cl", det)
    if out is not None:
        return out
    return ok(nontrivial=bool(np.abs(ref.R).max() > 0), outcome="map_cl|%s" % _rk(spec), stats=dict(unit_vectors=ref.nd), detail=det)


def _vi_check(r, ref, ns, drv, det):
    """r: tape_map result of flat = [mean (n), residuals (2 ns, n)] for a 2-iteration mirrored VI run"""
    n = ref.n
    m, D = ref.posterior()
    nb = 2 * ns
    if r["off"].size != n * (1 + nb):
        return bad("%s: expected %d mirrored samples" % (drv, nb), finding_key="%s|sample-count" % drv, detail=det)
    if r["n"] == 0 or r["n"] % (2 * ns):
        return bad("%s: %d scripted normals for 2 iterations x %d samples" % (drv, r["n"], ns), finding_key="%s|draw-count" % drv, detail=det)
    blk = r["n"] // (2 * ns)
    Lm = r["L"][:n]
    dm = max(float(np.abs(r["off"][:n] - m).max()), float(np.abs(Lm).max(initial=0.)), float(r["resid_vec"][:n].max()))
    if not dm <= TOL * _scale(m):
        return bad("%s: final mean differs from the exact posterior mean / depends on the sampling noise (%.3g)" % (drv, dm),
                   finding_key="%s|mean-mismatch" % drv, detail=det)
    if np.abs(r["off"][n:]).max(initial=0.) > 1e-12:
        return bad("%s: residuals at zero excitation are not zero" % drv, finding_key="%s|nonzero-mean" % drv, detail=det)
    if r["resid_vec"][n:].max(initial=0.) > TOL * _scale(D):
        return bad("%s: residuals are not linear in the excitation (%.3g)" % (drv, r["resid_vec"][n:].max()),
                   finding_key="%s|not-gaussian" % drv, detail=det)
    Lr = r["L"][n:].reshape(nb, n, r["n"])
    for i in range(nb):
        j = i // 2
        own = np.zeros(r["n"], dtype=bool)
        own[(ns + j) * blk:(ns + j + 1) * blk] = True         # noise of the LAST iteration, sample seed j
        if np.abs(Lr[i][:, ~own]).max(initial=0.) > TOL:
            return bad("%s: final sample %d depends on noise of an earlier iteration / another sample" % (drv, i),
                       finding_key="%s|samples-not-fresh-or-independent" % drv, detail=det)
        out = _cov_check(Lr[i][:, own], D, drv, "final samples", det)
        if out is not None:
            return out
        if i % 2 == 1 and np.abs(Lr[i] + Lr[i - 1]).max() > 16 * EPS * _scale(Lr[i], m):
            return bad("%s: mirrored sample is not the negative of its partner" % drv, finding_key="%s|mirror-not-negative" % drv, detail=det)
    return None


def _run_mgvi_cl(case):
    from vf import rngseam
    M.quiet_cl()
    spec = case["model"]
    b = M.build_cl(spec)
    ref = b["ref"]
    ns = int(case["ns"])
    det = dict(model=spec["name"], ns=ns)
    hold = {}

    def runf():
        # tape_map installs its own tape through the context; optimize_kl is run inside it
        import nifty.cl as ift
        ic = ift.GradientNormController(tol_abs_gradnorm=1e-13, iteration_limit=400)
        mini = ift.NewtonCG(ift.GradientNormController(tol_abs_gradnorm=1e-10, iteration_limit=10))
        sl, mean = ift.optimize_kl(b["lh"], 2, ns, mini, ic, initial_position=b["pos"], output_directory=None,
                                   return_final_position=True, sanity_checks=False, plot_energy_history=False,
                                   plot_minisanity_history=False)
        hold["cls"] = type(sl).__name__
        mv = M.cl_flat(mean, ref.keys)
        return np.concatenate([mv] + [M.cl_flat(s, ref.keys) - mv for s in sl.iterator()])
    try:
        r = M.tape_map(runf, lambda v: v, rngseam.scripted_cl)
    except Exception as e:   # noqa
        return bad("optimize_kl(n_samples=%d) raised %r in %s" % (ns, e, _where(e)),
                   finding_key="mgvi_cl|raises|%s@%s" % (type(e).__name__, _where(e)), detail=det)
    det.update(ndraw=r["n"], log=r["log"][:12])
    out = _vi_check(r, ref, ns, "mgvi_cl", det)
    if out is not None:
        return out
    return ok(nontrivial=bool(np.abs(ref.R).max() > 0), outcome="mgvi_cl|ns=%d|%s" % (ns, _rk(spec)),
              stats=dict(unit_vectors=r["n"]), detail=det)


# =====================================================================================
#                                   JAX
# =====================================================================================
def _run_wf_re_api(case):
    import jax
    import jax.numpy as jnp
    import nifty.re as jft
    M.quiet_re()
    spec = case["model"]
    b = M.build_re(spec)
    ref = b["ref"]
    det = dict(model=spec["name"], what=case["what"])
    if case["what"] == "defaults":
        try:
            s, _ = jft.wiener_filter_posterior(b["lh"], key=jax.random.PRNGKey(0))
        except Exception as e:   # noqa
            return bad("wiener_filter_posterior(likelihood, key=key) with all documented defaults raised %r in %s" % (e, _where(e)),
                       finding_key="wf_re|defaults-raise|%s@%s" % (type(e).__name__, _where(e)), detail=det)
        m, D = ref.posterior()
        dev = float(np.abs(M.re_flat(s.pos, ref) - m).max())
        if not dev <= 1e-4 * _scale(m):      # default CG tolerance (tol=1e-5 relative residual)
            return bad("wiener_filter_posterior with defaults: mean off by %.3g" % dev, finding_key="wf_re|defaults-mean", detail=det)
        return ok(outcome="wf_re_api|defaults", detail=det)
    try:
        res = jft.wiener_filter_posterior(jft.Gaussian(jnp.zeros(2)), key=jax.random.PRNGKey(0), draw_linear_kwargs={})
    except TypeError:
        return ok(outcome="wf_re_api|wrong-type-raises", detail=det)
    except Exception as e:   # noqa
        return bad("wiener_filter_posterior(non-LikelihoodWithModel) raised %r instead of TypeError" % (e,),
                   finding_key="wf_re|wrong-type|%s" % type(e).__name__, detail=det)
    return bad("wiener_filter_posterior(non-LikelihoodWithModel) RETURNED %r instead of raising it" % (res,),
               finding_key="wf_re|wrong-type|exception-returned-not-raised", detail=det)


def _wf_kwargs(case, b):
    import jax.numpy as jnp
    ref = b["ref"]
    kw = dict(signal_space=bool(case["signal_space"]))
    if not case["signal_space"]:
        nvar = jnp.asarray(ref.nvar)
        kw["noise_covariance"] = lambda t: t * nvar
    if not case.get("model_is_linear", True):
        kw["model_is_linear"] = False
        kw["position"] = b["pos"]          # linearisation point: irrelevant for a linear model
    return kw


def _run_wf_re_mean(case):
    import jax
    import nifty.re as jft
    M.quiet_re()
    spec = case["model"]
    ref = M.Ref(spec)
    drv = "wf_re|%s|%s" % ("signal-space" if case["signal_space"] else "data-space", "linear" if case["model_is_linear"] else "linearised")
    det = dict(model=spec["name"], jit=case["jit"])
    means = []
    try:
        for d in _datas(ref):
            b = M.build_re(_with_data(spec, d))
            s, info = jft.wiener_filter_posterior(b["lh"], key=jax.random.PRNGKey(0), n_samples=0, jit=bool(case["jit"]),
                                                  draw_linear_kwargs=dict(cg_kwargs=CGK), **_wf_kwargs(case, b))
            if M.re_leaf_shapes(s.pos) != M.re_leaf_shapes(b["pos"]):
                return bad("%s: posterior mean has leaves %s" % (drv, M.re_leaf_shapes(s.pos)), finding_key="%s|mean-structure" % drv, detail=det)
            means.append(M.re_flat(s.pos, ref))
    except Exception as e:   # noqa
        return bad("%s raised %r in %s" % (drv, e, _where(e)), finding_key="%s|raises|%s@%s" % (drv, type(e).__name__, _where(e)), detail=det)
    out = _mean_check(means, ref, drv, det)
    if out is not None:
        return out
    return ok(nontrivial=bool(np.abs(ref.R).max() > 0), outcome="%s|%s" % (drv, "jit" if case["jit"] else "eager"),
              stats=dict(unit_vectors=ref.nd), detail=det)


def _run_wf_re_samples(case):
    import jax
    import nifty.re as jft
    M.quiet_re()
    spec = case["model"]
    b = M.build_re(spec)
    ref = b["ref"]
    n = ref.n
    ns = int(case["ns"])
    drv = "wf_re|%s|samples" % ("signal-space" if case["signal_space"] else "data-space")
    det = dict(model=spec["name"], ns=ns)
    m, D = ref.posterior()
    kw = _wf_kwargs(case, b)

    def runf():
        s, info = jft.wiener_filter_posterior(b["lh"], key=jax.random.PRNGKey(3), n_samples=ns, jit=False, residual_map=M.pymap,
                                              draw_linear_kwargs=dict(cg_kwargs=CGK), **kw)
        return np.concatenate([M.re_flat(s.pos, ref), M.re_flat(s._samples, ref, 1).ravel()])
    try:
        r = M.tape_map(runf, lambda v: v, M.scripted_re_keyed)
    except Exception as e:   # noqa
        return bad("%s raised %r in %s" % (drv, e, _where(e)), finding_key="%s|raises|%s@%s" % (drv, type(e).__name__, _where(e)), detail=det)
    det.update(ndraw=r["n"], log=r["log"])
    nb = 2 * ns
    if r["off"].size != n * (1 + nb) or r["n"] == 0 or r["n"] % ns:
        return bad("%s: %d outputs / %d draws for n_samples=%d" % (drv, r["off"].size, r["n"], ns), finding_key="%s|sample-count" % drv, detail=det)
    if not (np.abs(r["off"][:n] - m).max() <= TOL * _scale(m) and np.abs(r["L"][:n]).max() == 0.):
        return bad("%s: Samples.pos is not the posterior mean / depends on the noise" % drv, finding_key="%s|mean-mismatch" % drv, detail=det)
    if np.abs(r["off"][n:]).max() != 0. or r["resid"] > TOL * _scale(D):
        return bad("%s: residuals are not a zero-mean linear map of the excitation" % drv, finding_key="%s|not-gaussian" % drv, detail=det)
    blk = r["n"] // ns
    Lr = r["L"][n:].reshape(nb, n, r["n"])
    for i in range(nb):
        own = np.zeros(r["n"], dtype=bool)
        own[(i // 2) * blk:(i // 2 + 1) * blk] = True
        if np.abs(Lr[i][:, ~own]).max(initial=0.) != 0.:
            return bad("%s: sample %d is not independent of the other samples" % (drv, i), finding_key="%s|samples-not-independent" % drv, detail=det)
        out = _cov_check(Lr[i][:, own], D, drv, "posterior samples", det)
        if out is not None:
            return out
        if i % 2 == 1 and not np.array_equal(Lr[i], -Lr[i - 1]):
            return bad("%s: mirrored residual is not the exact negative" % drv, finding_key="%s|mirror-not-negative" % drv, detail=det)
    return ok(nontrivial=bool(np.abs(ref.R).max() > 0), outcome="%s|%s" % (drv, _rk(spec)), stats=dict(unit_vectors=r["n"]), detail=det)


# ------------------------------------------------------------------ complex response, real latent parameters
def _cdatas(ref):
    """every real and every imaginary unit data vector + the generic complex data"""
    E = np.eye(ref.nd)
    return [E[k] + 0j for k in range(ref.nd)] + [1j * E[k] for k in range(ref.nd)] + [ref.dc.copy()]


def _cmean_check(means, ref, drv, det):
    W = ref.cfilter()
    G = np.array(means[:2 * ref.nd]).T
    dev = float(np.abs(G - W).max(initial=0.))
    if not dev <= TOL * _scale(W):
        k = int(np.argmax(np.abs(G - W).max(axis=0)))
        return bad("%s: posterior mean for the %s unit data vector %d differs from D Re(R^H N^-1 e) by %.3g (complex response %s)"
                   % (drv, "real" if k < ref.nd else "imaginary", k % ref.nd, dev, _rs(ref.spec)),
                   finding_key="%s|mean-mismatch|unit-data" % drv, detail=det)
    m, _ = ref.cposterior()
    if not np.abs(means[-1] - m).max() <= TOL * _scale(m):
        return bad("%s: posterior mean for generic complex data differs from the closed form by %.3g" % (drv, np.abs(means[-1] - m).max()),
                   finding_key="%s|mean-mismatch|generic-data" % drv, detail=det)
    return None


def _run_wf_re_cmean(case):
    import jax
    import nifty.re as jft
    M.quiet_re()
    spec = case["model"]
    ref = M.CRef(spec)
    drv = "wf_re_cplx|%s|%s" % ("signal-space" if case["signal_space"] else "data-space", "linear" if case["model_is_linear"] else "linearised")
    det = dict(model=spec["name"])
    means = []
    try:
        for d in _cdatas(ref):
            b = M.build_re_cplx(spec, d)
            s, info = jft.wiener_filter_posterior(b["lh"], key=jax.random.PRNGKey(0), n_samples=0, jit=False,
                                                  draw_linear_kwargs=dict(cg_kwargs=CGK), **_wf_kwargs(case, b))
            leaves = jax.tree_util.tree_leaves(s.pos)
            if M.re_leaf_shapes(s.pos) != M.re_leaf_shapes(b["pos"]) or any(np.iscomplexobj(np.asarray(l)) for l in leaves):
                return bad("%s: posterior mean of real latent parameters has leaves %s of dtype %s" % (
                    drv, M.re_leaf_shapes(s.pos), [str(np.asarray(l).dtype) for l in leaves]), finding_key="%s|mean-structure" % drv, detail=det)
            means.append(M.re_flat(s.pos, ref))
    except Exception as e:   # noqa
        return bad("%s raised %r in %s" % (drv, e, _where(e)), finding_key="%s|raises|%s@%s" % (drv, type(e).__name__, _where(e)), detail=det)
    out = _cmean_check(means, ref, drv, det)
    if out is not None:
        return out
    return ok(nontrivial=True, outcome="%s|%s" % (drv, _rk_c(ref)), stats=dict(unit_vectors=2 * ref.nd), detail=det)


def _rk_c(ref):
    return "fullrank" if np.linalg.matrix_rank(ref.Rr) == ref.n else "rankdef"


def _run_wf_re_csamples(case):
    import jax
    import nifty.re as jft
    M.quiet_re()
    spec = case["model"]
    b = M.build_re_cplx(spec)
    ref = b["ref"]
    n = ref.n
    drv = "wf_re_cplx|samples"
    det = dict(model=spec["name"])
    m, D = ref.cposterior()
    kw = _wf_kwargs(case, b)

    def runf():
        s, info = jft.wiener_filter_posterior(b["lh"], key=jax.random.PRNGKey(3), n_samples=1, jit=False, residual_map=M.pymap,
                                              draw_linear_kwargs=dict(cg_kwargs=CGK), **kw)
        return np.concatenate([M.re_flat(s.pos, ref), M.re_flat(s._samples, ref, 1).ravel()])
    try:
        r = M.tape_map(runf, lambda v: np.asarray(v).real if not np.iscomplexobj(v) or np.abs(np.imag(v)).max() == 0 else v, M.scripted_re_keyed)
    except Exception as e:   # noqa
        return bad("%s raised %r in %s" % (drv, e, _where(e)), finding_key="%s|raises|%s@%s" % (drv, type(e).__name__, _where(e)), detail=det)
    det.update(ndraw=r["n"], log=r["log"])
    if r["off"].size != 3 * n or r["n"] == 0:
        return bad("%s: %d outputs / %d draws" % (drv, r["off"].size, r["n"]), finding_key="%s|sample-count" % drv, detail=det)
    if not (np.abs(r["off"][:n] - m).max() <= TOL * _scale(m) and np.abs(r["L"][:n]).max() == 0.):
        return bad("%s: Samples.pos is not the posterior mean" % drv, finding_key="%s|mean-mismatch" % drv, detail=det)
    if np.abs(r["off"][n:]).max() != 0. or r["resid"] > TOL * _scale(D):
        return bad("%s: residuals are not a zero-mean linear map of the excitation" % drv, finding_key="%s|not-gaussian" % drv, detail=det)
    L = r["L"][n:2 * n]
    C = L @ L.T
    if not np.abs(C - D).max() <= TOL * _scale(D):
        # which law do the samples have?  with the complex white excitation counted at unit TOTAL variance the data term of the
        # sampled metric is only half the Fisher information Re(R^H N^-1 R)
        Dhalf = np.linalg.inv(np.eye(n) + 0.5 * (np.linalg.inv(D) - np.eye(n)))
        Mx = np.linalg.inv(D)
        alt = Mx @ C @ Mx                     # covariance of the metric sample
        half = np.abs(alt - (np.eye(n) + 0.5 * (Mx - np.eye(n)))).max() <= TOL * _scale(Mx)
        return bad("%s: covariance of the posterior samples differs from D = (1 + Re(R^H N^-1 R))^-1 by %.3g%s" % (
            drv, np.abs(C - D).max(), " (the metric sample carries only HALF of the data term: complex white noise drawn with unit "
            "total variance instead of unit variance per real component)" if half else ""),
            finding_key="%s|cov-mismatch|%s" % (drv, "half-data-term" if half else "other"), detail=det)
    if not np.array_equal(r["L"][2 * n:], -L):
        return bad("%s: mirrored residual is not the exact negative" % drv, finding_key="%s|mirror-not-negative" % drv, detail=det)
    return ok(nontrivial=True, outcome="%s|%s" % (drv, _rk_c(ref)), stats=dict(unit_vectors=r["n"]), detail=det)


def _run_wfc_cl_cplx(case):
    """classic WienerFilterCurvature with a complex response acting on a real field (adjoint w.r.t. the real scalar product)"""
    import nifty.cl as ift
    from vf import rngseam, dense
    M.quiet_cl()
    spec = case["model"]
    ref = M.CRef(spec)
    n = ref.n
    drv = "wfc_cl_cplx"
    det = dict(model=spec["name"])
    b = M.build_cl(dict(spec, R=spec["R"]))          # domains / keys only
    dom, ddom = b["dom"], b["ddom"]
    Rc = ref.Rc

    class CResp(ift.LinearOperator):
        def __init__(self):
            self._domain, self._target = dom, ddom
            self._capability = self.TIMES | self.ADJOINT_TIMES

        def apply(self, x, mode):
            self._check_input(x, mode)
            if mode == self.TIMES:
                return ift.makeField(ddom, Rc @ M.cl_flat(x, ref.keys))
            return M.cl_unflat(dom, np.real(Rc.conj().T @ M.cl_flat(x)), ref.keys)
    R = CResp()
    N = ift.DiagonalOperator(ift.makeField(ddom, ref.nvar), sampling_dtype=np.complex128)
    S = ift.ScalingOperator(dom, 1., sampling_dtype=np.float64)
    ic = ift.GradientNormController(tol_abs_gradnorm=1e-13, iteration_limit=400)
    m, D = ref.cposterior()
    try:
        curv = ift.WienerFilterCurvature(R, N, S, ic, ic)
        Dm = dense.rmatrix(curv, ift.LinearOperator.INVERSE_TIMES, complex_in=False)
        means = []
        for d in _cdatas(ref):
            j = R.adjoint_times(N.inverse_times(ift.makeField(ddom, np.asarray(d, dtype=np.complex128))))
            means.append(M.cl_flat(curv.inverse_times(j), ref.keys).real)
        r = M.tape_map(lambda: curv.draw_sample(from_inverse=True), lambda s: M.cl_flat(s, ref.keys), rngseam.scripted_cl)
    except Exception as e:   # noqa
        return skip("classic WienerFilterCurvature does not support a complex response: %s@%s" % (type(e).__name__, _where(e)))
    if not (np.abs(Dm[:n] - D).max() <= TOL * _scale(D) and np.abs(Dm[n:]).max(initial=0.) <= TOL):
        return bad("wfc_cl_cplx: inverse_times on unit vectors differs from (1 + Re(R^H N^-1 R))^-1 by %.3g" % np.abs(Dm[:n] - D).max(),
                   finding_key="%s|inverse-mismatch" % drv, detail=det)
    out = _cmean_check(means, ref, drv, det)
    if out is not None:
        return out
    if np.abs(r["off"]).max(initial=0.) > 1e-13 or r["resid"] > TOL * _scale(D) or r["n"] == 0:
        return bad("wfc_cl_cplx: samples are not a zero-mean linear map of the excitation", finding_key="%s|not-gaussian" % drv, detail=det)
    out = _cov_check(np.asarray(r["L"]), D, drv, "posterior samples", det)
    if out is not None:
        return out
    return ok(nontrivial=True, outcome="%s|%s" % (drv, _rk_c(ref)), stats=dict(unit_vectors=n + 2 * ref.nd + r["n"]), detail=det)


def _okl_re(b, ns, mode, jit):
    import jax
    import nifty.re as jft
    mk = dict(name=None, xtol=1e-11, maxiter=12, cg_kwargs=dict(name=None, resnorm=1e-13, miniter=1, maxiter=300))
    return jft.optimize_kl(b["lh"], b["pos"], key=jax.random.PRNGKey(20), n_total_iterations=2, n_samples=ns, sample_mode=mode,
                           jit=jit, residual_map=M.pymap, draw_linear_kwargs=dict(cg_name=None, cg_kwargs=CGK),
                           nonlinearly_update_kwargs=dict(minimize_kwargs=dict(name=None, xtol=1e-11, maxiter=40,
                                                                               cg_kwargs=dict(name=None, resnorm=1e-13, miniter=1))),
                           kl_kwargs=dict(minimize_kwargs=mk))


def _run_map_re(case):
    from vf import rngseam
    M.quiet_re()
    spec = case["model"]
    ref = M.Ref(spec)
    det = dict(model=spec["name"])
    means = []
    try:
        for d in _datas(ref):
            b = M.build_re(_with_data(spec, d))
            tape = rngseam.Tape(None)
            with M.scripted_re_keyed(tape):
                s, st = _okl_re(b, 0, "linear_resample", bool(case["jit"]))
            if tape.pos != 0 or len(s) != 0:
                return bad("optimize_kl(n_samples=0) drew %d normals / holds %d samples" % (tape.pos, len(s)),
                           finding_key="map_re|not-a-point-estimate", detail=det)
            means.append(M.re_flat(s.pos, ref))
    except Exception as e:   # noqa
        return bad("jft.optimize_kl(n_samples=0) raised %r in %s" % (e, _where(e)),
                   finding_key="map_re|raises|%s@%s" % (type(e).__name__, _where(e)), detail=det)
    out = _mean_check(means, ref, "map_re", det)
    if out is not None:
        return out
    return ok(nontrivial=bool(np.abs(ref.R).max() > 0), outcome="map_re|%s" % _rk(spec), stats=dict(unit_vectors=ref.nd), detail=det)


def _run_mgvi_re(case):
    M.quiet_re()
    spec = case["model"]
    b = M.build_re(spec)
    ref = b["ref"]
    ns = int(case["ns"])
    mode = case["mode"]
    drv = "mgvi_re" if mode == "linear_resample" else "geovi_re"
    det = dict(model=spec["name"], ns=ns, mode=mode)

    def runf():
        s, st = _okl_re(b, ns, mode, bool(case["jit"]))
        return np.concatenate([M.re_flat(s.pos, ref), M.re_flat(s._samples, ref, 1).ravel()])
    try:
        r = M.tape_map(runf, lambda v: v, M.scripted_re_keyed)
    except Exception as e:   # noqa
        return bad("jft.optimize_kl(n_samples=%d, %s) raised %r in %s" % (ns, mode, e, _where(e)),
                   finding_key="%s|raises|%s@%s" % (drv, type(e).__name__, _where(e)), detail=det)
    det.update(ndraw=r["n"], log=r["log"][:12])
    out = _vi_check(r, ref, ns, drv, det)
    if out is not None:
        return out
    return ok(nontrivial=bool(np.abs(ref.R).max() > 0), outcome="%s|ns=%d|%s" % (drv, ns, _rk(spec)),
              stats=dict(unit_vectors=r["n"]), detail=det)


def _devices_child(ndev, ns):
    """Runs in a fresh interpreter started with XLA_FLAGS=--xla_force_host_platform_device_count=<ndev>."""
    import json
    import logging
    import jax
    jax.config.update("jax_enable_x64", True)
    import jax.numpy as jnp
    import nifty.re as jft
    logging.getLogger("nifty.re.logger").setLevel(logging.ERROR)
    assert len(jax.devices()) == ndev, jax.devices()
    R = jnp.array([[1.0, 0.5, 0.2], [0.2, -1.0, 0.3]])
    d = jnp.array([0.3, -1.2])
    lh = jft.Gaussian(d, noise_std_inv=lambda t: 2.0 * t).amend(lambda x: R @ x["a"])
    pos = jft.Vector({"a": jnp.array([0.1, -0.2, 0.4])})
    Mm = 4 * np.asarray(R).T @ np.asarray(R) + np.eye(3)
    m = np.linalg.solve(Mm, 4 * np.asarray(R).T @ np.asarray(d))
    res = {}
    for tag, dev in (("single", None), ("multi", jax.devices())):
        s, _ = jft.optimize_kl(
            lh, pos, key=jax.random.PRNGKey(3), n_total_iterations=2, n_samples=ns, sample_mode="linear_resample",
            devices=dev, residual_map="smap" if dev is None else jax.vmap, kl_map=jax.vmap,
            draw_linear_kwargs=dict(cg=jft.conjugate_gradient.static_cg, cg_name=None, cg_kwargs=dict(absdelta=1e-14, maxiter=20)),
            kl_kwargs=dict(minimize=jft.optimize._static_newton_cg,
                           minimize_kwargs=dict(name=None, xtol=1e-12, cg_kwargs=dict(name=None), maxiter=10)))
        sm = np.asarray(s._samples.tree["a"])
        res[tag] = dict(mean=np.asarray(s.pos.tree["a"]).tolist(), samples=sm.tolist())
    res["exact_mean"] = m.tolist()
    print("RESULT:" + json.dumps(res))


def _run_mgvi_re_devices(case):
    import json
    import subprocess
    import sys
    ndev, ns = int(case["ndev"]), int(case["ns"])
    env = dict(os.environ)
    env["XLA_FLAGS"] = "--xla_force_host_platform_device_count=%d" % ndev
    code = "from vf.props import c20; c20._devices_child(%d, %d)" % (ndev, ns)
    pr = subprocess.run([sys.executable, "-c", code], env=env, capture_output=True, text=True, timeout=1500)
    r = [json.loads(l[7:]) for l in pr.stdout.splitlines() if l.startswith("RESULT:")]
    det = dict(ndev=ndev, ns=ns)
    if not r:
        return bad("jft.optimize_kl on %d devices with n_samples=%d failed: %s" % (ndev, ns, pr.stderr[-600:]),
                   finding_key="mgvi_re_devices|raises|ndev=%d|ns=%d" % (ndev, ns), detail=det)
    r = r[0]
    m = np.array(r["exact_mean"])
    for tag in ("single", "multi"):
        sm = np.array(r[tag]["samples"])
        if sm.shape[0] != 2 * ns:
            return bad("%s-device MGVI holds %d samples, expected %d" % (tag, sm.shape[0], 2 * ns),
                       finding_key="mgvi_re_devices|sample-count|%s" % tag, detail=det)
        mir = float(np.abs(sm[0::2] + sm[1::2]).max())
        if mir > 1e-12:
            return bad("%s-device MGVI (%d devices, n_samples=%d): samples are not antithetic pairs (s, -s): max |s_2i + s_2i+1| = %.3g"
                       % (tag, ndev, ns, mir), finding_key="mgvi_re_devices|mirror-not-negative|%s" % tag, detail=det)
        dm = float(np.abs(np.array(r[tag]["mean"]) - m).max())
        if dm > 1e-10:
            return bad("%s-device MGVI (%d devices, n_samples=%d): mean differs from the exact posterior mean by %.3g"
                       % (tag, ndev, ns, dm), finding_key="mgvi_re_devices|mean-mismatch|%s" % tag, detail=det)
    dd = float(np.abs(np.array(r["multi"]["samples"]) - np.array(r["single"]["samples"])).max())
    if dd > 1e-10:
        return bad("MGVI samples on %d devices differ from the single-device samples with the same key by %.3g" % (ndev, dd),
                   finding_key="mgvi_re_devices|differs-from-single", detail=det)
    return ok(nontrivial=True, outcome="mgvi_re_devices|ndev=%d|ns=%d" % (ndev, ns), detail=det)


def finish(run):
    need = ["wfc_cl|S=unit|sampled", "wfc_cl|S=diag|sampled", "map_cl|", "mgvi_cl|ns=2", "wf_re|signal-space|linear", "wf_re|data-space|linear",
            "wf_re|signal-space|linearised", "wf_re|data-space|samples", "map_re|",
            "wf_re_cplx|data-space|linear|rankdef", "wf_re_cplx|signal-space|linearised|fullrank", "wfc_cl_cplx|", "mgvi_re|ns=2", "geovi_re|ns=1"]
    have = list(run.outcomes)
    missing = [x for x in need if not any(h.startswith(x) for h in have)]
    if missing and not run.violations and not run.extra.get("filtered_by"):
        run.violations.append((dict(vacuity=missing), bad("no passing case of class %s" % missing, finding_key="harness|vacuous-class")))
    return dict(rank_deficient_cases=sum(v for o, v in run.outcomes.items() if o.endswith("rankdef")))
