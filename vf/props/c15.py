"""C15 JAX conjugate gradients: accurate, and eager and compiled variants agree.

Mode P.  A case is one *static structure* of a solver call (so that the compiled solver is
compiled once per case and reused): which of absdelta / resnorm / miniter / maxiter / x0 are
given, pytree layout, size, dtype.  Inside a case EVERY element of the numeric alphabets is
run: all spectra x right-hand sides x miniter values x tol/atol sets, with maxiter = None, exactly
the iteration at which the run converges ("at"), or one less ("before").

part "hpd"   : nifty.re.conjugate_gradient._cg (eager) and ._static_cg (inside jax.jit, all
               numeric parameters traced) on Hermitian positive definite systems.
               Oracle: dense residual / energy of the returned point and of the previous
               iterate, the stopping rule evaluated on them, exact CG iterates
               (Krylov-subspace minimisers), then eager-vs-compiled agreement.
part "long"  : sizes 24-40, spectra on which CG needs 20-50 iterations, so that the exact residual
               recomputation (every 20th iteration) happens once or twice; both solvers, three stopping
               configurations, flat and pytree layout.  Oracle: no failure on HPD, criterion met on true
               quantities, both solutions within 2*resnorm/lambda_min of each other.
part "nonpd" : indefinite / negative definite / singular matrices, _raise_nonposdef in {T,F},
               one solver per case.  Oracle: textbook CG on the dense matrix tells at which
               iteration a non-positive curvature direction first appears; failure must be
               reported when asked, otherwise E(x) <= E(x0) and, if the first direction
               already has negative curvature, x - x0 is a positive multiple of -gradient.
"""
import numpy as np

from vf.core import ok, bad, skip

ID = "C15"
LEVEL = "exploration"
JAX = True
RULE = ("case = static call structure (absdelta?, resnorm?, miniter None/int, maxiter None/at/before the convergence "
        "iteration, x0?, layout, size, dtype[, solver, _raise_nonposdef]); inside each case the complete product "
        "spectra x rhs x miniter values x tol/atol sets is run on both solvers; non-trivial = the structural event "
        "of the case happened at least once (converged by criterion / exactly at maxiter / stopped by maxiter / "
        "non-positive curvature met)")
ASSUMPTIONS = [
    "float64 (jax_enable_x64); CPU backend; systems of size <= 8 with kappa <= 1e3 (alphabet values, mixing selected by VERIF_SEED)",
    "compiled solver exercised through jax.jit with matrix, rhs and all numeric stopping parameters traced (the jittability use case of the test-suite)",
    "criterion accepted within 1e3*eps*(|j|+|A||x|) of the threshold; solutions compared at 1e-10 relative for kappa<=10, and through their energies (1e-5 of E0-E*) for the kappa=1e3 members; runs whose criterion value is within 1e-6 relative (kappa<=10) or a factor 10 (kappa=1e3) of a threshold are not used for the agreement clause; the stop-at-first-opportunity rule is only asserted for kappa<=10",
    "previous iterate (needed for the energy-decrease criterion) obtained by re-running the eager solver with maxiter = nit-1; its energy is evaluated densely",
    "norm_ord left at its default; time_threshold and name (printing) not exercised",
]

ABSDELTA = 1e-8
RESNORM = 1e-8
KRYLOV_TOL = 1e-5

_cache = {}


# ------------------------------------------------------------------ enumeration
def cases(tier, seed):
    quick = tier == "quick"
    out = []
    sizes = [1, 2, 3, 5] if quick else [1, 2, 3, 5, 8]
    for n in sizes:
        layouts = ["flat"] if n == 1 else (["tree", "flat"] if not quick else ["tree"])
        for layout in layouts:
            for cplx in (False, True):
                if quick and n == 5 and cplx:
                    continue
                for x0 in (False, True):
                    for has_abs in (False, True):
                        for has_res in (False, True):
                            for mini in ("none", "int"):
                                for maxmode in ("none", "at", "before"):
                                    out.append(dict(part="hpd", n=n, layout=layout, cplx=cplx, x0=x0, absdelta=has_abs,
                                                    resnorm=has_res, miniter=mini, maxmode=maxmode, seed=seed))
    for n in ([2, 3] if quick else [2, 3, 5]):
        for cplx in (False, True):
            for x0 in (False, True):
                for rz in (True, False):
                    for solver in ("eager", "static"):
                        out.append(dict(part="nonpd", n=n, layout="tree", cplx=cplx, x0=x0, raise_nonposdef=rz,
                                        solver=solver, seed=seed))
    # long runs: the exact residual recomputation every N_RESET = 20 iterations happens once or twice
    for n in ([24, 32] if quick else [24, 32, 40]):
        for layout in ("flat", "tree"):
            for cplx in ((False, True) if (not quick or n == 24) else (False,)):
                for x0 in (False, True):
                    for cfg in ("default", "resnorm", "absdelta"):
                        out.append(dict(part="long", n=n, layout=layout, cplx=cplx, x0=x0, cfg=cfg, seed=seed))
    order = {"hpd": 0, "nonpd": 1, "long": 2}
    out.sort(key=lambda c: (c["n"], order[c["part"]], c["cplx"], c["x0"], c.get("maxmode", "none") != "none"))
    return out


# ------------------------------------------------------------------ JAX plumbing
def _layout(layout, n):
    import jax.numpy as jnp
    import nifty.re as jft
    if layout == "flat":
        return (lambda v: jnp.asarray(v)), (lambda t: t)
    n1 = n // 2
    m = n - n1
    shp = (2, m // 2) if (m % 2 == 0 and m >= 4) else (m,)

    def wrap(v):
        v = jnp.asarray(v)
        return jft.Vector({"a": v[:n1], "b": v[n1:].reshape(shp)})

    def flat(t):
        return jnp.concatenate([t.tree["a"].ravel(), t.tree["b"].ravel()])
    return wrap, flat


def _static_fn(n, layout, cplx, has_abs, has_res, mini_none, maxi_none, has_x0, raise_):
    """jitted _static_cg for one static structure; everything numeric is traced"""
    key = (n, layout, cplx, has_abs, has_res, mini_none, maxi_none, has_x0, raise_)
    if key not in _cache:
        import jax
        from nifty.re import conjugate_gradient as C
        wrap, flat = _layout(layout, n)

        def f(A, j, x0, absdelta, resnorm, tol, atol, miniter, maxiter):
            kw = dict(tol=tol, atol=atol, _raise_nonposdef=raise_)
            if has_abs:
                kw["absdelta"] = absdelta
            if has_res:
                kw["resnorm"] = resnorm
            if not mini_none:
                kw["miniter"] = miniter
            if not maxi_none:
                kw["maxiter"] = maxiter
            r = C._static_cg(lambda v: wrap(A @ flat(v)), j, x0 if has_x0 else None, **kw)
            return flat(r.x), r.info, r.nit, r.success
        _cache[key] = jax.jit(f)
    return _cache[key]


def _quiet():
    if "quiet" not in _cache:
        import logging
        import nifty.re  # noqa: F401
        for h in logging.getLogger("nifty.re.logger").handlers:
            h.setLevel(logging.CRITICAL + 1)
        _cache["quiet"] = True


def _res(x, info, nit, success):
    return dict(x=np.asarray(x), info=int(info), nit=int(nit), success=bool(success))


def _eager(mat, flat, jv, x0v, cfg, maxiter, raise_=True):
    from nifty.re import conjugate_gradient as C
    kw = {}
    for k in ("absdelta", "resnorm", "miniter"):
        if cfg.get(k) is not None:
            kw[k] = cfg[k]
    if cfg.get("tol") is not None:
        kw["tol"] = cfg["tol"]
        kw["atol"] = cfg["atol"]
    if maxiter is not None:
        kw["maxiter"] = maxiter
    if not raise_:
        kw["_raise_nonposdef"] = False
    try:
        r = C._cg(mat, jv, x0v, **kw)
    except ValueError as e:
        return dict(raised=str(e))
    return _res(flat(r.x), r.info, r.nit, r.success)


def _static(fn, Aj, jv, x0v, cfg, maxiter):
    r = fn(Aj, jv, x0v, cfg.get("absdelta") or 0., cfg.get("resnorm") or 0.,
           1e-5 if cfg.get("tol") is None else cfg["tol"], 0. if cfg.get("atol") is None else cfg["atol"],
           cfg.get("miniter") or 0, maxiter or 0)
    return _res(*r)


def _cfgstr(cfg, maxiter):
    return ",".join("%s=%s" % (k, v) for k, v in list(cfg.items()) + [("maxiter", maxiter)] if v is not None)


# ------------------------------------------------------------------ part hpd
def run_hpd(c):
    import jax.numpy as jnp
    from vf.ref import c14_sys as S
    from vf.ref import c15_ref as R
    n, cplx, seed, layout = c["n"], c["cplx"], c["seed"], c["layout"]
    _quiet()
    wrap, flat = _layout(layout, n)
    fn = _static_fn(n, layout, cplx, c["absdelta"], c["resnorm"], c["miniter"] == "none", c["maxmode"] == "none", c["x0"], True)
    fallback = not c["absdelta"] and not c["resnorm"]
    tolsets = [(None, None), (1e-2, 0.), (0.5, 0.), (1e-5, 1e-3)] if fallback else [(None, None), (0.5, 0.5)]
    # tight thresholds (met near the round-off floor) and loose ones (met while the iterates still move)
    critvals = [(None, None)] if fallback else [(ABSDELTA, RESNORM), (1e-2, 1e-1)]
    minivals = [None] if c["miniter"] == "none" else [0, 3]
    rhss = ["e0", "ones", "eig"] + (["eig2", "gen"] if n > 1 else [])
    if cplx and n > 1:
        rhss.insert(1, "ie%d" % (n - 1))
    found = {}
    st = dict(runs=0, conv_by_criterion=0, conv_exactly_at_maxiter=0, stopped_by_maxiter=0, ambiguous=0,
              maxiter_zero=0, nit_differs=0, compared=0)

    def V(key, what):
        found.setdefault(key, what)

    for spec in R.spectra(n):
        A, lam, U = S.system(n, spec, cplx, seed)
        Aj = jnp.asarray(A)

        def mat(v, Aj=Aj):
            return wrap(Aj @ flat(v))
        for rhs in rhss:
            j = S.vector(rhs, n, cplx, U, seed, tag=1)
            x0 = 0.7 * S.vector("gen", n, cplx, U, seed, tag=2) if c["x0"] else np.zeros_like(j)
            jv = wrap(j)
            x0v = wrap(x0)
            x0e = x0v if c["x0"] else None
            sg, sE, kappa = R.slacks(A, lam, j, x0)
            ref, closed = S.krylov_minimisers(A, None, j, x0, 12)
            Eref = [S.energy(A, j, x) for x in ref]
            Estar = S.energy(A, j, np.linalg.solve(A, j))
            gap0 = max(Eref[0] - Estar, 0.)
            traj = {0: x0}

            def prev_iterate(k):
                if k not in traj:
                    r = _eager(mat, flat, jv, x0e, dict(resnorm=0., miniter=k + 1), k)
                    traj[k] = None if "raised" in r or r["nit"] != k else r["x"]
                return traj[k]
            for mini, (absv, resv) in [(m, cv) for cv in critvals for m in minivals]:
                for tol, atol in tolsets:
                    cfg = dict(absdelta=absv if c["absdelta"] else None, resnorm=resv if c["resnorm"] else None,
                               tol=tol, atol=atol, miniter=mini)
                    tag = "%s,%s,rhs=%s" % (spec, "complex" if cplx else "real", rhs)
                    maxiter = None
                    if c["maxmode"] != "none":
                        # the convergence iteration of this criterion: first iteration at which the eager solver
                        # (miniter=0, no iteration limit) finds it satisfied
                        r0 = _eager(mat, flat, jv, x0e, dict(cfg, miniter=0), None)
                        if "raised" in r0 or r0["info"] != 0:
                            V("hpd|eager|no-convergence-with-default-maxiter", "%s %s: %s" % (tag, _cfgstr(cfg, None), r0))
                            continue
                        maxiter = r0["nit"] if c["maxmode"] == "at" else r0["nit"] - 1
                        if maxiter < 0:
                            continue
                    mi, ma = R.effective(n, mini, maxiter)
                    resn = R.effective_resnorm(dict(cfg, tol=1e-5 if tol is None else tol, atol=0. if atol is None else atol), j)
                    res = {}
                    st["runs"] += 1
                    if maxiter == 0:
                        st["maxiter_zero"] += 1
                    for solver in ("eager", "static"):
                        r = _eager(mat, flat, jv, x0e, cfg, maxiter) if solver == "eager" else _static(fn, Aj, jv, x0v, cfg, maxiter)
                        res[solver] = r
                        where = "%s %s %s" % (solver, tag, _cfgstr(cfg, maxiter))
                        if "raised" in r:
                            V("hpd|%s|raises-on-positive-definite|%s" % (solver, r["raised"].split(": ")[-1]), "%s raised %s" % (where, r["raised"]))
                            continue
                        x = r["x"]
                        if not np.all(np.isfinite(x)):
                            V("hpd|%s|non-finite-solution" % solver, where)
                            continue
                        rn = np.linalg.norm(A @ x - j)
                        E = S.energy(A, j, x)
                        r["rn"], r["E"], r["amb"], r["crit"], r["valid_success"] = rn, E, False, False, False
                        if r["success"] != (r["info"] == 0):
                            V("hpd|%s|success-flag-differs-from-info" % solver, "%s info=%d success=%s" % (where, r["info"], r["success"]))
                        if r["info"] < 0:
                            V("hpd|%s|negative-info-on-positive-definite" % solver, "%s info=%d" % (where, r["info"]))
                            continue
                        if maxiter == 0:
                            # no iteration allowed: the start must come back, and not as a success (the start is never a solution here)
                            r["amb"] = False
                            if r["nit"] != 0 or np.linalg.norm(x - x0) != 0:
                                V("hpd|%s|maxiter=0|iterates-anyway" % solver, "%s nit=%d info=%d |x-x0|=%.2e" % (where, r["nit"], r["info"], np.linalg.norm(x - x0)))
                            elif r["info"] == 0 and rn > sg:
                                V("hpd|%s|maxiter=0|reports-success-without-iterating" % solver, "%s info=0 with x = x0, |Ax-j|=%.2e" % (where, rn))
                            continue
                        if r["nit"] > ma:
                            V("hpd|%s|iterates-beyond-maxiter" % solver, "%s nit=%d > maxiter=%d" % (where, r["nit"], ma))
                        # criterion values at the returned point (true quantities)
                        dE = None
                        if cfg["absdelta"] is not None and r["nit"] >= 1:
                            xp = prev_iterate(r["nit"] - 1)
                            if xp is not None:
                                dE = S.energy(A, j, xp) - E
                        if kappa <= 10 + 1e-9:
                            r["amb"] = bool((resn is not None and abs(rn - resn) <= 1e-6 * resn + sg) or
                                            (dE is not None and abs(dE - cfg["absdelta"]) <= 1e-6 * cfg["absdelta"] + 2 * sE))
                        else:   # kappa = 1e3: late residuals of two floating-point realisations differ by O(1) factors
                            r["amb"] = bool((resn is not None and resn / 10 <= rn + sg and rn <= 10 * resn + sg) or
                                            (dE is not None and cfg["absdelta"] / 10 <= dE + 2 * sE and dE <= 10 * cfg["absdelta"] + 2 * sE))
                        crit_res = resn is not None and rn < resn + sg
                        crit_abs = dE is not None and dE < cfg["absdelta"] + 2 * sE
                        r["crit"] = bool(crit_res or crit_abs)
                        exact = rn <= sg
                        r["valid_success"] = bool(exact or (r["crit"] and r["nit"] >= mi))
                        if r["info"] == 0 and not (r["crit"] and r["nit"] >= mi):
                            r["amb"] = True     # stopped by the gamma == 0 test only: decided by the last bit of a rounding error
                        if r["info"] == 0 and not exact:
                            if r["nit"] < mi:
                                V("hpd|%s|success-before-miniter" % solver,
                                  "%s reports info=0 after %d iterations (miniter %d), |Ax-j|=%.2e" % (where, r["nit"], mi, rn))
                            elif not r["crit"]:
                                V("hpd|%s|success-without-criterion" % solver,
                                  "%s reports info=0 at nit=%d but |Ax-j|=%.3e (resnorm %s), last energy decrease %s (absdelta %s)"
                                  % (where, r["nit"], rn, resn, dE, cfg["absdelta"]))
                        if r["info"] == 0 and r["nit"] - 1 >= max(mi, 1) and kappa <= 10 + 1e-9:
                            # the rule is "stop at the first iteration >= miniter at which a criterion holds"
                            xp = prev_iterate(r["nit"] - 1)
                            xpp = prev_iterate(r["nit"] - 2)
                            if xp is not None and xpp is not None:
                                rnp = np.linalg.norm(A @ xp - j)
                                dEp = S.energy(A, j, xpp) - S.energy(A, j, xp)
                                if ((resn is not None and rnp < resn * (1 - 1e-6) - sg) or
                                        (cfg["absdelta"] is not None and dEp < cfg["absdelta"] * (1 - 1e-6) - 2 * sE)):
                                    V("hpd|%s|continues-after-criterion-met" % solver,
                                      "%s stops at nit=%d although at iteration %d >= miniter %d already |Ax-j|=%.3e (resnorm %s), "
                                      "energy decrease %.3e (absdelta %s)" % (where, r["nit"], r["nit"] - 1, mi, rnp, resn, dEp, cfg["absdelta"]))
                        if r["info"] > 0 and r["nit"] != ma:
                            V("hpd|%s|failure-before-maxiter" % solver, "%s info=%d nit=%d maxiter=%d" % (where, r["info"], r["nit"], ma))
                        # exact CG iterate
                        if r["nit"] < len(ref):
                            if abs(E - Eref[r["nit"]]) > KRYLOV_TOL * gap0 + sE:
                                V("hpd|%s|iterate-not-krylov-optimal" % solver,
                                  "%s: E(x)=%.15g after %d iterations, Krylov optimum %.15g (E0-E*=%.2e)" % (where, E, r["nit"], Eref[r["nit"]], gap0))
                    e, s = res["eager"], res["static"]
                    if "E" not in e or "E" not in s or maxiter == 0 or e["info"] < 0 or s["info"] < 0:
                        continue
                    if e["info"] == 0:
                        if maxiter is not None and e["nit"] == maxiter and maxiter > 0:
                            st["conv_exactly_at_maxiter"] += 1
                        elif e["nit"] >= 1:
                            st["conv_by_criterion"] += 1
                    elif e["info"] > 0:
                        st["stopped_by_maxiter"] += 1
                    if e["amb"] or s["amb"]:
                        st["ambiguous"] += 1
                        continue
                    st["compared"] += 1
                    where = "%s %s" % (tag, _cfgstr(cfg, maxiter))
                    ce, cs = np.sign(e["info"]), np.sign(s["info"])
                    if e["nit"] != s["nit"]:
                        st["nit_differs"] += 1          # a counter, not part of the result (DESIGN 7.3)
                    if ce != cs:
                        who = "static" if cs != 0 else "eager"
                        other = e if who == "static" else s
                        if e["nit"] == s["nit"] == ma and other["info"] == 0 and other["valid_success"]:
                            V("hpd|disagree|verdict|converged-exactly-at-maxiter|%s-reports-failure" % who,
                              "%s: both stop at nit=%d=maxiter with |Ax-j|=%.2e, criterion met; eager info=%d, static info=%d"
                              % (where, e["nit"], e["rn"], e["info"], s["info"]))
                        else:
                            V("hpd|disagree|verdict", "%s: eager info=%d nit=%d, static info=%d nit=%d" % (where, e["info"], e["nit"], s["info"], s["nit"]))
                    d = np.linalg.norm(e["x"] - s["x"])
                    if kappa <= 10 + 1e-9:
                        if d > 1e-10 * max(1., np.linalg.norm(e["x"])):
                            V("hpd|disagree|solution", "%s: |x_eager - x_static| = %.3e (nit %d / %d, info %d / %d)"
                              % (where, d, e["nit"], s["nit"], e["info"], s["info"]))
                    elif abs(e["E"] - s["E"]) > KRYLOV_TOL * gap0 + sE:
                        # ill-conditioned alphabet members: two floating-point realisations of the same iterate differ by
                        # as much as the iterate's own error, so they are compared in the energy (A-norm of the error)
                        V("hpd|disagree|solution", "%s: E(x_eager) - E(x_static) = %.3e, |dx| = %.3e (nit %d / %d, info %d / %d)"
                          % (where, e["E"] - s["E"], d, e["nit"], s["nit"], e["info"], s["info"]))
    event = {"none": st["conv_by_criterion"], "at": st["conv_exactly_at_maxiter"], "before": st["stopped_by_maxiter"]}[c["maxmode"]]
    if found:
        keys = sorted(found)
        return bad("%s%s" % (found[keys[0]], "" if len(keys) == 1 else "  [+%d other kinds, see detail]" % (len(keys) - 1)),
                   finding_key=" + ".join(keys), detail=found, stats=st)
    return ok(nontrivial=event > 0 and st["compared"] > 0, outcome="hpd:max=%s:%s" % (c["maxmode"], "event" if event else "no-event"),
              stats=st, detail=dict(st))


# ------------------------------------------------------------------ part nonpd
def run_nonpd(c):
    import jax.numpy as jnp
    from vf.ref import c14_sys as S
    from vf.ref import c15_ref as R
    n, cplx, seed, layout, solver, rz = c["n"], c["cplx"], c["seed"], c["layout"], c["solver"], c["raise_nonposdef"]
    _quiet()
    wrap, flat = _layout(layout, n)
    found = {}
    st = dict(runs=0, negcurv_first_direction=0, negcurv_later=0, zero_curvature=0, curvature_never_met=0, raised=0)
    x0tag = "x0=given" if c["x0"] else "x0=None"

    def V(key, what):
        found.setdefault(key, what)

    for name in R.NONPD:
        for mixed in (False, True):
            A, lam, U = R.nonpd_system(name, n, cplx, mixed, seed)
            Aj = jnp.asarray(A)

            def mat(v, Aj=Aj):
                return wrap(Aj @ flat(v))
            for rhs in ("eneg", "mix_first", "mix_late", "epos", "gen"):
                if name == "singular" and (mixed or c["x0"] or rhs not in ("eneg", "epos")):
                    continue   # exact zero curvature only (round-off-level curvature has no defined sign)
                j = R.nonpd_rhs(rhs, n, cplx, lam, U, seed)
                if j is None:
                    continue
                x0 = 0.7 * S.vector("gen", n, cplx, U, seed, tag=2) if c["x0"] else np.zeros_like(j)
                ibad, curv, conv = R.textbook_cg_first_bad_curvature(A, j, x0)
                sg, sE, _ = R.slacks(A, lam, j, x0)
                for cfgname, cfg in (("default", dict()), ("tight", dict(resnorm=RESNORM, miniter=0))):
                    st["runs"] += 1
                    if ibad is None:
                        st["curvature_never_met"] += 1
                        continue
                    where = "%s %s%s,%s,rhs=%s,%s,%s: non-positive curvature (%.3g) at iteration %d" % (
                        solver, name, "(mixed)" if mixed else "(diagonal)", "complex" if cplx else "real", rhs, x0tag, cfgname, curv, ibad)
                    jv, x0v = wrap(j), wrap(x0)
                    if solver == "eager":
                        r = _eager(mat, flat, jv, x0v if c["x0"] else None, cfg, None, raise_=rz)
                    else:
                        fn = _static_fn(n, layout, cplx, False, "resnorm" in cfg, "miniter" not in cfg, True, c["x0"], rz)
                        r = _static(fn, Aj, jv, x0v, cfg, None)
                    zero = curv > -1e-12
                    first = ibad == 1
                    st["zero_curvature" if zero else "negcurv_first_direction" if first else "negcurv_later"] += 1
                    kind = "zero-curvature" if zero else "negcurv-first-direction" if first else "negcurv-later"
                    if rz:
                        if "raised" in r:
                            st["raised"] += 1
                            continue
                        if r["info"] == 0 or r["success"]:
                            V("nonpd|%s|raise=True|%s|failure-not-reported" % (solver, kind), "%s -> info=%d success=%s" % (where, r["info"], r["success"]))
                        continue
                    if "raised" in r:
                        V("nonpd|%s|raise=False|%s|raises" % (solver, kind), "%s raised %s" % (where, r["raised"]))
                        continue
                    x = r["x"]
                    if not np.all(np.isfinite(x)):
                        V("nonpd|%s|raise=False|%s|non-finite" % (solver, kind), where)
                        continue
                    E0, E = S.energy(A, j, x0), S.energy(A, j, x)
                    up = E > E0 + sE
                    if first and not zero:
                        # one root cause (the fallback step), one key; the manifestations go into the text
                        g0 = A @ x0 - j
                        step = x - x0
                        wrong = []
                        if up:
                            wrong.append("E(x)=%.6g > E(x0)=%.6g" % (E, E0))
                        if np.linalg.norm(step) <= 1e-14 * (1 + np.linalg.norm(x0)):
                            wrong.append("no step taken (x = x0)")
                        else:
                            t = -np.vdot(g0, step) / np.vdot(g0, g0).real
                            if not (abs(t.imag) <= 1e-9 * abs(t) and t.real > 0 and
                                    np.linalg.norm(step + t.real * g0) <= 1e-8 * np.linalg.norm(step)):
                                wrong.append("x - x0 = %s is not a positive multiple of -gradient = %s"
                                             % (np.round(step, 6).tolist(), np.round(-g0, 6).tolist()))
                        if wrong:
                            V("nonpd|%s|raise=False|%s|%s|not-a-steepest-descent-step" % (solver, kind, x0tag),
                              "%s -> x=%s, info=%d: %s" % (where, np.round(x, 6).tolist(), r["info"], "; ".join(wrong)))
                    elif up:
                        V("nonpd|%s|raise=False|%s|%s|energy-above-start" % (solver, kind, x0tag),
                          "%s -> x=%s with E=%.6g > E(x0)=%.6g (info=%d)" % (where, np.round(x, 6).tolist(), E, E0, r["info"]))
    if found:
        keys = sorted(found)
        return bad("%s%s" % (found[keys[0]], "" if len(keys) == 1 else "  [+%d other kinds, see detail]" % (len(keys) - 1)),
                   finding_key=" + ".join(keys), detail=found, stats=st)
    met = st["negcurv_first_direction"] + st["negcurv_later"] + st["zero_curvature"]
    return ok(nontrivial=met > 0, outcome="nonpd:%s:raise=%s" % (solver, rz), stats=st, detail=dict(st))


# ------------------------------------------------------------------ part long
LONGCFG = {"default": dict(), "resnorm": dict(resnorm=RESNORM, miniter=0), "absdelta": dict(absdelta=1e-9)}


def run_long(c):
    import jax.numpy as jnp
    from nifty.re.conjugate_gradient import N_RESET
    from vf.ref import c14_sys as S
    from vf.ref import c15_ref as R
    n, cplx, seed, layout = c["n"], c["cplx"], c["seed"], c["layout"]
    _quiet()
    wrap, flat = _layout(layout, n)
    cfg = dict(LONGCFG[c["cfg"]])
    fn = _static_fn(n, layout, cplx, "absdelta" in cfg, "resnorm" in cfg, "miniter" not in cfg, True, c["x0"], True)
    found = {}
    st = dict(runs=0, one_reset=0, two_resets=0, no_reset=0, compared=0)

    def V(key, what):
        found.setdefault(key, what)

    U = S.mixing(n, cplx, seed)
    for spec in R.LONG_SPECTRA[n]:
        lam = R.long_spectrum(spec, n)
        A = S.hpd(lam, U)
        Aj = jnp.asarray(A)

        def mat(v, Aj=Aj):
            return wrap(Aj @ flat(v))
        for rhs in ("ones", "gen"):
            j = S.vector(rhs, n, cplx, U, seed, tag=1)
            x0 = 0.7 * S.vector("gen", n, cplx, U, seed, tag=2) if c["x0"] else np.zeros_like(j)
            jv, x0v = wrap(j), wrap(x0)
            x0e = x0v if c["x0"] else None
            sg, sE, _ = R.slacks(A, lam, j, x0)
            resn = R.effective_resnorm(dict(cfg, tol=1e-5, atol=0.), j)
            tag = "n=%d,%s,%s,rhs=%s,%s" % (n, spec, "complex" if cplx else "real", rhs, _cfgstr(cfg, None))
            st["runs"] += 1
            res = {}
            for solver in ("eager", "static"):
                r = _eager(mat, flat, jv, x0e, cfg, None) if solver == "eager" else _static(fn, Aj, jv, x0v, cfg, None)
                res[solver] = r
                where = "%s %s" % (solver, tag)
                if "raised" in r:
                    V("long|%s|raises-on-positive-definite|%s" % (solver, r["raised"].split(": ")[-1]), "%s raised %s" % (where, r["raised"]))
                    continue
                x = r["x"]
                if not np.all(np.isfinite(x)):
                    V("long|%s|non-finite-solution" % solver, where)
                    continue
                r["rn"], r["E"] = np.linalg.norm(A @ x - j), S.energy(A, j, x)
                if r["success"] != (r["info"] == 0):
                    V("long|%s|success-flag-differs-from-info" % solver, "%s info=%d success=%s" % (where, r["info"], r["success"]))
                if r["info"] != 0:
                    V("long|%s|no-convergence-on-positive-definite" % solver, "%s info=%d nit=%d |Ax-j|=%.2e" % (where, r["info"], r["nit"], r["rn"]))
                    continue
                # the requested criterion on true quantities (the previous iterate comes from a re-run stopped one step earlier)
                ok_res = resn is not None and r["rn"] < resn + sg
                ok_abs = False
                if "absdelta" in cfg and r["nit"] >= 1:
                    pcfg = dict(resnorm=0., miniter=r["nit"])    # cannot converge: returns the iterate nit-1 of the same solver
                    if solver == "eager":
                        p = _eager(mat, flat, jv, x0e, pcfg, r["nit"] - 1)
                    else:
                        p = _static(_static_fn(n, layout, cplx, False, True, False, False, c["x0"], True), Aj, jv, x0v, pcfg, r["nit"] - 1)
                    if "raised" in p or p["nit"] != r["nit"] - 1:
                        V("long|%s|trajectory-not-reproducible" % solver, "%s: re-run to iteration %d gives %s" % (where, r["nit"] - 1, str(p)[:120]))
                    else:
                        dE = S.energy(A, j, p["x"]) - r["E"]
                        ok_abs = dE < cfg["absdelta"] * (1 + 1e-3) + 2 * sE
                        r["dE"] = dE
                if not (ok_res or ok_abs or r["rn"] <= sg):
                    V("long|%s|success-without-criterion" % solver,
                      "%s reports info=0 at nit=%d but |Ax-j|=%.3e (resnorm %s), last energy decrease %s (absdelta %s)"
                      % (where, r["nit"], r["rn"], resn, r.get("dE"), cfg.get("absdelta")))
            e, s_ = res["eager"], res["static"]
            if "E" not in e or "E" not in s_ or e["info"] != 0 or s_["info"] != 0:
                continue
            k = min(e["nit"], s_["nit"]) // N_RESET
            st["no_reset" if k == 0 else "one_reset" if k == 1 else "two_resets"] += 1
            st["compared"] += 1
            if resn is not None:
                # both residuals are below resn, hence both points within resn/lambda_min of the solution
                d = np.linalg.norm(e["x"] - s_["x"])
                if d > 2 * (resn + sg) / lam.min():
                    V("long|disagree|solution", "%s: |x_eager - x_static| = %.3e > 2 resnorm / lambda_min = %.3e (nit %d / %d)"
                      % (tag, d, 2 * resn / lam.min(), e["nit"], s_["nit"]))
            elif abs(e["E"] - s_["E"]) > 1e3 * cfg["absdelta"]:
                V("long|disagree|solution", "%s: E(x_eager) - E(x_static) = %.3e (nit %d / %d)" % (tag, e["E"] - s_["E"], e["nit"], s_["nit"]))
    if found:
        keys = sorted(found)
        return bad("%s%s" % (found[keys[0]], "" if len(keys) == 1 else "  [+%d other kinds, see detail]" % (len(keys) - 1)),
                   finding_key=" + ".join(keys), detail=found, stats=st)
    return ok(nontrivial=st["one_reset"] + st["two_resets"] > 0, outcome="long:%s:resets=%s" % (
        c["cfg"], "2" if st["two_resets"] else "1" if st["one_reset"] else "0"), stats=st, detail=dict(st))


def run(case):
    return {"hpd": run_hpd, "nonpd": run_nonpd, "long": run_long}[case["part"]](case)
