"""C19 The sampled KL energy is the sample average of the Hamiltonian.

Mode P.  For every model of a small catalogue (field / 2-key / 3-key multi-domains, linear, exp and amplitude-coupled
Gaussian likelihoods), EVERY split of the keys into constants and point estimates, mirrored / unmirrored samples and
1..2 sample seeds, the library's sampled KL is built from samples drawn through the scripted RNG seam (one fixed generic
tape: the residuals are deterministic and non-degenerate) and compared with the explicit average of the independent
closed-form Hamiltonian (vf/ref/c18_models.Ref) over `mean + r_i`:

  classic  SampledKLEnergy(...): .position lives on the non-constant keys V; .value = <H>, .gradient = <grad H>_V,
           .metric applied to EVERY unit vector of V = <M>_VV (exact matrix); .at(new) keeps the residuals and the constant
           keys and satisfies the same three identities at the new point; two steps of NewtonCG and of VL_BFGS leave the
           constant keys bit-identical, keep the residuals and return an energy that again satisfies the identities.
  JAX      OptimizeVI.kl_value_and_grad / kl_metric (eager, jit, vmap / smap) at the expansion point and at a moved point
           (residuals kept), Samples.at (both call forms), kl_minimize(constants=...) observed through the documented
           `minimize` hook (the reduced objective's value / gradient / Hessian-product on every unit vector of V) and with
           the real newton_cg for two steps (constants bit-identical, residuals kept by Samples.at).
"""
import os
import time

import numpy as np

from vf.core import ok, bad, skip
from vf.ref import c18_models as M

ID = "C19"
LEVEL = "exploration"
JAX = True
RULE = ("case = (model spec with all numbers written out, flavour, every (constants, point_estimates) split of the keys "
        "[constants: all subsets, point estimates: all proper subsets], mirror, n_samples in {0,1,2}, jit / map variant); "
        "per case value and gradient are compared at 2 (classic: 4) expansion points and the metric is applied to EVERY "
        "unit vector of the non-constant keys (exact averaged metric matrix). non-trivial = at least one residual is "
        "non-zero and at least one key is variable (value, gradient and metric all compared with the reference average)")
ASSUMPTIONS = [
    "residuals come from the library's own samplers driven by one fixed generic scripted tape (their law is C18's subject)",
    "numeric values are alphabet values (response singular values in [0.3,4], noise variances in [0.1,2], |pos|<=1); "
    "structure (splits, mirroring, sample count, API form) is exhaustive",
    "compared at 1e-10 * scale (no iterative solver takes part in value / gradient / metric application)",
    "the metric is the Fisher metric J^T N^-1 J + 1 of the Hamiltonian, not its Hessian",
]

TOL = 1e-10
EPS = np.finfo(np.float64).eps


# =====================================================================================
def _models(tier, seed):
    if tier == "quick":
        plan = [("F3", ("full",), [("exp",)], False),
                ("a2b1", ("wide",), [("lin", "exp")], False),
                ("a1b1c1", ("full",), [("lin", "exp", "lin")], False),
                ("a2b1", ("full",), [("lin", "exp")], True)]
    else:
        plan = [("F3", ("full", "rankdef", "wide"), [("lin",), ("exp",)], False),
                ("a2b1", ("full", "rankdef", "wide", "tall", "zerocol"), [("lin", "lin"), ("lin", "exp"), ("exp", "exp")], False),
                ("a1b1c1", ("full", "rankdef", "wide"), [("lin", "lin", "lin"), ("lin", "exp", "lin"), ("exp", "exp", "exp")], False),
                ("a2b1c1", ("full", "wide"), [("lin", "exp", "lin")], False),
                ("a2b1", ("full", "rankdef"), [("lin", "lin"), ("lin", "exp")], True)]
    out, var = [], 0
    for layout, rshapes, nls, amp in plan:
        for rs in rshapes:
            for nl in nls:
                var += 1
                out.append(M.make_spec(M.Fill(seed, var, salt=1900), layout, rs, nl, "diag", amp))
    return out


def cases(tier, seed):
    out = []
    for spec in _models(tier, seed):
        keys = M.all_keys(spec)
        field = spec["field"]
        pes = [[]] if field else M.subsets(keys, proper=True)
        consts = [[]] if field else M.subsets(keys)
        for pe in pes:
            for const in consts:
                for mirror in (True, False):
                    for ns in (1, 2):
                        out.append(dict(flavour="cl", model=spec, pe=pe, const=const, mirror=mirror, ns=ns))
                # JAX: always mirrored; n_samples 0 (MAP) and 2 only without point estimates
                for ns in ((0, 1, 2) if not pe else (1,)):
                    variants = [("eager", "vmap")]
                    if not pe and ns == 1:
                        variants += [("jit", "vmap"), ("eager", "smap")]
                    if tier != "quick" and not pe and ns == 2:
                        variants += [("jit", "smap")]
                    for jit, kmap in variants:
                        out.append(dict(flavour="re", model=spec, pe=pe, const=const, ns=ns, jit=jit, map=kmap))

    def cost(c):
        r = M.Ref(c["model"])
        return (0 if c["flavour"] == "cl" else 1, len(r.keys), r.n, len(c["const"]), len(c["pe"]), c["ns"],
                c.get("jit", ""), c.get("map", ""), c["model"]["name"])
    out.sort(key=cost)
    return out


def _where(e):
    import traceback
    loc = "?"
    for fs in traceback.extract_tb(e.__traceback__):
        if os.sep + "nifty" + os.sep in fs.filename:
            loc = "%s:%s" % (os.path.basename(fs.filename), fs.name)
    return loc


def _mclass(spec):
    return ("linear" if M.is_linear(spec) else "nonlinear") + ("|field" if spec["field"] else "|%dkeys" % len(M.all_keys(spec)))


def _split_label(pe, const, keys):
    c = "const=none" if not const else ("const=all" if len(const) == len(keys) else "const=some")
    inv = "|invariant" if set(pe) & set(const) else ""
    return c + ("|pe" if pe else "") + inv


def run(case):
    t0 = time.process_time()
    out = _run_cl(case) if case["flavour"] == "cl" else _run_re(case)
    st = out.get("stats")
    if not isinstance(st, dict):
        st = out["stats"] = {}
    st["cpu_s"] = round(time.process_time() - t0, 4)
    return out


def _avg(ref, xs, V):
    val = float(np.mean([ref.ham(x) for x in xs]))
    g = np.mean([ref.grad(x) for x in xs], axis=0)[V]
    Mm = np.mean([ref.metric(x) for x in xs], axis=0)[np.ix_(V, V)]
    return val, g, Mm


def _scale(*a):
    return max([1.] + [float(np.abs(x).max(initial=0.)) for x in a])


# =====================================================================================
#                                   classic
# =====================================================================================
def _run_cl(case):
    import nifty.cl as ift
    from vf import rngseam, dense
    M.quiet_cl()
    spec = case["model"]
    b = M.build_cl(spec)
    ref = b["ref"]
    p = ref.p
    keys = ref.keys
    pe, const = list(case["pe"]), list(case["const"])
    mirror, ns = bool(case["mirror"]), int(case["ns"])
    V = ref.not_idx(const)
    C = np.setdiff1d(np.arange(ref.n), V)
    vkeys = [k for k in keys if k not in const]
    lab = _split_label(pe, const, keys)
    det = dict(model=spec["name"], pe=pe, const=const, mirror=mirror, ns=ns)
    ic = ift.GradientNormController(tol_abs_gradnorm=1e-13, iteration_limit=300)
    H = ift.StandardHamiltonian(b["lh"], ic, prior_sampling_dtype=np.float64)
    kw = dict(mirror_samples=mirror)
    if not spec["field"]:
        kw.update(constants=const, point_estimates=pe)
    try:
        tape = rngseam.Tape(M.generic_tape(400))
        with rngseam.scripted_cl(tape):
            e = ift.SampledKLEnergy(b["pos"], H, ns, None, **kw)
    except Exception as ex:   # noqa
        return bad("SampledKLEnergy(constants=%s, point_estimates=%s) raised %r in %s" % (const, pe, ex, _where(ex)),
                   finding_key="cl|construct|raises|%s|%s@%s" % (lab, type(ex).__name__, _where(ex)), detail=det)

    def samples_of(en):
        return [M.cl_flat(s, keys) for s in en.samples.iterator()]

    pending = {}

    def check(en, xs, where):
        """value / gradient / metric of `en` against the reference average over xs (a pure value offset by the prior energy
        of the constant keys is remembered and reported after all other checks of the case have passed)"""
        val, g, Mm = _avg(ref, xs, V)
        if isinstance(en.position.domain, ift.MultiDomain):
            if list(en.position.domain.keys()) != vkeys:
                return bad("%s: KL position lives on keys %s, expected the non-constant keys %s" % (
                    where, list(en.position.domain.keys()), vkeys), finding_key="cl|position-keys|" + lab, detail=det)
        got_v = float(en.value)
        dv = got_v - val
        if not abs(dv) <= TOL * _scale(val):
            # is it exactly the prior energy of the constant keys that went missing?
            I = ref.idx(set(pe) & set(const))      # keys in both lists are inserted first ("invariants")
            cand = [float(np.mean([0.5 * float(x[K] @ x[K]) for x in xs])) for K in (C, I) if K.size]
            if any(abs(dv + miss) <= TOL * _scale(val) for miss in cand):
                pending.setdefault("offset", bad("%s: KL value = <H> - <prior energy of the constant keys %s> (off by %.6g): the prior term of constant "
                           "keys is dropped from the value (gradient and metric are unaffected)" % (where, const, dv),
                           finding_key="cl|value|offset=-prior-energy-of-constant-keys", detail=dict(det, where=where, diff=dv)))
            else:
                return bad("%s: KL value %.12g differs from the average Hamiltonian %.12g" % (where, got_v, val),
                           finding_key="cl|value-mismatch|" + lab, detail=dict(det, where=where))
        gg = M.cl_flat(en.gradient, keys)
        if gg.shape != g.shape or not np.abs(gg - g).max(initial=0.) <= TOL * _scale(g):
            return bad("%s: KL gradient differs from the average gradient on the non-constant keys by %.3g" % (
                where, np.abs(gg - g).max(initial=0.) if gg.shape == g.shape else np.inf),
                finding_key="cl|gradient-mismatch|" + lab, detail=dict(det, where=where))
        if len(V):
            R = dense.rmatrix(en.metric, complex_in=False)
            Rm, Ri = R[:len(V)], R[len(V):]
            if not (np.abs(Rm - Mm).max() <= TOL * _scale(Mm) and np.abs(Ri).max(initial=0.) == 0.):
                return bad("%s: KL metric differs from the average Fisher metric on the non-constant keys by %.3g" % (
                    where, np.abs(Rm - Mm).max()), finding_key="cl|metric-mismatch|" + lab, detail=dict(det, where=where))
        return None

    xs = samples_of(e)
    nsmp = ns * (2 if mirror else 1)
    if len(xs) != nsmp or any(x.size != ref.n for x in xs):
        return bad("sample list has %d samples over %s entries" % (len(xs), [x.size for x in xs]),
                   finding_key="cl|sample-structure|" + lab, detail=det)
    res = np.array(xs) - p[None]
    if not np.array_equal(M.cl_flat(e.samples.mean, keys), p):
        return bad("mean of the KL's samples is not the expansion point", finding_key="cl|mean-not-position|" + lab, detail=det)
    if not np.array_equal(M.cl_flat(e.position, keys), p[V]):
        return bad("KL position is not the expansion point restricted to the non-constant keys",
                   finding_key="cl|position-value|" + lab, detail=det)
    out = check(e, xs, "at construction")
    if out is not None:
        return out
    # ---- at(): moving the expansion point keeps the residuals and the constants
    newv = p[V] + 0.3 * np.cos(1. + np.arange(len(V)))
    new_full = p.copy()
    new_full[V] = newv
    moved = None
    if len(V):
        try:
            e2 = e.at(M.cl_unflat(e.position.domain, newv, keys))
        except Exception as ex:   # noqa
            return bad(".at(new position) raised %r in %s" % (ex, _where(ex)),
                       finding_key="cl|at|raises|%s|%s@%s" % (lab, type(ex).__name__, _where(ex)), detail=det)
        xs2 = samples_of(e2)
        res2 = np.array(xs2) - new_full[None]
        lim = 8 * EPS * _scale(res, p, new_full)
        if not np.array_equal(M.cl_flat(e2.samples.mean, keys), new_full):
            return bad(".at(new): mean of the samples is not the new point with the old constants",
                       finding_key="cl|at|constants-or-mean-changed|" + lab, detail=det)
        if np.abs(res2 - res).max() > lim:
            return bad(".at(new) changed the residuals by %.3g" % np.abs(res2 - res).max(),
                       finding_key="cl|at|residuals-changed|" + lab, detail=det)
        out = check(e2, xs2, "after .at(new)")
        if out is not None:
            return out
        # ---- two minimiser steps: constants untouched, residuals kept, identities hold at the result
        for name, mini in (("NewtonCG", ift.NewtonCG(ift.GradientNormController(iteration_limit=2))),
                           ("VL_BFGS", ift.VL_BFGS(ift.GradientNormController(iteration_limit=2)))):
            try:
                e3, _ = mini(e)
            except Exception as ex:   # noqa
                return bad("%s on the KL raised %r in %s" % (name, ex, _where(ex)),
                           finding_key="cl|minimise|raises|%s|%s|%s@%s" % (name, lab, type(ex).__name__, _where(ex)), detail=det)
            m3 = M.cl_flat(e3.samples.mean, keys)
            if not np.array_equal(m3[C], p[C]):
                return bad("%s changed constant keys %s" % (name, const), finding_key="cl|minimise|constants-changed|" + lab, detail=det)
            if not np.array_equal(M.cl_flat(e3.position, keys), m3[V]):
                return bad("%s: position of the result is not the mean of its samples" % name,
                           finding_key="cl|minimise|position-inconsistent|" + lab, detail=det)
            xs3 = samples_of(e3)
            if np.abs((np.array(xs3) - m3[None]) - res).max() > 8 * EPS * _scale(res, p, m3):
                return bad("%s changed the residuals" % name, finding_key="cl|minimise|residuals-changed|" + lab, detail=det)
            out = check(e3, xs3, "after two %s steps" % name)
            if out is not None:
                return out
            mv = float(np.abs(m3[V] - p[V]).max())
            moved = mv if moved is None else min(moved, mv)
    if pending:
        return pending["offset"]
    nontrivial = bool(len(V)) and float(np.abs(res).max()) > 1e-3 and (moved or 0.) > 1e-6
    return ok(nontrivial=nontrivial, outcome="cl|%s|%s|%s" % (_mclass(spec), lab, "mirror" if mirror else "nomirror"),
              stats=dict(metric_columns=len(V) * (4 if len(V) else 1), points=4 if len(V) else 1), detail=det)


# =====================================================================================
#                                   JAX
# =====================================================================================
CGK = dict(resnorm=1e-12, miniter=1, maxiter=200)


def _run_re(case):
    import jax
    import jax.numpy as jnp
    import nifty.re as jft
    from vf import rngseam
    M.quiet_re()
    spec = case["model"]
    b = M.build_re(spec)
    ref, lh, pos = b["ref"], b["lh"], b["pos"]
    p, n, keys = ref.p, ref.n, ref.keys
    pe, const = tuple(case["pe"]), tuple(case["const"])
    ns = int(case["ns"])
    V = ref.not_idx(const)
    C = np.setdiff1d(np.arange(n), V)
    lab = _split_label(pe, const, keys)
    vr = "%s|%s" % (case["jit"], case["map"])
    det = dict(model=spec["name"], pe=list(pe), const=list(const), ns=ns, variant=vr)
    kmap = jax.vmap if case["map"] == "vmap" else "smap"
    ovi = jft.OptimizeVI(lh, 1, jit=(case["jit"] == "jit"), kl_map=kmap, residual_map=M.pymap,
                         linear_minimizer_jit=False, nonlinear_minimizer_jit=False)

    def fail(what, e, sym):
        return bad("%s raised %r in %s" % (what, e, _where(e)),
                   finding_key="re|%s|raises|%s|%s@%s" % (sym, lab, type(e).__name__, _where(e)), detail=det)
    # ---- samples from the library's sampler on a fixed generic tape
    try:
        if ns == 0:
            smp = jft.Samples(pos=pos, samples=None, keys=None)
            R = np.zeros((0, n))
        else:
            with M.scripted_re_keyed(rngseam.Tape(M.generic_tape(400))):
                smp, _ = ovi.draw_linear_samples(pos, jax.random.split(jax.random.PRNGKey(19), ns), point_estimates=pe,
                                                 cg_kwargs=CGK)
            R = M.re_flat(smp._samples, ref, 1)
    except Exception as e:   # noqa
        return fail("draw_linear_samples", e, "sampling")
    if R.shape != (2 * ns, n):
        return bad("residual stack has shape %s" % (R.shape,), finding_key="re|sample-structure|" + lab, detail=det)

    def xs_at(P):
        return [P + r for r in R] if ns else [P]

    def kl_check(P, where):
        Pv = M.re_unflat(P, ref, pos)
        val, g, Mm = _avg(ref, xs_at(P), np.arange(n))
        try:
            v, gr = ovi.kl_value_and_grad(Pv, primals_samples=smp)
        except Exception as e:   # noqa
            return fail("kl_value_and_grad", e, "kl_value_and_grad")
        if not abs(float(v) - val) <= TOL * _scale(val):
            return bad("%s: KL value %.12g differs from the average Hamiltonian %.12g" % (where, float(v), val),
                       finding_key="re|value-mismatch|%s" % vr, detail=dict(det, where=where))
        gg = M.re_flat(gr, ref)
        if M.re_leaf_shapes(gr) != M.re_leaf_shapes(Pv) or not np.abs(gg - g).max() <= TOL * _scale(g):
            return bad("%s: KL gradient differs from the average gradient by %.3g" % (where, np.abs(gg - g).max()),
                       finding_key="re|gradient-mismatch|%s" % vr, detail=dict(det, where=where))
        cols = []
        try:
            for j in range(n):
                ej = np.zeros(n)
                ej[j] = 1.
                cols.append(M.re_flat(ovi.kl_metric(Pv, M.re_unflat(ej, ref, pos), primals_samples=smp), ref))
        except Exception as e:   # noqa
            return fail("kl_metric", e, "kl_metric")
        G = np.array(cols).T
        if not np.abs(G - Mm).max() <= TOL * _scale(Mm):
            return bad("%s: KL metric differs from the average Fisher metric by %.3g" % (where, np.abs(G - Mm).max()),
                       finding_key="re|metric-mismatch|%s" % vr, detail=dict(det, where=where))
        return None

    newp = p + 0.3 * np.cos(1. + np.arange(n))
    for P, where in ((p, "at the expansion point"), (newp, "at a moved point (residuals kept)")):
        out = kl_check(P, where)
        if out is not None:
            return out
    # ---- Samples.at
    if ns:
        newpos = M.re_unflat(newp, ref, pos)
        s2 = smp.at(newpos)
        if not (np.array_equal(M.re_flat(s2._samples, ref, 1), R) and np.array_equal(M.re_flat(s2.pos, ref), newp)
                and M.re_leaf_shapes(s2._samples) == M.re_leaf_shapes(smp._samples)):
            return bad("Samples.at(new) changed the residuals / did not move the position", finding_key="re|at|residuals-changed", detail=det)
        full2 = M.re_flat(s2.samples, ref, 1)
        lim = 8 * EPS * _scale(R, p, newp)
        if np.abs(full2 - (newp[None] + R)).max() > lim:
            return bad("Samples.at(new).samples is not new + residual", finding_key="re|at|samples-not-shifted", detail=det)
        s3 = smp.at(newpos, old_pos=pos)
        if np.abs(M.re_flat(s3.samples, ref, 1) - (newp[None] + R)).max() > lim or not np.array_equal(M.re_flat(s3.pos, ref), newp):
            return bad("Samples.at(new, old_pos=pos) does not keep the residuals", finding_key="re|at|old_pos-form", detail=det)
    # ---- kl_minimize with constants, observed through the `minimize` hook
    nV = len(V)
    delta = 0.2 * np.sin(2. + np.arange(nV))
    seen = {}

    def probe(fun, x0, *, fun_and_grad, hessp, **kwargs):
        x0f = np.concatenate([np.asarray(l).reshape(-1) for l in jax.tree_util.tree_leaves(x0)]) if nV else np.zeros(0)
        seen["x0"] = x0f

        def unfl(v):
            leaves, td = jax.tree_util.tree_flatten(x0)
            outl, off = [], 0
            for l in leaves:
                sz = int(np.prod(np.shape(l), dtype=int))
                outl.append(jnp.asarray(np.asarray(v[off:off + sz]).reshape(np.shape(l))))
                off += sz
            return jax.tree_util.tree_unflatten(td, outl)

        def fl(t):
            ls = jax.tree_util.tree_leaves(t)
            return np.concatenate([np.asarray(l).reshape(-1) for l in ls]) if ls else np.zeros(0)
        x1 = unfl(x0f + delta)
        v, g = fun_and_grad(x1)
        seen["v"], seen["g"] = float(v), fl(g)
        seen["g_struct"] = M.re_leaf_shapes(g) == M.re_leaf_shapes(x1)
        cols = []
        for j in range(nV):
            ej = np.zeros(nV)
            ej[j] = 1.
            cols.append(fl(hessp(x1, unfl(ej))))
        seen["H"] = np.array(cols).T if nV else np.zeros((0, 0))
        return jft.optimize.OptimizeResults(x=x1, success=True, status=0, fun=v, jac=g)
    try:
        st = ovi.kl_minimize(smp, minimize=probe, constants=const)
    except Exception as e:   # noqa
        if nV == 0:
            return skip("all keys constant: kl_minimize has nothing to optimise and raises %s" % type(e).__name__)
        return fail("kl_minimize(constants=%s)" % (const,), e, "kl_minimize")
    xfull = p.copy()
    xfull[V] = p[V] + delta
    if seen["x0"].shape != (nV,) or not np.array_equal(seen["x0"], p[V]):
        return bad("kl_minimize: the minimiser does not start from the non-constant part of the expansion point",
                   finding_key="re|kl_minimize|x0|" + lab, detail=det)
    val, g, Mm = _avg(ref, xs_at(xfull), V)
    if not abs(seen["v"] - val) <= TOL * _scale(val):
        return bad("kl_minimize(constants=%s): objective value %.12g differs from the average Hamiltonian %.12g" % (const, seen["v"], val),
                   finding_key="re|kl_minimize|value-mismatch|" + lab, detail=det)
    if seen["g"].shape != g.shape or not seen["g_struct"] or not np.abs(seen["g"] - g).max(initial=0.) <= TOL * _scale(g):
        return bad("kl_minimize(constants=%s): gradient of the reduced objective is not the average gradient on the non-constant keys" % (const,),
                   finding_key="re|kl_minimize|gradient-mismatch|" + lab, detail=det)
    if nV and not np.abs(seen["H"] - Mm).max() <= TOL * _scale(Mm):
        return bad("kl_minimize(constants=%s): hessp of the reduced objective is not the average metric on the non-constant keys (%.3g)"
                   % (const, np.abs(seen["H"] - Mm).max()), finding_key="re|kl_minimize|metric-mismatch|" + lab, detail=det)
    xr = M.re_flat(st.x, ref)
    if M.re_leaf_shapes(st.x) != M.re_leaf_shapes(pos) or not np.array_equal(xr, xfull):
        return bad("kl_minimize(constants=%s): returned position is not (minimiser result on V, untouched constants)" % (const,),
                   finding_key="re|kl_minimize|constants-changed|" + lab, detail=det)
    # ---- the real minimiser, two steps
    moved = 0.
    if nV:
        try:
            st2 = ovi.kl_minimize(smp, constants=const, minimize_kwargs=dict(maxiter=2, name=None, cg_kwargs=dict(name=None)))
        except Exception as e:   # noqa
            return fail("kl_minimize(newton_cg, constants=%s)" % (const,), e, "kl_minimize-newton")
        x2 = M.re_flat(st2.x, ref)
        if not np.array_equal(x2[C], p[C]) or M.re_leaf_shapes(st2.x) != M.re_leaf_shapes(pos):
            return bad("two newton_cg steps changed constant keys %s" % (const,), finding_key="re|kl_minimize|constants-changed|" + lab, detail=det)
        moved = float(np.abs(x2[V] - p[V]).max())
        v0 = float(np.mean([ref.ham(x) for x in xs_at(p)]))
        v2 = float(np.mean([ref.ham(x) for x in xs_at(x2)]))
        if not abs(float(st2.fun) - v2) <= TOL * _scale(v2):
            return bad("kl_minimize: reported KL value %.12g is not the average Hamiltonian %.12g at the returned position" % (float(st2.fun), v2),
                       finding_key="re|kl_minimize|reported-value|" + lab, detail=det)
        if v2 > v0 + TOL * _scale(v0):
            return bad("two newton_cg steps increased the sampled KL (%.6g -> %.6g)" % (v0, v2),
                       finding_key="re|kl_minimize|energy-increased|" + lab, detail=det)
        s4 = smp.at(st2.x)
        if ns and not np.array_equal(M.re_flat(s4._samples, ref, 1), R):
            return bad("samples.at(result) changed the residuals", finding_key="re|at|residuals-changed", detail=det)
    nontrivial = bool(nV) and (ns == 0 or float(np.abs(R).max()) > 1e-3) and moved > 1e-6
    return ok(nontrivial=nontrivial, outcome="re|%s|%s|%s%s" % (_mclass(spec), lab, vr, "|ns=0" if ns == 0 else ""),
              stats=dict(metric_columns=2 * n + nV, points=3), detail=det)


def finish(run):
    have = list(run.outcomes)
    need = ["cl|nonlinear|3keys|const=some|pe|invariant", "cl|nonlinear|3keys|const=some|pe", "cl|nonlinear|field",
            "re|nonlinear|3keys|const=some|pe", "re|nonlinear|3keys|const=none|eager|vmap|ns=0", "re|nonlinear|3keys|const=none|jit|vmap"]
    missing = [x for x in need if not any(h.startswith(x) for h in have)]
    if missing and not run.violations and not run.extra.get("filtered_by"):
        run.violations.append((dict(vacuity=missing), bad("no passing case of class %s" % missing, finding_key="harness|vacuous-class")))
    return dict(classic_cases=sum(v for o, v in run.outcomes.items() if o.startswith("cl|")),
                jax_cases=sum(v for o, v in run.outcomes.items() if o.startswith("re|")))
