"""C24 The JAX VI driver resumes after a crash with identical results.

Mode F.  One uninterrupted `jft.optimize_kl(..., odir=...)` run is recorded
(every open/write/close/mkdir under odir).  For EVERY crash state of that
write history (before each event, torn variants of each write, after the last
event) the directory is materialised and `optimize_kl(..., resume=True)` is
run on it with the same arguments in a fresh state; the final samples and
optimisation state must be bit-identical to the uninterrupted run.
"""
import os
import pickle
import shutil
import tempfile

from vf.core import ok, bad, skip

ID = "C24"
LEVEL = "fault_enumeration"
RULE = ("case = (scenario, crash point k of the recorded write history, before/torn/end); every crash "
        "state of every scenario is materialised and resumed; non-trivial = the crash directory differs "
        "from every committed (iteration-boundary) directory state; distinct = distinct directory digests")
ASSUMPTIONS = [
    "process-kill model: completed operations persist, later ones are lost, a write may be torn, unflushed bytes of an open handle may be lost; power-loss "
    "reordering of unsynced data is not modelled",
    "every write of the driver goes through Python's open() (asserted: model FS == real directory after the reference run)",
    "resume runs in a fresh optimize_kl call of the same interpreter family (JAX caches are result-neutral)",
]

SCENARIOS = {
    # name: (n_total_iterations, n_samples, sample_mode spec)
    "mgvi3": dict(n_it=3, n_samples=2, modes=["linear_resample", "linear_resample", "linear_resample"]),
    "switch3": dict(n_it=3, n_samples=2, modes=["linear_resample", "nonlinear_update", "nonlinear_update"]),
    "map_then_vi": dict(n_it=3, n_samples=[0, 2, 2], modes=["linear_resample"] * 3),
    "geovi4": dict(n_it=4, n_samples=[1, 2, 2, 2], modes=["nonlinear_resample", "nonlinear_sample",
                                                           "nonlinear_update", "linear_sample"]),
}


def _scenario_run(name, odir, resume):
    import logging
    logging.getLogger("NIFTy").setLevel(logging.ERROR)
    logging.getLogger("nifty").setLevel(logging.ERROR)
    logging.getLogger("nifty.re.logger").setLevel(logging.ERROR)
    import jax
    import jax.numpy as jnp
    import nifty.re as jft
    sc = SCENARIOS[name]
    data = jnp.array([0.3, -1.2, 2.0])
    R = jnp.array([[1.0, 0.5], [0.2, -1.0], [0.7, 0.3]])

    def fwd(x):
        return R @ (jnp.exp(0.3 * x["a"]) * x["b"])

    lh = jft.Gaussian(data, noise_std_inv=lambda t: 2.0 * t).amend(fwd)
    pos = {"a": jnp.array([0.1, -0.2]), "b": jnp.array([0.5, 1.5])}
    if not isinstance(pos, jft.Vector):
        pos = jft.Vector(pos)
    modes = sc["modes"]
    ns = sc["n_samples"]
    delta = 1e-6
    samples, state = jft.optimize_kl(
        lh, pos, key=jax.random.PRNGKey(42),
        n_total_iterations=sc["n_it"],
        n_samples=(lambda i: ns[i]) if isinstance(ns, list) else ns,
        sample_mode=lambda i: modes[i],
        draw_linear_kwargs=dict(cg_name=None, cg_kwargs=dict(absdelta=delta / 10., maxiter=20)),
        nonlinearly_update_kwargs=dict(minimize_kwargs=dict(name=None, xtol=delta, cg_kwargs=dict(name=None),
                                                            maxiter=5)),
        kl_kwargs=dict(minimize_kwargs=dict(name=None, xtol=delta, cg_kwargs=dict(name=None), maxiter=5)),
        odir=odir, resume=resume,
    )
    return _digest(samples, state)


def _digest(samples, state):
    import jax
    import numpy as np

    def enc(x):
        leaves, td = jax.tree_util.tree_flatten(x)
        return [(str(np.asarray(l).dtype), np.asarray(l).shape, np.asarray(l).tobytes().hex()) for l in leaves], str(td)
    ms = state.minimization_state
    d = dict(pos=enc(samples.pos), samples=enc(samples._samples), keys=enc(samples.keys),
             nit=int(state.nit), key=enc(state.key), sample_state=enc(state.sample_state),
             min_state=enc(ms))
    return d


def _record(name):
    """Reference run with the recorder; returns (events, reference digest)."""
    from vf import fsfault
    import sys
    import nifty.re  # noqa
    okl = sys.modules["nifty.re.optimize_kl"]
    tmp = tempfile.mkdtemp(prefix="c24_ref_")
    odir = os.path.join(tmp, "out")
    try:
        rec = fsfault.Recorder(odir, module_patches=[(okl, "makedirs", "makedirs")])
        with rec:
            ref = _scenario_run(name, odir, resume=False)
        real = fsfault.snapshot(odir)
        model = fsfault.state_at(rec.events, len(rec.events))
        model.pop(".", None)
        if {k: v for k, v in model.items()} != real:
            raise RuntimeError("fsfault model FS differs from the real directory after the reference run: "
                               "model=%s real=%s" % (sorted(model), sorted(real)))
        return rec.events, ref, rec.overlap
    finally:
        shutil.rmtree(tmp, ignore_errors=True)


_WORK = {}


def _workdir():
    import multiprocessing
    main = multiprocessing.current_process().name == "MainProcess"
    return os.path.join(tempfile.gettempdir(), "c24_work_%d" % (os.getpid() if main else os.getppid()))


def _logpath(name):
    return os.path.join(_workdir(), name + ".pkl")

_RELOG = {}


def cases(tier, seed):
    from vf import fsfault
    names = ["mgvi3", "switch3"] if tier == "quick" else list(SCENARIOS)
    work = _workdir()
    os.makedirs(work, exist_ok=True)
    _WORK["dir"] = work
    out = []
    for name in names:
        events, ref, overlap = _record(name)
        ref2 = _record(name)[1]
        if ref != ref2:
            raise RuntimeError("reference run is not deterministic; cannot decide C24")
        logf = _logpath(name)
        with open(logf, "wb") as f:
            pickle.dump(dict(events=events, ref=ref, overlap=overlap), f)
        # committed directory states = state after each close of last.pkl
        committed = set()
        for k, ev in enumerate(events):
            if ev["op"] == "close" and ev["path"] == "last.pkl":
                committed.add(fsfault.fs_digest(fsfault.state_at(events, k + 1)))
        committed.add(fsfault.fs_digest({}))
        seen = set()
        for lab, fs in fsfault.crash_states(events):
            dig = fsfault.fs_digest(fs)
            if dig in seen and lab["point"] != "end":
                continue    # identical directory content: same resume behaviour
            seen.add(dig)
            out.append(dict(scenario=name, k=lab["k"], point=lab["point"], op=lab["op"],
                            path=lab["path"], torn=lab.get("bytes"), lost=bool(lab.get("lost")), fsdigest=dig,
                            committed=dig in committed, n_events=len(events),
                            double=(tier == "thorough" and name in ("mgvi3", "switch3"))))
    return out


def _window(case, events):
    """Semantic description of where the crash falls (used as finding key)."""
    k = case["k"]
    if case["point"] == "end":
        return "end"
    # inside an open..close window of a file?
    openfile = None
    for ev in events[:k]:
        if ev["op"] == "open":
            openfile = (ev["path"], ev["mode"])
        elif ev["op"] == "close":
            openfile = None
    ev = events[k]
    if case["point"] == "torn":
        return "torn-write:%s" % ev["path"]
    if case["point"] == "unflushed":
        return "unflushed-buffer-lost:before-%s(%s)" % (ev["op"], ev["path"])
    if openfile is not None:
        return "inside-open(%s,%s)" % openfile
    return "between-ops:before-%s(%s)" % (ev["op"], ev["path"])


def run(case):
    from vf import fsfault
    if os.path.exists(_logpath(case["scenario"])):
        log = pickle.load(open(_logpath(case["scenario"]), "rb"))
        events, ref = log["events"], log["ref"]
    else:   # replay of a stored case: re-record (deterministic)
        if case["scenario"] not in _RELOG:
            _RELOG[case["scenario"]] = _record(case["scenario"])
        events, ref, _ = _RELOG[case["scenario"]]
    fs = fsfault.state_at(events, case["k"], torn_bytes=case["torn"], lost=bool(case.get("lost")))
    if fsfault.fs_digest(fs) != case["fsdigest"]:
        raise RuntimeError("crash state not reproducible")
    window = _window(case, events)
    tmp = tempfile.mkdtemp(prefix="c24_crash_")
    odir = os.path.join(tmp, "out")
    try:
        if fs:
            fsfault.materialise(fs, odir)
        try:
            got = _scenario_run(case["scenario"], odir, resume=True)
        except Exception as e:
            return bad("resume impossible after crash (%s, k=%d/%d, %s): %s: %s" % (
                window, case["k"], case["n_events"], case["scenario"], type(e).__name__, str(e)[:200]),
                finding_key="resume-raises|%s|%s" % (window, type(e).__name__))
        if got != ref:
            diff = [k for k in ref if got.get(k) != ref[k]]
            return bad("resumed run differs from the uninterrupted run in %s (%s, k=%d, %s)" % (
                diff, window, case["k"], case["scenario"]),
                finding_key="resume-differs|%s|%s" % (window, ",".join(diff)))
        # the resumed run must also leave a complete output directory
        final = fsfault.snapshot(odir)
        if "last.pkl" not in final:
            return bad("no last.pkl after the resumed run (%s)" % window, finding_key="final-state-missing|%s" % window)
        try:
            smp, st = pickle.loads(final["last.pkl"])
        except Exception as e:
            return bad("last.pkl left by the resumed run cannot be loaded (%s): %r" % (window, e),
                       finding_key="final-state-unloadable|%s" % window)
        # semantic comparison (pickle bytes legitimately differ through object sharing/memoisation)
        if _digest(smp, st) != ref:
            return bad("state persisted by the resumed run differs from the uninterrupted run's result (%s)" % window,
                       finding_key="final-state-differs|%s" % window)
        stray = sorted(p for p in final if p not in ("last.pkl", "minisanity.txt"))
        if stray:
            return bad("stray files left after a completed resumed run: %s (%s)" % (stray, window),
                       finding_key="stray-files|%s" % window)
        second = 0
        if case.get("double"):
            # ---- second crash: record the resumed run started from this crash state, crash it at every point
            import sys
            okl = sys.modules["nifty.re.optimize_kl"]
            shutil.rmtree(odir, ignore_errors=True)
            if fs:
                fsfault.materialise(fs, odir)
            rec = fsfault.Recorder(odir, module_patches=[(okl, "makedirs", "makedirs")])
            with rec:
                _scenario_run(case["scenario"], odir, resume=True)
            seen2 = set()
            for lab2, fs2 in fsfault.crash_states(rec.events, initial=fs):
                dig2 = fsfault.fs_digest(fs2)
                if dig2 in seen2:
                    continue
                seen2.add(dig2)
                shutil.rmtree(odir, ignore_errors=True)
                if fs2:
                    fsfault.materialise(fs2, odir)
                w2 = "%s(%s)" % (lab2["point"], lab2["path"])
                try:
                    got2 = _scenario_run(case["scenario"], odir, resume=True)
                except Exception as e:
                    return bad("resume impossible after a second crash during the resumed run (first: %s, second: %s): %s: %s"
                               % (window, w2, type(e).__name__, str(e)[:150]),
                               finding_key="double|resume-raises|%s|%s" % (w2, type(e).__name__))
                if got2 != ref:
                    return bad("result differs after a second crash during the resumed run (first: %s, second: %s)" % (window, w2),
                               finding_key="double|resume-differs|%s" % w2)
                second += 1
    finally:
        shutil.rmtree(tmp, ignore_errors=True)
    return ok(nontrivial=not case["committed"], outcome="resumed-ok|" + window.split(":")[0].split("(")[0],
              stats=dict(states=1 + second, second_level_states=second))


def finish(run):
    d = _WORK.get("dir")
    if d:
        shutil.rmtree(d, ignore_errors=True)
    return dict(crash_states=run.evaluations, states=int(run.extra.get("states", 0)),
                second_level_crash_states=int(run.extra.get("second_level_states", 0)))
