"""C04 Fixing part of the input preserves value, Jacobian and metric.

Mode P: every well-typed multi-domain expression tree (generator of C03 plus library operators living
directly on several keys, vf/ref/c04_expr.py) with >= 2 input keys  x  EVERY non-empty proper subset of its
keys as constants  x  input dtype  x  grid point.  Input dtypes: all keys real | all keys complex | (for trees
containing a VariableCovarianceGaussianEnergy) "complex with a real inverse-covariance key b", the only way to
reach the complex-sampling-dtype VCGE and the _SpecialGammaEnergy / GaussianEnergy it specialises to; tangent
bases, adjoint and metric comparisons follow the dtype of each key.

Oracle (agreement property, as stated): the original operator evaluated at (constants U variables).
  c_out, sop = op.simplify_for_constant_input(x[const])
  domain     sop.domain has exactly the remaining keys, sop.target is op.target; contract of c_out
  value      sop(x[var]) = op(x)
  jac        dense Jacobian of sop at x[var] = columns of the dense Jacobian of op at x belonging to var
  adjoint    sop's jac.adjoint_times = transpose of its jac.times
  metric     (likelihood-typed trees, want_metric) dense metric of sop = var x var block of op's metric
  EnergyAdapter(x, op, constants)   value equal; gradient lives on the variable keys only and equals the
             restriction of op's gradient; metric equals the var x var block
In addition the original operator's value is compared with the plain-array reference of C03, so that an
operator that cannot even be evaluated on the union of its leaves is reported (and not silently skipped).
"""
import itertools
import json

import numpy as np

from vf.core import ok, bad, skip

ID = "C04"
LEVEL = "exploration"
JAX = True
RULE = ("case = (expression tree with >= 2 input keys, set of constant keys, real|complex|complex+real-icov, grid point); ALL trees of "
        "the stated blocks x ALL non-empty proper key subsets; non-trivial = simplify_for_constant_input ran on a "
        "proper subset and value, Jacobian (and metric / EnergyAdapter for scalar trees) of the specialised "
        "operator were compared with the original; outcome = which specialisation mechanism was used")
ASSUMPTIONS = [
    "same alphabets, domains and numeric fill as C03 (2-pixel RGSpace, keys a,b,c; VERIF_SEED selects values)",
    "oracle = the original operator at the united input (agreement property); its own correctness is C03",
    "tolerance 1e-9 * max(1, |a|, |b|); for a real input only the real part of adjoint / metric output is compared",
]
TOL = 1e-9


def _close(a, b):
    a, b = np.asarray(a), np.asarray(b)
    if a.shape != b.shape:
        return False
    if a.size == 0:
        return True
    if not (np.all(np.isfinite(a)) and np.all(np.isfinite(b))):
        return False
    return bool(np.abs(a - b).max() <= TOL * max(1., np.abs(a).max(), np.abs(b).max()))


def _md(a, b):
    a, b = np.asarray(a), np.asarray(b)
    if a.shape != b.shape:
        return "shape %s vs %s" % (a.shape, b.shape)
    return "max|diff|=%.3e" % (np.abs(a - b).max() if a.size else 0.)


# ---------------------------------------------------------------- space
U_CTX = ["ptw:exp", "mat", "sum", "dl:u", "gauss_d", "ham", "ham0", "esmul", "einsum", "vcge", "get:u", "pinsVC", "pinsES",
         "jaxM"]
B_CTX = ["add", "mul", "vdot", "pair", "madd", "mmul", "eadd"]
U_TINY = ["ptw:exp", "einsum", "gauss_d", "ham", "ham0"]
B_TINY = ["mul", "pair", "madd", "eadd"]
U_MT = ["ptw:exp", "mat", "dl:u", "mscale", "get:u", "get:v", "einsum", "gaussM", "ham", "ham0"]
B_MT = ["pair", "pairsub", "madd", "msub"]
MIXED_MARKERS = ('"VCab"', '"pinsVC"', '"vcge"')
_space_cache = {}


def _canon_first_keys(t, X):
    """symmetry reduction (all blocks): keys appear in the order a, b, c when reading the leaves left to right
    (renaming keys maps every other tree onto such a tree; composite leaves pin a,b)"""
    order = []

    def walk(t):
        if X.is_leaf(t):
            for k in sorted(X.tree_keys(t)):
                if k not in order:
                    order.append(k)
            return
        for c in t[1:]:
            walk(c)
        for k in sorted(X.NODES[t[0]].keys) if t[0] in X.NODES else []:
            if k not in order:
                order.append(k)
    walk(t)
    return order == sorted(order) and order == list("abc")[:len(order)]


def space(tier):
    from vf.ref import c03_expr as X
    from vf.ref import c04_expr as X4
    from vf.props import c03
    if tier in _space_cache:
        return _space_cache[tier]
    full = c03._full_unary() + ["pinsVC", "pinsES"]
    L3 = ["a", "b", "c", "La"]
    blocks = []

    def add(label, leaves, un, bi, n, wr=(), canon=True, grid=(0, 1), grid_top=None):
        by = X.enumerate_trees(leaves, un, bi, n, wrappers=wr)
        by = {s: [t for t in v if len(X.tree_keys(t)) >= 2 and X.tree_type(t) != "SS" and
                  (not canon or _canon_first_keys(t, X))] for s, v in by.items()}
        blocks.append((label, by, {s: (grid_top if (grid_top and s == n) else grid) for s in by}))

    XL = X4.XLEAF_NAMES
    if tier == "quick":
        add("full alphabet, <=1 node", L3 + XL, full, c03.BINARY, 1, c03.WRAPPERS)
        add("context alphabet, <=2 nodes, leaves a,b,VCab,JXab,JLab", ["a", "b", "VCab", "JXab", "JLab"], U_CTX, B_CTX, 2,
            ["pre:exp"], grid=(0,))
        add("context alphabet, <=2 nodes, leaves a,b,c", ["a", "b", "c"], U_CTX, B_CTX, 2, ["pre:exp"], grid=(0,))
        add("tiny alphabet, <=3 nodes, leaves a,b,c", ["a", "b", "c"], U_TINY, B_TINY, 3, grid=(0,))
        add("multi-domain-target sums and differences (linear and nonlinear), <=3 nodes", ["a", "b", "c"], U_MT, B_MT,
            3, grid=(0,))
        add("MultiLinearEinsum, 3 operands, all key orders (vectors), <=1 node", X4.ME3_VEC,
            ["ptw:exp", "sum", "gauss_d", "ham", "ham0"], [], 1, grid=(0,))
    else:
        add("full alphabet, <=1 node", L3 + XL, full, c03.BINARY, 1, c03.WRAPPERS)
        add("full alphabet, <=2 nodes, leaves a,b,c", ["a", "b", "c"], full, c03.BINARY, 2, c03.WRAPPERS, grid=(0,))
        add("full alphabet, <=2 nodes, leaves a,b,VCab,JXab", ["a", "b", "VCab", "JXab"], full, c03.BINARY, 2,
            c03.WRAPPERS, grid=(0,))
        add("context alphabet, <=3 nodes, leaves a,b,VCab,JLab", ["a", "b", "VCab", "JLab"], U_CTX, B_CTX, 3,
            ["pre:exp"], grid=(0,))
        add("context alphabet, <=3 nodes, leaves a,b,c", ["a", "b", "c"], U_CTX, B_CTX, 3, ["pre:exp"], grid=(0,))
        add("tiny alphabet, <=4 nodes, leaves a,b,c", ["a", "b", "c"], U_TINY, B_TINY, 4, grid=(0,))
        add("multi-domain-target sums and differences (linear and nonlinear), <=4 nodes", ["a", "b", "c"], U_MT, B_MT,
            4, grid=(0,))
        add("MultiLinearEinsum, 3 operands, all key orders (vectors), <=2 nodes", X4.ME3_VEC,
            ["ptw:exp", "sum", "gauss_d", "ham", "ham0"], [], 2, grid=(0,))
    # Hamiltonians over THREE keys (needed for two successive specialisations with a key left over)
    ham3 = [[h, ["gauss_d", leaf]] for h in ("ham", "ham0") for leaf in X4.ME3_VEC[:2 if tier == "quick" else None]]
    ham3 = [t for t in ham3 if len(X.tree_keys(t)) >= 3]
    blocks.append(("Hamiltonians over three keys (two-step specialisation)", {2: ham3}, {2: (0,)}))
    _space_cache[tier] = blocks
    return blocks


def cases(tier, seed):
    from vf.ref import c03_expr as X
    seen, out = set(), []
    for label, by, grid in space(tier):
        for size in sorted(by):
            for t in by[size]:
                k = json.dumps(t)
                if k in seen:
                    continue
                seen.add(k)
                keys = sorted(X.tree_keys(t))
                subsets = [list(c) for r in range(1, len(keys)) for c in itertools.combinations(keys, r)]
                dts = ["r", "c"]
                if "b" in keys and any(m in k for m in MIXED_MARKERS):
                    dts.append("m")      # complex input with a REAL inverse-covariance key b (complex VCGE)
                for dt in dts:
                    for g in grid[size]:
                        for cs in subsets:
                            out.append(((size, X.tree_depth(t), len(keys), "rcm".index(dt), g, len(cs), k, cs),
                                        dict(tree=t, const=cs, dt=dt, g=g, seed=int(seed))))
    out.sort(key=lambda c: c[0])
    return [c for _, c in out]


# ---------------------------------------------------------------- helpers
def _walk_ops(op, seen=None, depth=0):
    """class names of all operators reachable from op through its attributes"""
    import nifty.cl as ift
    seen = set() if seen is None else seen
    if id(op) in seen or depth > 12:
        return set()
    seen.add(id(op))
    names = {type(op).__name__}
    for v in list(getattr(op, "__dict__", {}).values()):
        vs = v if isinstance(v, (list, tuple)) else [v]
        for w in vs:
            if isinstance(w, ift.Operator) and not isinstance(w, (ift.Field, ift.MultiField, ift.Linearization)):
                names |= _walk_ops(w, seen, depth + 1)
    return names


def _colidx(keys, sel, kc, npix):
    """columns of the keys `sel` in the tangent basis of `keys`: real units of every key (key order), then
    imaginary units of the complex keys only (kc: key -> complex?)"""
    re, im, pos = [], [], len(keys) * npix
    for i, k in enumerate(keys):
        if k in sel:
            re += list(range(i * npix, (i + 1) * npix))
    for k in keys:
        if kc[k]:
            if k in sel:
                im += list(range(pos, pos + npix))
            pos += npix
    return re + im


def _rowidx(keys, sel, kc, npix):
    """rows of the keys `sel` in a real-ified output [Re all keys; Im all keys]: real parts, and imaginary
    parts of the complex keys only (the imaginary part on a real-typed key is not specified)"""
    n = len(keys) * npix
    re, im = [], []
    for i, k in enumerate(keys):
        if k in sel:
            re += list(range(i * npix, (i + 1) * npix))
            if kc[k]:
                im += list(range(n + i * npix, n + (i + 1) * npix))
    return re + im


REAL_KEYS_MIXED = ("b",)       # dt == "m": every key complex except these (inverse covariance of a complex VCGE)


def _point4(E, case, keys):
    p = E.A["points"][case["g"]]
    kc = {k: (case["dt"] == "c" or (case["dt"] == "m" and k not in REAL_KEYS_MIXED)) for k in keys}
    return {k: (p[k][0] + 1j * p[k][1]) if kc[k] else p[k][0].copy() for k in keys}, kc


_quieted = []


def _quiet(ift):
    """the library logs a warning whenever the generic (insertion) specialisation is used"""
    if not _quieted:
        import logging
        ift.logger.setLevel(logging.ERROR)
        _quieted.append(1)


def evaluate(case):
    from vf.ref import c03_expr as X
    from vf.ref import c04_expr  # noqa: F401  (registers the composite leaves)
    from vf.props import c03
    cplx = case["dt"] in ("c", "m")
    E = X.get_env(case["seed"], cplx)
    ift = E.ift
    _quiet(ift)
    t = case["tree"]
    keys = sorted(X.tree_keys(t))
    const = list(case["const"])
    var = [k for k in keys if k not in const]
    inp, kc = _point4(E, case, keys)
    kcv = {k: kc[k] for k in var}
    try:
        vref = X.ref_eval(t, E, np, inp, True)
    except X.Outside as e:
        return ("skip", str(e))
    typ = X.tree_type(t)
    x = c03._field(E, inp, keys)
    fails, stats, info = [], {}, dict(type=typ)
    F = c03.Fail
    NP = X.NPIX

    # ---- the original operator at the united input
    try:
        op = X.build_op(t, E)
        if not (isinstance(op.domain, ift.MultiDomain) and list(op.domain.keys()) == keys):
            fails.append(F("domain", "orig", "operator domain %s is not the union of its leaves %s" % (
                list(op.domain.keys()), keys)))
            return ("done", fails, stats, info)
        v0 = c03._flatval(op(x))
        if not _close(v0, X.flat(vref).astype(np.complex128)):
            fails.append(F("value", "orig", "original op(x) differs from the reference (%s)" % _md(v0, X.flat(vref))))
            return ("done", fails, stats, info)
        scalar = op.target is ift.DomainTuple.scalar_domain()
        lin0 = op(ift.Linearization.make_var(x, True))
        J0 = X.dense_apply(lin0.jac.times, lin0.jac.domain, lin0.jac.target, kc)
        M0 = None
        if lin0.metric is not None:
            M0 = X.dense_apply(lin0.metric.times, lin0.metric.domain, lin0.metric.target, kc)
    except Exception as e:      # noqa
        if c03._documented_rejection(e) or _jax_dtype_rejection(e):
            return ("skip", "original operator rejects the dtype combination (%s)" % type(e).__name__)
        fails.append(_exc_fail(e, "orig"))
        return ("done", fails, stats, info)
    cv = _colidx(keys, var, kc, NP)
    rv = _rowidx(var, var, kcv, NP)        # rows of a real-ified output on the variable keys that are compared
    Jexp = J0[:, cv]
    out_c = bool(np.iscomplexobj(X.flat(vref)))
    Mexp = None
    if M0 is not None:
        Mexp = M0[_rowidx(keys, var, kc, NP)][:, cv]
    xc = x.extract_by_keys(const)
    xv = x.extract_by_keys(var)

    # ---- simplify_for_constant_input
    try:
        c_out, sop = op.simplify_for_constant_input(xc)
        info["mech"] = _mechanism(_walk_ops(sop))
        info["c_out"] = c_out is not None
        if not (isinstance(sop.domain, ift.MultiDomain) and list(sop.domain.keys()) == var):
            fails.append(F("domain", "simplify", "specialised operator lives on %s, expected %s" % (
                list(sop.domain.keys()) if isinstance(sop.domain, ift.MultiDomain) else sop.domain, var)))
        elif sop.target is not op.target:
            fails.append(F("target", "simplify", "specialised operator has another target"))
        else:
            if c_out is not None:
                if not (isinstance(c_out, ift.MultiField) and set(c_out.keys()) <= set(const)):
                    fails.append(F("c_out", "simplify", "constant output %r violates its contract" % (c_out,)))
            v1 = c03._flatval(sop(xv))
            if not _close(v1, v0):
                fails.append(F("value", "simplify", "specialised value differs from original (%s)" % _md(v1, v0)))
            for wm in (False, True):
                lin1 = sop(ift.Linearization.make_var(xv, wm))
                _cmp_lin(X, lin1, "simplify", wm, v0, Jexp, Mexp, kcv, out_c, rv, fails, stats)
            # ---- history: specialise the ALREADY specialised operator once more (first remaining key fixed too);
            # the result must be the original restricted to the remaining keys, as for a one-step specialisation
            if len(var) >= 2 and not fails:
                var2 = var[1:]
                kcv2 = {k: kc[k] for k in var2}
                c_out2, sop2 = sop.simplify_for_constant_input(xv.extract_by_keys(var[:1]))
                if not (isinstance(sop2.domain, ift.MultiDomain) and list(sop2.domain.keys()) == var2):
                    fails.append(F("domain", "simplify-twice", "twice specialised operator lives on %s, expected %s" % (
                        list(sop2.domain.keys()) if isinstance(sop2.domain, ift.MultiDomain) else sop2.domain, var2)))
                else:
                    xv2 = x.extract_by_keys(var2)
                    v2 = c03._flatval(sop2(xv2))
                    if not _close(v2, v0):
                        fails.append(F("value", "simplify-twice", "value after two successive specialisations differs "
                                       "from the original (%s)" % _md(v2, v0)))
                    cv2 = _colidx(keys, var2, kc, NP)
                    rv2 = _rowidx(var2, var2, kcv2, NP)
                    Mexp2 = M0[_rowidx(keys, var2, kc, NP)][:, cv2] if M0 is not None else None
                    for wm in (False, True):
                        lin2 = sop2(ift.Linearization.make_var(xv2, wm))
                        _cmp_lin(X, lin2, "simplify-twice", wm, v0, J0[:, cv2], Mexp2, kcv2, out_c, rv2, fails, stats)
                    stats["two_step"] = stats.get("two_step", 0) + 1
    except Exception as e:      # noqa
        if c03._documented_rejection(e) or _jax_dtype_rejection(e):
            stats["rejected_dtype"] = stats.get("rejected_dtype", 0) + 1
        else:
            fails.append(_exc_fail(e, "simplify"))

    # ---- EnergyAdapter(constants=...)
    if scalar and not np.iscomplexobj(X.flat(vref)):
        try:
            for wm in ((False, True) if M0 is not None else (False,)):
                ea = ift.EnergyAdapter(x, op, constants=const, want_metric=wm)
                stats["energy_adapter"] = stats.get("energy_adapter", 0) + 1
                if not _close(np.asarray(ea.value).reshape(-1), v0):
                    fails.append(F("value", "EnergyAdapter", "value differs (%s)" % _md(np.asarray(ea.value).reshape(-1), v0)))
                g = ea.gradient
                if not (isinstance(g.domain, ift.MultiDomain) and list(g.domain.keys()) == var):
                    fails.append(F("gradient-keys", "EnergyAdapter", "gradient lives on %s, expected the variable keys %s"
                                   % (list(g.domain.keys()) if isinstance(g.domain, ift.MultiDomain) else g.domain, var)))
                else:
                    from vf import dense
                    g0 = lin0.gradient.extract_by_keys(var)
                    a, b = dense.flatten(g), dense.flatten(g0)
                    a, b = np.concatenate([a.real, a.imag])[rv], np.concatenate([b.real, b.imag])[rv]
                    if not _close(a, b):
                        fails.append(F("gradient", "EnergyAdapter", "gradient differs from restriction (%s)" % _md(a, b)))
                    if list(ea.position.domain.keys()) != var:
                        fails.append(F("position-keys", "EnergyAdapter", "position lives on %s" % list(ea.position.domain.keys())))
                if wm:
                    met = ea.metric
                    if met is None:
                        fails.append(F("metric-missing", "EnergyAdapter", "no metric although the original has one"))
                    else:
                        M1 = X.dense_apply(met.times, met.domain, met.target, kcv)[rv]
                        if not _close(M1, Mexp):
                            fails.append(F("metric", "EnergyAdapter", "metric differs from var block (%s)" % _md(M1, Mexp)))
        except Exception as e:      # noqa
            if c03._documented_rejection(e) or _jax_dtype_rejection(e):
                stats["rejected_dtype"] = stats.get("rejected_dtype", 0) + 1
            else:
                fails.append(_exc_fail(e, "EnergyAdapter"))
    info["scalar"] = bool(scalar)
    info["metric"] = M0 is not None
    return ("done", fails, stats, info)


def _cmp_lin(X, lin1, api, wm, v0, Jexp, Mexp, kcv, out_c, rv, fails, stats):
    from vf.props import c03
    F = c03.Fail
    v = c03._flatval(lin1.val)
    if not _close(v, v0):
        fails.append(F("value", api, "Linearization value of the specialised operator differs (%s)" % _md(v, v0)))
    T = X.dense_apply(lin1.jac.times, lin1.jac.domain, lin1.jac.target, kcv)
    stats["jac_columns"] = stats.get("jac_columns", 0) + T.shape[1]
    if not _close(T, Jexp):
        fails.append(F("jac", api, "Jacobian of the specialised operator is not the variable-key block of the "
                       "original (%s)\nspecialised=%s\noriginal[:,var]=%s" % (
                           _md(T, Jexp), np.array2string(T, precision=5), np.array2string(Jexp, precision=5))))
    if not wm:
        try:
            A = X.dense_apply(lin1.jac.adjoint_times, lin1.jac.target, lin1.jac.domain, out_c)
        except Exception as e:      # noqa
            if c03._documented_rejection(e):
                A = None
            else:
                raise
        if A is not None:
            m = T.shape[0] // 2
            exp = T.T[:, :(2 * m if out_c else m)]
            got = A[rv]
            if not _close(got, exp):
                fails.append(F("adjoint", api, "adjoint_times of the specialised Jacobian is not its transpose (%s)" % _md(got, exp)))
    if wm and Mexp is not None:
        if lin1.metric is None:
            fails.append(F("metric-missing", api, "specialised operator returns no metric, the original does"))
        else:
            M1 = X.dense_apply(lin1.metric.times, lin1.metric.domain, lin1.metric.target, kcv)[rv]
            if not _close(M1, Mexp):
                fails.append(F("metric", api, "metric of the specialised operator is not the var x var block of the "
                               "original (%s)\nspecialised=%s\noriginal block=%s" % (
                                   _md(M1, Mexp), np.array2string(M1, precision=5),
                                   np.array2string(Mexp, precision=5))))
            stats["metric_checked"] = stats.get("metric_checked", 0) + 1
            if any(kcv.values()):
                stats["metric_checked_complex"] = stats.get("metric_checked_complex", 0) + 1


def _jax_dtype_rejection(e):
    """jax.jvp / vjp refuse (loudly) a tangent / cotangent whose dtype differs from the primal / output dtype,
    e.g. the float64 zero tangent of a ConstantOperator under a complex JaxOperator"""
    return isinstance(e, (TypeError, ValueError)) and ("primal and tangent arguments to jax.jvp do not match" in str(e)
                                                       or "unexpected JAX type" in str(e))


def _exc_fail(e, api):
    """Fail for an exception, remembering the innermost library frame (semantic location of the root cause)"""
    import traceback
    from vf.props import c03
    f = c03.Fail("exception:%s" % type(e).__name__, api, "%r\n%s" % (e, traceback.format_exc()[-1200:]))
    f.where = None
    fr = [x for x in traceback.extract_tb(e.__traceback__) if "/nifty/" in x.filename]
    if fr:
        f.where = "%s:%s" % (fr[-1].filename.split("/nifty/")[-1], ">".join(x.name for x in fr[-2:]))
    return f


def _mechanism(names):
    m = []
    if "InsertionOperator" in names:
        m.append("insertion")
    if names & {"ConstantOperator", "ConstantEnergyOperator", "ConstantLikelihoodEnergyOperator"}:
        m.append("constant-folded")
    if "_SpecialGammaEnergy" in names:
        m.append("special-gamma")
    if names & {"JaxOperator", "JaxLikelihoodEnergyOperator"}:
        m.append("jax-closure")
    return "+".join(m) if m else "restructured"


def culprit(case):
    """smallest failing subtree (with the constant keys it still contains)"""
    from vf.ref import c03_expr as X
    t = case["tree"]
    while not X.is_leaf(t):
        nxt = None
        for c in t[1:]:
            if X.is_leaf(c) and c not in X.XLEAVES:
                continue
            ck = X.tree_keys(c)
            cc = [k for k in case["const"] if k in ck]
            if len(ck) < 2 or not cc or len(cc) == len(ck):
                continue
            r = evaluate(dict(case, tree=c, const=cc))
            if r[0] == "done" and r[1]:
                nxt = c
                break
        if nxt is None:
            break
        t = nxt
    return t


def run(case):
    import time
    from vf.ref import c03_expr as X
    t0 = time.process_time()
    r = evaluate(case)
    if r[0] == "skip":
        return skip(r[1], stats=dict(cpu_s=time.process_time() - t0))
    _, fails, stats, info = r
    stats["cpu_s"] = time.process_time() - t0
    t = case["tree"]
    dts = {"c": "complex", "r": "real", "m": "complex+real-icov"}[case["dt"]]
    if fails:
        f = fails[0]
        c = culprit(case)
        cop = c if X.is_leaf(c) else c[0]
        checks = "+".join(sorted({x.check for x in fails}))
        apis = "+".join(sorted({x.api for x in fails}))
        if f.check.startswith("exception:") and getattr(f, "where", None):
            cop = f.where          # one root cause = one key, whatever operator sits on top
        return bad("%s[%s]: %s [%s input, constants %s, tree %s]" % (f.check, f.api, f.msg.split("\n")[0], dts,
                                                                       case["const"], X.tree_str(t)),
                   finding_key="%s|%s|%s|%s" % (checks, apis, dts, cop),
                   detail=dict(tree=X.tree_str(t), culprit=X.tree_str(c), fails=[repr(x)[:1500] for x in fails][:6]),
                   stats=stats)
    stats["mech|" + info.get("mech", "?")] = 1
    if info.get("c_out"):
        stats["c_out_not_none"] = 1
    if not stats.get("jac_columns"):
        # simplify / Jacobian application was a loud dtype rejection (Imaginizer, jax.jvp): nothing compared
        return ok(nontrivial=False, outcome="%s|value only: specialised Jacobian rejects the tangent dtype" % dts,
                  stats=stats, detail=dict(tree=X.tree_str(t), const=case["const"]))
    return ok(nontrivial=True,
              outcome="%s|%s|%s|%d of %d keys const|%s" % (dts, info["type"], info.get("mech"), len(case["const"]),
                                                            len(X.tree_keys(t)),
                                                            "EA+metric" if info["metric"] else ("EA" if info["scalar"] else "-")),
              stats=stats, detail=dict(tree=X.tree_str(t), const=case["const"]))


def finish(run):
    mech = {k.split("|", 1)[1]: int(v) for k, v in run.extra.items() if k.startswith("mech|")}
    for k in [k for k in run.extra if k.startswith("mech|")]:
        del run.extra[k]
    return dict(space=[dict(block=l, trees_by_size={str(s): len(v) for s, v in by.items()},
                            grid_points_by_size={str(s): list(g) for s, g in gr.items()})
                       for l, by, gr in space(run.tier)],
                specialisation_mechanisms=mech,
                const_collector_reached=int(run.extra.get("c_out_not_none", 0)))
