"""C30 Prior transforms map a standard normal to the documented distribution.

Mode P (configuration enumeration).  A case is one constructor configuration of one
prior transform (flavour nifty.re / nifty.cl, family, calling convention, every
parameter written out, table spacing).  Inside the case the transform is evaluated on
the WHOLE probability grid {1e-6 ... 0.5 ... 1-1e-6} (41 points; 67 points down to 1e-9 in
the thorough tier) at xi = Phi^-1(p) and compared with the scipy.stats quantile of the
documented target distribution (vf/ref/c30_ref.py: tail-accurate through ppf/isf, never
through the library).  Clauses decided per case:
  * quantile:  transform(Phi^-1(p)) = Q_target(p) within round-off + known conditioning of
               the tail + (interpolated transforms only) the documented accuracy of a linear
               interpolation with the configured table spacing (DESIGN 7.3);
  * monotone:  non-decreasing on the sorted grid AND on a fine xi grid (193 / 1537 points in
               [-4.8, 4.8], i.e. between and across table nodes), strictly increasing wherever
               the target quantiles differ by more than the tolerance;
  * inverse:   every provided inverse maps the exact target quantiles back to xi and undoes
               the library's own forward values;
  * moments:   `lognormal_moments` (both flavours) equals the defining moment matching, the
               statistics properties of the classic operators (alpha/q/mode/mean/var/theta/beta)
               equal scipy.stats' moments of the target;
  * rejection: documented invalid parameters raise.
"""
import itertools
import json
import warnings

import numpy as np

from vf.core import ok, bad, skip
from vf.ref import c30_ref as R

ID = "C30"
LEVEL = "exploration"
JAX = True
RULE = ("case = (flavour re|cl, family, calling convention (function / Model / named Model / scalar Model / array "
        "parameters / Vector parameters; classic: operator on a field / Field-valued parameter / N_copies / alternative "
        "parametrisations), all parameters from the alphabets in _catalogue() plus one VERIF_SEED-selected tuple per "
        "family, table spacing); the full product is enumerated; per case the transform is evaluated on every point of the "
        "probability grid and of the fine monotonicity grid. non-trivial = all grid values came back and were compared "
        "with the scipy.stats quantiles (or a documented rejection was observed to raise)")
ASSUMPTIONS = [
    "probabilities in [1e-6, 1-1e-6] (thorough: [1e-9, 1-1e-9]); outside, cdf-based implementations lose the tail to "
    "cancellation and nothing is claimed",
    "interpolated transforms (inverse gamma, gamma, beta, log-inverse-gamma) are held to the documented accuracy of a "
    "LINEAR interpolation of the tabulated function with the configured spacing: 2*step^2/8*max|f''| (f = log Q for "
    "log-tables, relative; f = Q otherwise, absolute), never to round-off",
    "upper-tail values of implementations that form cdf(xi) = 1-q are compared with the known condition number 1/q",
    "shape parameters stay in the well-supported range (inverse gamma / gamma / beta shape >= 0.5, table spacing <= 0.1)",
    "scipy.stats ppf/isf are taken as exact at 1e3 eps",
    "float64 only",
]

LAT = "lat"


# =====================================================================================
#                                      catalogue
# =====================================================================================
def _seeded(seed):
    rng = np.random.default_rng([3000, int(seed)])
    r = lambda lo, hi: float(np.round(rng.uniform(lo, hi), 3))
    return dict(normal=(r(-3, 3), r(0.2, 4)), lognormal=(r(0.3, 4), r(0.2, 4)), uniform=(r(-3, 0), r(0.5, 3)),
                laplace=(r(-3, 3), r(0.2, 4)), invgamma=(r(0.6, 8), r(0.3, 4), r(0.2, 3)), gamma=(r(0.6, 8), r(0.3, 4)),
                beta=(r(0.6, 6), r(0.6, 6)))


def _c(fl, fam, api, rows, **kw):
    d = dict(fl=fl, fam=fam, api=api, rows=rows)
    d.update(kw)
    return d


def _catalogue(tier, seed):
    S = _seeded(seed)
    quick = tier == "quick"
    out = []
    # ------------------------------------------------------------------ normal
    means, stds = [0.0, -1.5, 2.5], [1.0, 0.3, 4.0]
    nrm = [(m, s) for m in means for s in stds] + [S["normal"]]
    for m, s in nrm:
        out.append(_c("re", "normal", "fn", [dict(mean=m, std=s)]))
        for N in (0, 1):
            out.append(_c("cl", "normal", "transform", [dict(mean=m, std=s)], N=N))
    for api in ("model", "model-named", "model-scalar"):
        for m, s in (nrm[:1] + nrm[-1:] if quick else nrm):
            out.append(_c("re", "normal", api, [dict(mean=m, std=s)]))
    rows3 = [dict(mean=m, std=s) for m, s in (nrm[1], nrm[5], nrm[-1])]
    for api in ("array", "vector"):
        out.append(_c("re", "normal", api, rows3))
    out.append(_c("cl", "normal", "transform", rows3, N=3))
    out.append(_c("cl", "normal", "transform", [dict(mean=-1.5, std=0.3)] * 3, N=3, bcast=True))
    out.append(_c("re", "normal", "fn", [dict(mean=1, std=2)], note="int-params"))
    # ------------------------------------------------------------------ log-normal (given by mean, std)
    lmeans, lstds = [0.5, 1.0, 3.0], [0.2, 1.0, 5.0]
    lgn = [(m, s) for m in lmeans for s in lstds] + [S["lognormal"]]
    for m, s in lgn:
        out.append(_c("re", "lognormal", "fn", [dict(mean=m, std=s)]))
        out.append(_c("re", "lognormal", "moments", [dict(mean=m, std=s)]))
        out.append(_c("cl", "lognormal", "moments", [dict(mean=m, std=s)], N=0))
        for N in (0, 1):
            out.append(_c("cl", "lognormal", "transform", [dict(mean=m, std=s)], N=N))
    for api in ("model", "model-named", "model-scalar"):
        for m, s in (lgn[:1] + lgn[-1:] if quick else lgn):
            out.append(_c("re", "lognormal", api, [dict(mean=m, std=s)]))
    lrows3 = [dict(mean=m, std=s) for m, s in (lgn[2], lgn[3], lgn[-1])]
    for api in ("array", "vector", "moments"):
        out.append(_c("re", "lognormal", api, lrows3))
    out.append(_c("cl", "lognormal", "transform", lrows3, N=3))
    out.append(_c("cl", "lognormal", "moments", lrows3, N=3))
    out.append(_c("cl", "lognormal", "moments", [dict(mean=3.0, std=0.2)] * 3, N=3, bcast=True))
    for lm, ls in ((0.0, 1.0), (-0.7, 0.4), (1.2, 1.5)):
        out.append(_c("re", "lognormal-log", "fn", [dict(log_mean=lm, log_std=ls)]))
    for m, s in ((0.0, 1.0), (-1.0, 1.0), (1.0, 0.0), (1.0, -1.0)):
        for fl, api in (("re", "moments"), ("re", "fn"), ("re", "model"), ("cl", "moments"), ("cl", "transform")):
            out.append(_c(fl, "lognormal", api, [dict(mean=m, std=s)], N=0, reject="ValueError"))
    # ------------------------------------------------------------------ uniform (lower, upper)
    # incl. unit-width intervals away from 0 and zero-based non-unit ones (shortcuts keyed on width or offset)
    uni = [(0.0, 1.0), (-2.0, 3.0), (1.5, 1.75), (0.0, 2.0), (-0.5, 0.5), (1.0, 2.0), (-1.0, 0.0),
           (S["uniform"][0], S["uniform"][0] + S["uniform"][1])]
    for lo, hi in uni:
        for api in ("fn", "model") + (() if quick else ("model-named", "model-scalar")):
            out.append(_c("re", "uniform", api, [dict(lo=lo, hi=hi)]))
        out.append(_c("cl", "uniform", "op", [dict(lo=lo, hi=hi)]))
    out.append(_c("re", "uniform", "fn", [dict(lo=0, hi=1)], note="int-params"))      # not the float fast path
    out.append(_c("re", "uniform", "model", [dict(lo=0, hi=1)], note="int-params"))
    out.append(_c("re", "uniform", "fn", [dict(lo=None, hi=None)], note="defaults"))
    out.append(_c("cl", "uniform", "op", [dict(lo=None, hi=None)], note="defaults"))
    urows = [dict(lo=lo, hi=hi) for lo, hi in uni[1:4]]
    for api in ("array", "vector"):
        out.append(_c("re", "uniform", api, urows))
    # ------------------------------------------------------------------ Laplace (loc, scale); JAX has loc = 0 only
    lap = [(0.0, 1.0), (0.0, 0.25), (0.0, 3.0)]
    for loc, sc in lap + [(0.0, S["laplace"][1])]:
        for api in ("fn", "model") + (() if quick else ("model-named", "model-scalar")):
            out.append(_c("re", "laplace", api, [dict(loc=loc, scale=sc)]))
    for api in ("array", "vector"):
        out.append(_c("re", "laplace", api, [dict(loc=0.0, scale=sc) for _, sc in lap]))
    for loc, sc in lap + [(-2.0, 5.0), (1.5, 0.25), S["laplace"]]:
        out.append(_c("cl", "laplace", "op", [dict(loc=loc, scale=sc)]))
    out.append(_c("cl", "laplace", "op", [dict(loc=None, scale=None)], note="defaults"))
    # ------------------------------------------------------------------ inverse gamma (a, scale, loc)
    A = [0.5, 1.0, 1.5, 2.0, 3.0, 10.0]
    SC = [1.0, 0.5, 4.0]
    steps = [1e-2, 1e-1] if quick else [1e-2, 1e-1, 3e-2, 5e-3]
    for step in steps:
        for a, sc in itertools.product(A, SC):
            for loc in (0.0, 2.0, -1.0):
                out.append(_c("re", "invgamma", "fn", [dict(a=a, scale=sc, loc=loc)], step=step))
            out.append(_c("cl", "invgamma", "op", [dict(a=a, scale=sc, loc=0.0)], step=step))
            out.append(_c("cl", "loginvgamma", "op", [dict(a=a, scale=sc)], step=step))
        a, sc, loc = S["invgamma"]
        out.append(_c("re", "invgamma", "fn", [dict(a=a, scale=sc, loc=0.0)], step=step))
        out.append(_c("re", "invgamma", "fn", [dict(a=a, scale=sc, loc=loc)], step=step))
        out.append(_c("cl", "invgamma", "op", [dict(a=a, scale=sc, loc=0.0)], step=step))
        out.append(_c("cl", "loginvgamma", "op", [dict(a=a, scale=sc)], step=step))
        for a in (A[:2] + A[3:4] if quick else A):
            rows = [dict(a=a, scale=sc, loc=0.0) for sc in SC]
            out.append(_c("re", "invgamma", "array", rows, step=step))             # array-valued scale
            out.append(_c("cl", "invgamma", "op-field", rows, step=step))          # Field-valued q
            out.append(_c("cl", "loginvgamma", "op-field", [dict(a=a, scale=sc) for sc in SC], step=step))
    for a, sc, loc in [(2.0, 1.0, 0.0), (0.5, 4.0, 2.0), (3.0, 0.5, 0.0)] + ([] if quick else
                                                                               [(a, 1.0, 0.0) for a in A]):
        for api in ("model", "model-named", "model-scalar", "fn-defaultstep"):
            out.append(_c("re", "invgamma", api, [dict(a=a, scale=sc, loc=loc)], step=None))
    out.append(_c("cl", "invgamma", "op", [dict(a=2.0, scale=1.0, loc=0.0)], step=None))
    out.append(_c("re", "invgamma", "fn", [dict(a=2, scale=3, loc=0)], step=1e-2, note="int-params"))
    for mode, mean in itertools.product((0.5, 1.0), (1.5, 3.0, 12.0)):
        out.append(_c("cl", "invgamma", "op-modemean", [dict(mode=mode, mean=mean)], step=1e-2))
    out.append(_c("cl", "invgamma", "op-modemean", [dict(mode=3.0, mean=1.0)], step=1e-2, reject="ValueError"))
    out.append(_c("cl", "invgamma", "op-noparams", [dict()], step=1e-2, reject="ValueError"))
    out.append(_c("re", "invgamma", "array", [dict(a=2.0, scale=sc, loc=1.0) for sc in SC], step=1e-2,
                  reject="TypeError", unsupported=True))                                              # documented: array scale needs loc == 0
    out.append(_c("re", "invgamma", "array-a", [dict(a=a, scale=1.0, loc=0.0) for a in A[:2]], step=1e-2,
                  reject="TypeError", unsupported=True))
    # ------------------------------------------------------------------ gamma (shape alpha, scale theta)
    TH = [1.0, 0.5, 4.0]
    gsteps = [1e-2, 1e-1] if quick else [1e-2, 1e-1, 3e-2]
    for step in gsteps:
        for a, th in list(itertools.product(A, TH)) + [S["gamma"]]:
            out.append(_c("cl", "gamma", "op-theta", [dict(alpha=a, theta=th)], step=step))
        for a, th in list(itertools.product(A[1::2], TH)) + [S["gamma"]]:
            out.append(_c("cl", "gamma", "op-beta", [dict(alpha=a, theta=th)], step=step))
            out.append(_c("cl", "gamma", "op-meanvar", [dict(alpha=a, theta=th)], step=step))
        for a in A[1::2]:
            rows = [dict(alpha=a, theta=th) for th in TH]
            out.append(_c("cl", "gamma", "op-theta-field", rows, step=step))
            out.append(_c("cl", "gamma", "op-beta-field", rows, step=step))
    out.append(_c("cl", "gamma", "op-theta", [dict(alpha=2.0, theta=1.0)], step=None))
    out.append(_c("cl", "gamma", "op-alphaonly", [dict(alpha=2.0, theta=1.0)], step=1e-2, reject="ValueError"))
    # ------------------------------------------------------------------ beta
    B = [0.5, 1.0, 2.0, 5.0]
    for step in gsteps:
        for a, b in list(itertools.product(B, B)) + [S["beta"]]:
            out.append(_c("cl", "beta", "op", [dict(a=a, b=b)], step=step))
    out.append(_c("cl", "beta", "op", [dict(a=2.0, b=3.0)], step=None))
    for c in out:
        c["tier"] = tier
    return out


_FAM_ORDER = ["normal", "lognormal", "lognormal-log", "uniform", "laplace", "invgamma", "loginvgamma", "gamma", "beta"]


def cases(tier, seed):
    cat = _catalogue(tier, seed)
    api_rank = lambda a: 0 if a in ("fn", "op", "transform", "moments", "op-theta") else 1
    cat.sort(key=lambda c: (_FAM_ORDER.index(c["fam"]), len(c["rows"]), api_rank(c["api"]), 0 if c["fl"] == "re" else 1,
                            0 if not c.get("reject") else 1))
    seen, res = set(), []
    for c in cat:
        k = json.dumps(c, sort_keys=True)
        if k not in seen:
            seen.add(k)
            res.append(c)
    return res


# =====================================================================================
#                         targets (which distribution does the case document?)
# =====================================================================================
def _targets(case):
    """-> list (one per row) of dict(spec, loc_scale) and (table, cdf_based) for the implementation."""
    fam, fl = case["fam"], case["fl"]
    T = []
    for r in case["rows"]:
        if fam == "normal":
            T.append(dict(spec=["normal", r["mean"], r["std"]], ls=abs(r["mean"])))
        elif fam == "lognormal":
            T.append(dict(spec=["lognormal", r["mean"], r["std"]], ls=0.0))
        elif fam == "lognormal-log":
            T.append(dict(spec=["lognormal-log", r["log_mean"], r["log_std"]], ls=0.0))
        elif fam == "uniform":
            lo, hi = (0.0, 1.0) if r["lo"] is None else (r["lo"], r["hi"])
            T.append(dict(spec=["uniform", lo, hi], ls=abs(lo) + abs(hi)))
        elif fam == "laplace":
            loc, sc = (0.0, 1.0) if r["loc"] is None else (r["loc"], r["scale"])
            T.append(dict(spec=["laplace", loc, sc], ls=abs(loc)))
        elif fam == "invgamma":
            if "mode" in r:       # alternative parametrisation, solved from mode = q/(a+1), mean = q/(a-1)
                a = (r["mean"] + r["mode"]) / (r["mean"] - r["mode"])
                q = 2.0 * r["mean"] * r["mode"] / (r["mean"] - r["mode"])
                T.append(dict(spec=["invgamma", a, q, 0.0], ls=0.0))
            else:
                T.append(dict(spec=["invgamma", r["a"], r["scale"], r["loc"]], ls=abs(r["loc"])))
        elif fam == "loginvgamma":
            T.append(dict(spec=["loginvgamma", r["a"], r["scale"]], ls=abs(np.log(r["scale"]))))
        elif fam == "gamma":
            T.append(dict(spec=["gamma", r["alpha"], r["theta"]], ls=0.0))
        elif fam == "beta":
            T.append(dict(spec=["beta", r["a"], r["b"]], ls=1.0))
        else:
            raise ValueError(fam)
    table = None
    if fam == "invgamma":
        table = "log"
    elif fam in ("loginvgamma", "gamma", "beta"):
        table = "lin"
    # which implementations form the tail probability through cdf(xi) (cancellation in the upper tail)
    cdf_based = not (fl == "re" and fam in ("normal", "lognormal", "lognormal-log", "laplace")) \
        and not (fl == "cl" and fam in ("normal", "lognormal"))
    return T, table, cdf_based


def _regime(case):
    r = case["rows"][0]
    tags = []
    if case["fam"] == "invgamma" and "loc" in r:
        tags.append("loc<0" if r["loc"] < 0 else ("loc>0" if r["loc"] > 0 else "loc=0"))
    if case.get("note"):
        tags.append(case["note"])
    return "+".join(tags)


def _key(case, symptom, extra=None):
    parts = [case["fl"], case["fam"], case["api"], symptom]
    rg = _regime(case)
    if rg:
        parts.append(rg)
    if extra:
        parts.append(extra)
    return "|".join(parts)


# =====================================================================================
#                                 building the library objects
# =====================================================================================
class Built:
    def __init__(self, fwd, inv=None, props=(), fwd_lin=None):
        self.fwd, self.inv, self.props, self.fwd_lin = fwd, inv, list(props), fwd_lin


def _build_re(case, n):
    import jax.numpy as jnp
    import nifty.re as jft
    fam, api, rows = case["fam"], case["api"], case["rows"]
    Rn = len(rows)
    step = case.get("step")

    def P(name):
        vals = [r[name] for r in rows]
        if api == "array" or (api == "array-a"):
            return np.array(vals, dtype=float).reshape(Rn, 1)
        if api == "vector":
            return jft.Vector({"r%d" % i: v for i, v in enumerate(vals)})
        return vals[0]

    def X(xi):
        if api in ("array", "array-a"):
            return np.tile(xi, (Rn, 1))
        if api == "vector":
            return jft.Vector({"r%d" % i: jnp.asarray(xi) for i in range(Rn)})
        return xi

    def Y(y):
        if api == "vector":
            return np.stack([np.asarray(y.tree["r%d" % i]) for i in range(Rn)])
        return np.asarray(y).reshape(Rn, -1)

    def from_call(call, icall=None):
        return Built(lambda xi: Y(call(X(xi))), None if icall is None else (lambda y: Y(icall(_unY(y)))))

    def _unY(y):       # (Rn, n) array -> argument in the api's representation
        if api == "vector":
            return jft.Vector({"r%d" % i: jnp.asarray(y[i]) for i in range(Rn)})
        if api in ("array", "array-a"):
            return y
        return y[0]

    def from_model(cls, *args, **kw):
        if api == "model":
            m = cls(*args, shape=(n,), dtype=jnp.float64, **kw)
            return Built(lambda xi: Y(m(jnp.asarray(xi))))
        if api == "model-named":
            m = cls(*args, name=LAT, shape=(n,), dtype=jnp.float64, **kw)
            return Built(lambda xi: Y(m({LAT: jnp.asarray(xi)})))
        if api == "model-scalar":
            m = cls(*args, **kw)
            return Built(lambda xi: Y(np.array([float(m(jnp.asarray(v))) for v in xi])))
        raise ValueError(api)

    ismodel = api.startswith("model")
    if fam == "normal":
        if ismodel:
            return from_model(jft.NormalPrior, P("mean"), P("std"))
        return from_call(jft.normal_prior(P("mean"), P("std")), jft.normal_invprior(P("mean"), P("std")))
    if fam == "lognormal":
        if api == "moments":
            return None
        if ismodel:
            return from_model(jft.LogNormalPrior, P("mean"), P("std"))
        return from_call(jft.lognormal_prior(P("mean"), P("std")), jft.lognormal_invprior(P("mean"), P("std")))
    if fam == "lognormal-log":
        kw = dict(_log_mean=P("log_mean"), _log_std=P("log_std"))
        return from_call(jft.lognormal_prior(None, None, **kw), jft.lognormal_invprior(None, None, **kw))
    if fam == "uniform":
        if rows[0]["lo"] is None:
            return from_call(jft.uniform_prior())
        if ismodel:
            return from_model(jft.UniformPrior, P("lo"), P("hi"))
        return from_call(jft.uniform_prior(P("lo"), P("hi")))
    if fam == "laplace":
        if ismodel:
            return from_model(jft.LaplacePrior, P("scale"))
        return from_call(jft.laplace_prior(P("scale")))
    if fam == "invgamma":
        a = P("a") if api == "array-a" else rows[0]["a"]
        loc = rows[0]["loc"]
        sc = P("scale")
        kw = {} if step is None else dict(step=step)
        if ismodel:
            return from_model(jft.InvGammaPrior, a, sc, loc, **kw)
        f = jft.invgamma_prior(a, sc, loc, **kw)
        g = jft.invgamma_invprior(a, sc, loc, **kw)
        return from_call(f, g)
    raise ValueError(fam)


def _build_cl(case, n):
    import nifty.cl as ift
    fam, api, rows = case["fam"], case["api"], case["rows"]
    Rn = len(rows)
    step = case.get("step")
    kw = {} if step is None else dict(delta=step)
    dom = ift.DomainTuple.make(ift.UnstructuredDomain((Rn, n)))

    def fld(name, f=lambda v: v):
        return ift.makeField(dom, np.repeat(np.array([f(r[name]) for r in rows], dtype=float)[:, None], n, axis=1))

    def as_x(xi):
        return ift.makeField(dom, np.tile(xi, (Rn, 1)))

    def from_op(op, inv=None, props=()):
        def fwd(xi):
            return np.asarray(op(as_x(xi)).asnumpy()).reshape(Rn, -1)

        def fwd_lin(xi):
            lin = op(ift.Linearization.make_var(as_x(xi)))
            return (np.asarray(lin.val.asnumpy()).reshape(Rn, -1),
                    np.asarray(lin.jac(ift.full(dom, 1.)).asnumpy()).reshape(Rn, -1))
        finv = None
        if inv is not None:
            finv = lambda y: np.asarray(inv(ift.makeField(dom, np.asarray(y).reshape(dom.shape))).asnumpy()).reshape(Rn, -1)
        return Built(fwd, finv, props, fwd_lin)

    if fam in ("normal", "lognormal") and api == "transform":
        N = int(case["N"])
        ctor = ift.NormalTransform if fam == "normal" else ift.LognormalTransform
        pm, ps = [r["mean"] for r in rows], [r["std"] for r in rows]
        if N in (0, 1) or case.get("bcast"):
            pm, ps = pm[0], ps[0]
        op = ctor(pm, ps, LAT, N)
        d = op.domain[LAT]

        def fwd(xi):
            cols = []
            for v in xi:
                x = ift.MultiField.from_dict({LAT: ift.makeField(d, np.full(d.shape, v))})
                cols.append(np.asarray(op(x).asnumpy()).reshape(-1))
            res = np.stack(cols, axis=1)          # (max(N,1), n)
            if res.shape[0] != Rn:
                raise AssertionError("transform returned %d values, expected %d" % (res.shape[0], Rn))
            return res
        return Built(fwd)
    if fam == "lognormal" and api == "moments":
        return None
    if fam == "uniform":
        r = rows[0]
        op = ift.UniformOperator(dom) if r["lo"] is None else ift.UniformOperator(dom, r["lo"], r["hi"] - r["lo"])
        return from_op(op, op.inverse)
    if fam == "laplace":
        r = rows[0]
        op = ift.LaplaceOperator(dom) if r["loc"] is None else ift.LaplaceOperator(dom, r["loc"], r["scale"])
        return from_op(op, op.inverse)
    if fam == "invgamma":
        if api == "op-noparams":
            return from_op(ift.InverseGammaOperator(dom, **kw))
        if api == "op-modemean":
            op = ift.InverseGammaOperator(dom, mode=rows[0]["mode"], mean=rows[0]["mean"], **kw)
        elif api == "op-field":
            op = ift.InverseGammaOperator(dom, rows[0]["a"], fld("scale"), **kw)
        else:
            op = ift.InverseGammaOperator(dom, rows[0]["a"], rows[0]["scale"], **kw)
        return from_op(op, None, [("alpha", lambda: op.alpha), ("q", lambda: op.q), ("mode", lambda: op.mode),
                                  ("mean", lambda: op.mean), ("var", lambda: op.var)])
    if fam == "loginvgamma":
        q = fld("scale") if api == "op-field" else rows[0]["scale"]
        return from_op(ift.LogInverseGammaOperator(dom, rows[0]["a"], q, **kw))
    if fam == "gamma":
        a, th = rows[0]["alpha"], rows[0]["theta"]
        if api == "op-theta":
            op = ift.GammaOperator(dom, alpha=a, theta=th, **kw)
        elif api == "op-beta":
            op = ift.GammaOperator(dom, alpha=a, beta=1.0 / th, **kw)
        elif api == "op-meanvar":
            op = ift.GammaOperator(dom, mean=a * th, var=a * th * th, **kw)
        elif api == "op-theta-field":
            op = ift.GammaOperator(dom, alpha=a, theta=fld("theta"), **kw)
        elif api == "op-beta-field":
            op = ift.GammaOperator(dom, alpha=a, beta=fld("theta", lambda v: 1.0 / v), **kw)
        elif api == "op-alphaonly":
            op = ift.GammaOperator(dom, alpha=a, **kw)
        else:
            raise ValueError(api)
        return from_op(op, None, [("alpha", lambda: op.alpha), ("theta", lambda: op.theta), ("beta", lambda: op.beta),
                                  ("mode", lambda: op.mode), ("mean", lambda: op.mean), ("var", lambda: op.var)])
    if fam == "beta":
        return from_op(ift.BetaOperator(dom, rows[0]["a"], rows[0]["b"], **kw))
    raise ValueError((fam, api))


# =====================================================================================
#                                        one case
# =====================================================================================
def _as_rows(v, Rn):
    """statistics property -> array of one value per row (scalars broadcast; Fields constant along the grid axis)."""
    if hasattr(v, "asnumpy"):
        a = np.asarray(v.asnumpy(), dtype=float)
        if a.ndim == 2 and a.shape[0] == Rn:
            if not np.all(a == a[:, :1]):
                raise AssertionError("property varies along the grid axis")
            return a[:, 0]
        return np.broadcast_to(a.reshape(-1), (Rn,))
    return np.broadcast_to(np.asarray(v, dtype=float).reshape(-1), (Rn,))


def _expected_props(case, targets):
    """closed forms / scipy moments of the target for the statistics properties of the classic operators."""
    exp = {}
    dists = [R.make_dist(t["spec"])[0] for t in targets]
    if case["fam"] == "invgamma":
        a = np.array([t["spec"][1] for t in targets], dtype=float)
        q = np.array([t["spec"][2] for t in targets], dtype=float)
        exp["alpha"], exp["q"] = a, q
        exp["mode"] = q / (a + 1)
        if np.all(a > 1):
            exp["mean"] = np.array([d.mean() for d in dists])
        else:
            exp["mean"] = "raises"
        if np.all(a > 2):
            exp["var"] = np.array([d.var() for d in dists])
        else:
            exp["var"] = "raises"
    if case["fam"] == "gamma":
        a = np.array([t["spec"][1] for t in targets], dtype=float)
        th = np.array([t["spec"][2] for t in targets], dtype=float)
        exp["alpha"], exp["theta"], exp["beta"] = a, th, 1.0 / th
        exp["mean"] = np.array([d.mean() for d in dists])
        exp["var"] = np.array([d.var() for d in dists])
        exp["mode"] = (a - 1) * th if np.all(a >= 1) else "raises"
    return exp, dists


def _mode_is_argmax(d, mode):
    m = float(mode)
    return d.pdf(m) >= d.pdf(m * (1 + 1e-3)) and d.pdf(m) >= d.pdf(m * (1 - 1e-3))


def _moments_case(case):
    rows = case["rows"]
    mean, std = [r["mean"] for r in rows], [r["std"] for r in rows]
    if case["fl"] == "re":
        import nifty.re as jft
        if len(rows) == 1:
            got = jft.lognormal_moments(mean[0], std[0])
        else:
            got = jft.lognormal_moments(np.array(mean), np.array(std))
    else:
        import nifty.cl as ift
        N = int(case.get("N", 0))
        if N == 0 or case.get("bcast"):
            got = ift.utilities.lognormal_moments(mean[0], std[0], N)
        else:
            got = ift.utilities.lognormal_moments(mean, std, N)
    return [np.asarray(g, dtype=float).reshape(-1) for g in got]


def run(case):
    import logging
    with warnings.catch_warnings():
        warnings.simplefilter("ignore")
        with np.errstate(all="ignore"):
            if case["fl"] == "cl":
                import nifty.cl as ift
                ift.logger.setLevel(logging.CRITICAL)
            return _run(case)


def _run(case):
    tier = case["tier"]
    tails, qs, xi = R.grid(tier)
    n = len(xi)
    fam, api, fl = case["fam"], case["api"], case["fl"]
    rows = case["rows"]
    Rn = len(rows)
    label = "%s|%s|%s" % (fl, fam, api)

    # ---------------------------------------------------------------- documented rejections
    if case.get("reject"):
        try:
            if api == "moments":
                _moments_case(case)
            else:
                b = (_build_re if fl == "re" else _build_cl)(case, n)
                b.fwd(xi)
        except Exception as e:       # noqa
            if type(e).__name__ == case["reject"]:
                return ok(nontrivial=True, outcome="%s|rejected(%s)" % (label, case["reject"]))
            return bad("invalid parameters %s raised %r instead of the documented %s" % (rows, e, case["reject"]),
                       finding_key=_key(case, "wrong-rejection:%s" % type(e).__name__))
        if not case.get("unsupported"):
            return bad("invalid parameters %s were accepted (documented: %s)" % (rows, case["reject"]),
                       finding_key=_key(case, "accepted-invalid-params"))
        # a documented *limitation* (not an invalid distribution): if a later version accepts it, it must be right

    targets, table, cdf_based = _targets(case)

    # ---------------------------------------------------------------- moment matching
    if api == "moments":
        mu, sg = _moments_case(case)
        Rexp = max(Rn, 1)
        emu, esg = R.lognormal_params([r["mean"] for r in rows], [r["std"] for r in rows])
        for t in targets:
            R.make_dist(t["spec"])            # self-validation of the oracle against scipy's moments
        if mu.shape != (Rexp,) and not (mu.shape == (1,) and Rexp == 1):
            return bad("lognormal_moments returned shape %s for %d parameter rows" % (mu.shape, Rn),
                       finding_key=_key(case, "moments-shape"))
        dev = max(np.abs(mu - emu).max(), np.abs(sg - esg).max())
        if not dev <= 1e3 * R.EPS * (1 + np.abs(emu).max()):
            return bad("lognormal_moments(%s) = (%s, %s), moment matching gives (%s, %s)" % (rows, mu, sg, emu, esg),
                       finding_key=_key(case, "moments-mismatch"))
        return ok(nontrivial=True, outcome=label + "|moment-matching", stats=dict(grid_points=0))

    # ---------------------------------------------------------------- build (every catalogue entry is documented)
    # p-grid and fine monotonicity grid are evaluated in ONE application (one array shape per process keeps the
    # number of XLA compilations small); conventions that take one value per application only see the p-grid
    loop_api = api in ("model-scalar", "transform")
    xd = None if loop_api else R.dense_xi(tier)
    xa = xi if loop_api else np.concatenate([xi, xd])
    try:
        b = (_build_re if fl == "re" else _build_cl)(case, len(xa))
    except Exception as e:       # noqa
        return bad("constructing the transform raised %r" % (e,), finding_key=_key(case, "construction:%s" % type(e).__name__))

    dists = [R.make_dist(t["spec"]) for t in targets]
    Q = np.stack([R.quantiles(d, post, tails, qs) for d, post in dists])
    step = case.get("step") or 1e-2
    tol = np.stack([R.tolerance(d, post, tails, qs, xi, cdf_based=cdf_based, table=table, step=step,
                                loc_scale=t["ls"])[0] for (d, post), t in zip(dists, targets)])
    if fam == "invgamma" and any(t["spec"][3] != 0 for t in targets):
        # a shifted inverse gamma may equally be tabulated as log(Q - loc) (shift applied after the table): the documented
        # accuracy is that of a linear interpolation in either representation
        for i, t in enumerate(targets):
            d0, post0 = R.make_dist(["invgamma", t["spec"][1], t["spec"][2], 0.0])
            p0 = R.tolerance(d0, post0, tails, qs, xi, cdf_based=cdf_based, table=table, step=step, loc_scale=0.0)[1]
            p1 = R.tolerance(dists[i][0], dists[i][1], tails, qs, xi, cdf_based=cdf_based, table=table, step=step,
                             loc_scale=t["ls"])[1]
            tol[i] += np.maximum(0.0, p0["table"] - p1["table"])
    det = dict(rows=rows, step=case.get("step"))
    stats = dict(grid_points=Rn * n)

    # ---------------------------------------------------------------- quantile clause
    ya = np.asarray(b.fwd(xa), dtype=float)
    if ya.shape != (Rn, len(xa)):
        return bad("transform returned shape %s for an input of %s" % (ya.shape, (Rn, len(xa))), finding_key=_key(case, "shape"))
    y, yd = ya[:, :n], (None if loop_api else ya[:, n:])
    if not np.all(np.isfinite(y)):
        i, j = np.argwhere(~np.isfinite(y))[0]
        return bad("transform(%.4g) = %s for parameters %s (%d of %d grid values not finite)"
                   % (xi[j], y[i, j], rows[i], int((~np.isfinite(y)).sum()), y.size),
                   finding_key=_key(case, "non-finite"), detail=det)
    err = np.abs(y - Q)
    ratio = err / tol
    i, j = np.unravel_index(np.argmax(ratio), ratio.shape)
    det.update(worst_ratio=float(ratio[i, j]), worst_p=("1-" if tails[j] == "hi" else "") + "%g" % qs[j])
    if ratio[i, j] > 1:
        zone = "centre" if qs[j] >= 0.05 else ("upper-tail" if tails[j] == "hi" else "lower-tail")
        return bad("transform(Phi^-1(p)) = %.15g but the %s quantile is %.15g at p = %s (xi = %.6g), |diff| = %.3g > tol %.3g; "
                   "parameters %s" % (y[i, j], targets[i]["spec"], Q[i, j], det["worst_p"], xi[j], err[i, j], tol[i, j], rows[i]),
                   finding_key=_key(case, "quantile-mismatch", zone), detail=det)

    # ---------------------------------------------------------------- monotone clause
    d = np.diff(y, axis=1)
    if np.any(d < 0):
        i, j = np.argwhere(d < 0)[0]
        return bad("not monotone on the probability grid: f(%.6g) = %.15g > f(%.6g) = %.15g; parameters %s"
                   % (xi[j], y[i, j], xi[j + 1], y[i, j + 1], rows[i]), finding_key=_key(case, "non-monotone"), detail=det)
    need_strict = np.diff(Q, axis=1) > 2 * (tol[:, 1:] + tol[:, :-1])
    if np.any(need_strict & ~(d > 0)):
        i, j = np.argwhere(need_strict & ~(d > 0))[0]
        return bad("not strictly increasing between p-grid points %d and %d; parameters %s" % (j, j + 1, rows[i]),
                   finding_key=_key(case, "not-strictly-monotone"), detail=det)
    if yd is not None:
        stats["dense_points"] = int(yd.size)
        dd = np.diff(yd, axis=1)
        if not np.all(np.isfinite(yd)):
            i, j = np.argwhere(~np.isfinite(yd))[0]
            return bad("transform(%.6g) = %s; parameters %s" % (xd[j], yd[i, j], rows[i]),
                       finding_key=_key(case, "non-finite"), detail=det)
        if np.any(dd < 0):
            i, j = np.argwhere(dd < 0)[0]
            return bad("not monotone: f(%.6g) = %.17g > f(%.6g) = %.17g; parameters %s"
                       % (xd[j], yd[i, j], xd[j + 1], yd[i, j + 1], rows[i]), finding_key=_key(case, "non-monotone"), detail=det)

    # ---------------------------------------------------------------- inverse clause
    inv_done = inv_refused = False
    if b.inv is not None:
        slope = np.stack([(R.quantile_of_xi(d_, post, xi + 1e-3) - R.quantile_of_xi(d_, post, xi - 1e-3)) / 2e-3
                          for d_, post in dists])
        tol_xi = 2 * tol / np.abs(slope) + 1e3 * R.EPS * (1 + np.abs(xi))
        for what, arg in (("exact-quantiles", Q), ("roundtrip", y)):
            if yd is not None:
                arg = np.concatenate([arg, yd], axis=1)
            try:
                back = np.asarray(b.inv(arg), dtype=float)[:, :n]
            except ValueError:
                if not (fam == "invgamma" and api == "array"):
                    raise
                # only `invgamma_prior` documents array-valued `scale`; the inverse refuses it (raises): not provided
                inv_refused = True
                break
            if back.shape != Q.shape or not np.all(np.isfinite(back)):
                return bad("inverse transform returned non-finite values / wrong shape on %s; parameters %s" % (what, rows),
                           finding_key=_key(case, "inverse-non-finite", what), detail=det)
            r2 = np.abs(back - xi) / tol_xi
            i, j = np.unravel_index(np.argmax(r2), r2.shape)
            if r2[i, j] > 1:
                return bad("inverse(%s) = %.15g, expected xi = %.15g at p = %s%g (|diff| %.3g > tol %.3g); parameters %s"
                           % ("Q(p)" if what == "exact-quantiles" else "forward(xi)", back[i, j], xi[j],
                              "1-" if tails[j] == "hi" else "", qs[j], abs(back[i, j] - xi[j]), tol_xi[i, j], rows[i]),
                           finding_key=_key(case, "inverse-mismatch", what), detail=det)
            det["inv_worst_" + what] = float(r2[i, j])
        inv_done = not inv_refused

    # ---------------------------------------------------------------- classic: same value through a Linearization
    if b.fwd_lin is not None:
        v, jac = b.fwd_lin(xa)
        if not np.array_equal(v, ya):
            return bad("value through a Linearization differs from the plain value by %.3g" % np.abs(v - ya).max(),
                       finding_key=_key(case, "linearization-value-differs"), detail=det)
        # coarse sanity of the Jacobian (exactness of derivatives is C03's subject): wherever the target rises across one
        # table cell by clearly more than the tolerance, the derivative must be positive and of the right magnitude
        slope = np.stack([(R.quantile_of_xi(d_, post, xi + 1e-3) - R.quantile_of_xi(d_, post, xi - 1e-3)) / 2e-3
                          for d_, post in dists])
        jg = jac[:, :n]
        chk = slope * step > 10 * tol
        if np.any(chk & ~((jg >= 0.5 * slope) & (jg <= 2 * slope))):
            i, j = np.argwhere(chk & ~((jg >= 0.5 * slope) & (jg <= 2 * slope)))[0]
            return bad("Jacobian at xi = %.6g is %.6g, the target quantile function has slope %.6g; parameters %s"
                       % (xi[j], jg[i, j], slope[i, j], rows[i]), finding_key=_key(case, "jacobian-sign-or-scale"), detail=det)
        stats["jacobian_points"] = int(chk.sum())

    # ---------------------------------------------------------------- documented statistics of the classic operators
    if b.props:
        exp, ds = _expected_props(case, targets)
        for name, getter in b.props:
            e = exp[name]
            try:
                got = getter()
            except ValueError as ex:
                if isinstance(e, str):
                    continue
                return bad("property %s raised %r although it exists for %s" % (name, ex, rows),
                           finding_key=_key(case, "property-%s-raises" % name))
            if isinstance(e, str):
                return bad("property %s = %s although it does not exist for %s" % (name, got, rows),
                           finding_key=_key(case, "property-%s-should-raise" % name))
            g = _as_rows(got, Rn)
            if not np.all(np.abs(g - e) <= 1e3 * R.EPS * (1 + np.abs(e))):
                return bad("property %s = %s, target distribution has %s; parameters %s" % (name, g, e, rows),
                           finding_key=_key(case, "property-%s" % name))
            if name == "mode" and not all(_mode_is_argmax(d_, m) for d_, m in zip(ds, g)):
                return bad("property mode = %s is not the maximum of the target pdf" % g, finding_key=_key(case, "property-mode"))
        stats["properties"] = len(b.props)

    acc = {None: "exact", "log": "log-table", "lin": "lin-table"}[table]
    return ok(nontrivial=True, outcome="%s|%s%s%s" % (label, acc, "|+inverse" if inv_done else ("|inverse-refuses-array-scale" if inv_refused else ""),
                                                      "|dense-monotone" if yd is not None else ""),
              stats=stats, detail=det)


def finish(run):
    """Vacuity guard: every (flavour, family) of the catalogue produced compared quantiles; every provided inverse ran."""
    need = [("re", f) for f in ("normal", "lognormal", "lognormal-log", "uniform", "laplace", "invgamma")] + \
           [("cl", f) for f in ("normal", "lognormal", "uniform", "laplace", "invgamma", "loginvgamma", "gamma", "beta")]
    have, inv = set(), set()
    for o in run.outcomes:
        p = o.split("|")
        if len(p) >= 4 and p[3] in ("exact", "log-table", "lin-table"):
            have.add((p[0], p[1]))
            if "+inverse" in o:
                inv.add((p[0], p[1]))
    need_inv = [("re", "normal"), ("re", "lognormal"), ("re", "invgamma"), ("cl", "uniform"), ("cl", "laplace")]
    missing = [x for x in need if x not in have] + [x + ("inverse",) for x in need_inv if x not in inv]
    if missing and not run.violations and "filtered_by" not in run.extra:
        run.violations.append((dict(vacuity=[list(m) for m in missing]),
                               bad("no compared quantiles for %s" % missing, finding_key="harness|vacuous-class")))
    return dict(compared_classes=len(have), inverse_classes=len(inv))
