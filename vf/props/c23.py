"""C23 Distributed summation is partition-independent and cannot deadlock.

Mode S: for every weak composition of n summands over k ranks (empty ranks
included) the real `allreduce_sum` runs in k baton threads under SimComm and
ALL interleavings of the ranks' communication steps are explored (DFS with
state matching, validated against the search without state matching at the
smallest bounds), under rendezvous and buffered send semantics.

Plus: TLA+ model of the protocol (models/allreduce.tla) checked by TLC and
bound to the implementation by replaying every edge of TLC's state graph
through SimComm (see vf/tlabind.py).
"""
import itertools
import json

import numpy as np

from vf.core import ok, bad, skip

ID = "C23"
LEVEL = "model_checking"
RULE = ("case = (payload kind, ordered partition of n summands over k ranks incl. empty ranks, send "
        "semantics); each case explores ALL interleavings of the real allreduce_sum under SimComm; "
        "non-trivial = at least one point-to-point message crossed ranks")
ASSUMPTIONS = [
    "simulated communicator (mpi4py surface used by NIFTy); real MPI transport not exercised",
    "collectives modelled as synchronising (real MPI may let the root leave early: strictly more progress)",
    "rank programs are deterministic functions of received messages (validated: per-rank traces are schedule independent)",
]


class Sym:
    """Summand whose sum is the summation tree itself."""

    def __init__(self, s):
        self.s = s

    def __add__(self, o):
        return Sym("(%s+%s)" % (self.s, o.s))

    def __eq__(self, o):
        return isinstance(o, Sym) and o.s == self.s

    def __hash__(self):
        return hash(self.s)

    def __repr__(self):
        return self.s


def compositions(n, k):
    if k == 1:
        yield (n,)
        return
    for a in range(n + 1):
        for rest in compositions(n - a, k - 1):
            yield (a,) + rest


FLOATS = [1e16, 1.0, -1e16, 3.0, 1e-3, -1.0, 2.0 ** 53, 7.0]


def make_summands(kind, n):
    import nifty.cl as ift
    if kind == "sym":
        return [Sym("abcdefghijklmnop"[i]) for i in range(n)]
    if kind == "float":
        return [FLOATS[i % len(FLOATS)] for i in range(n)]
    if kind == "ndarray":
        return [np.array([FLOATS[i % 8], FLOATS[(i + 3) % 8], float(i)]) for i in range(n)]
    if kind == "ndarray0d":
        # zero-dimensional arrays: numpy turns their sums into numpy scalars (value, type and shape must follow the
        # single-process tree)
        return [np.array(FLOATS[i % len(FLOATS)]) for i in range(n)]
    if kind == "ndarray-mixed":
        # summands of different dtypes: the result (value AND dtype) must be that of the single-process tree
        dts = [np.float64, np.float32, np.int64, np.float64, np.float32, np.int64, np.float32, np.float64]
        vals = [0.1, 1.0 / 3.0, 7, 1e8, 2.0 / 3.0, -3, 1e-3, 5.5]
        return [np.array([vals[i % 8], vals[(i + 3) % 8]]).astype(dts[i % 8]) for i in range(n)]
    dom = ift.RGSpace(2)
    if kind == "field":
        return [ift.makeField(dom, np.array([FLOATS[i % 8], FLOATS[(i + 3) % 8]])) for i in range(n)]
    if kind == "multifield":
        return [ift.MultiField.from_dict({"a": ift.makeField(dom, np.array([FLOATS[i % 8], 1. + i])),
                                         "b": ift.makeField(ift.UnstructuredDomain(1), np.array([FLOATS[(i + 3) % 8]]))})
                for i in range(n)]
    raise ValueError(kind)


def canon(v):
    import nifty.cl as ift
    if isinstance(v, Sym):
        return v.s
    if isinstance(v, float):
        return np.float64(v).tobytes().hex()
    if isinstance(v, np.ndarray):
        return (str(v.dtype), v.shape, v.tobytes().hex())
    if isinstance(v, ift.Field):
        return ("F", repr(v.domain), canon(v.asnumpy()))
    if isinstance(v, ift.MultiField):
        return ("MF", tuple((k, canon(v[k])) for k in v.keys()))
    return repr(v)


def cases(tier, seed):
    if tier == "quick":
        specs = [("sym", 6, 3), ("float", 6, 3), ("ndarray", 4, 3), ("ndarray-mixed", 4, 3), ("ndarray0d", 4, 3), ("field", 4, 3),
                 ("multifield", 3, 2), ("sym", 8, 4)]
        sym4 = True
    else:
        specs = [("sym", 8, 4), ("float", 8, 4), ("ndarray", 6, 4), ("ndarray-mixed", 6, 4), ("ndarray0d", 6, 4), ("field", 6, 3),
                 ("multifield", 4, 3), ("sym", 12, 5)]
    out = []
    for kind, nmax, kmax in specs:
        for k in range(1, kmax + 1):
            for n in range(1, nmax + 1):
                if kind == "sym" and kmax >= 4 and tier == "quick" and (k < 4):
                    continue   # covered by the ("sym",6,3) block
                if kind == "sym" and kmax >= 5 and k < 5:
                    continue
                if kind == "sym" and kmax >= 5 and n > 10:
                    continue
                for part in compositions(n, k):
                    for sem in ("rendezvous", "buffered"):
                        out.append(dict(kind=kind, part=list(part), sem=sem))
    # dedupe, simplest first
    seen, res = set(), []
    for c in sorted(out, key=lambda c: (sum(c["part"]) + len(c["part"]), len(c["part"]), c["kind"] != "sym",
                                        c["kind"], c["part"], c["sem"])):
        key = json.dumps(c, sort_keys=True)
        if key not in seen:
            seen.add(key)
            res.append(c)
    return res


def explore_case(case, state_matching=True, max_exec=None):
    from nifty.cl.utilities import allreduce_sum
    from vf import simcomm
    kind, part, sem = case["kind"], case["part"], case["sem"]
    n, k = sum(part), len(part)
    summ = make_summands(kind, n)
    expected = canon(allreduce_sum(list(summ), None))
    offs = np.concatenate([[0], np.cumsum(part)])

    def program(rank, comm):
        mine = make_summands(kind, n)[offs[rank]:offs[rank + 1]]   # fresh objects per execution
        return allreduce_sum(mine, comm)

    def check(x):
        if x.deadlock:
            return "deadlock: pending=%s" % [(q.kind, q.peer) if q is not None else None for q in x.pending]
        for r in range(k):
            if x.errors[r] is not None:
                return "rank %d raised %r" % (r, x.errors[r])
        if x.leftover:
            return "messages left in channels: %s" % x.leftover
        for r in range(k):
            got = canon(x.results[r])
            if got != expected:
                return "rank %d returned %s, single-process sum is %s" % (r, str(got)[:200], str(expected)[:200])
        return None

    st = simcomm.explore(k, program, sem, check, state_matching=state_matching, max_exec=max_exec)
    return st, expected


def run(case):
    st, expected = explore_case(case)
    part = case["part"]
    stats = dict(states=st["states"], transitions=st["transitions"], executions=st["executions"])
    if st["violations"]:
        v = st["violations"][0]
        return bad(v["what"], finding_key=None, detail=v, stats=stats)
    if len(st["rank_traces"]) != 1:
        return bad("per-rank communication trace depends on the schedule (%d distinct)" % len(st["rank_traces"]),
                   stats=stats)
    # validate state matching at small bounds: same outcome sets without it
    if sum(part) <= 4 and len(part) <= 3 and case["kind"] in ("sym", "float", "ndarray"):
        st2, _ = explore_case(case, state_matching=False, max_exec=20000)
        if st2["capped"]:
            return bad("unmatched exploration capped (harness bound)", finding_key="harness-cap", stats=stats)
        if st2["violations"] or st2["deadlocks"] != st["deadlocks"] or st2["rank_traces"] != st["rank_traces"]:
            return bad("state matching changes the verdict", stats=stats)
        stats["unmatched_executions"] = st2["executions"]
    nonempty = sum(1 for p in part if p > 0)
    crossing = nonempty > 1
    return ok(nontrivial=crossing,
              outcome="k=%d,nonempty=%d,maxen=%d" % (len(part), nonempty, st["max_enabled"]),
              stats=stats, detail=dict(tree=str(expected)[:120], executions=st["executions"],
                                       states=st["states"]))


def finish(run):
    """TLA+ model + conformance (binding the model to the code)."""
    from vf import tlabind
    extra, viol = tlabind.check(run.tier)
    for v in viol:
        run.violations.append((dict(tla=v[:300]), bad(v, finding_key=None)))
    extra["states"] = int(run.extra.get("states", 0)) + extra["tlc_states"]
    extra["transitions"] = int(run.extra.get("transitions", 0)) + extra["tlc_transitions"]
    extra["impl_states"] = int(run.extra.get("states", 0))
    extra["impl_transitions"] = int(run.extra.get("transitions", 0))
    extra["impl_executions"] = int(run.extra.get("executions", 0))
    return extra
