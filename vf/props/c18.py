"""C18 Variational (MGVI / geoVI) samples have the right distribution.

Mode P through the RNG seam (DESIGN 2.4).  Every normal draw the samplers make is served from a scripted
tape xi; running a sampler once per unit vector of its tape gives the exact matrix L with
residual = L xi, so the distributional claim becomes the algebraic identity  L L^T = M(pos)^-1  with
M = J^T N^-1 J + 1 taken from an independent closed-form numpy model (vf/ref/c18_models.py).  Decided per case:

  classic  SampledKLEnergy(position, H, n_samples, minimizer_sampling, mirror, constants, point_estimates, napprox)
      zero excitation -> every sample IS the position (bit level), .mean is the position, samples of different
      seeds use disjoint tape blocks (independent), per-sample covariance = M_SS^-1 on the sampled keys S, exact
      zero residual on point-estimated keys, mirrored partner = negative, average() = position, a
      preconditioner (napprox) does not change the distribution.  geoVI (minimizer_sampling): linear models give
      the MGVI law; nonlinear models: y = g(x) - g(pos) (g = reference coordinate transformation) is linear in xi
      with covariance exactly M_SS and mirrored partners have -y (defining equation of the geoVI sample).
  JAX      draw_linear_residual (inverse / metric sample), OptimizeVI.draw_samples in every sample mode
      (resample draws fresh noise, *_sample re-uses the keys = same residuals, a changed n_samples forces fresh
      keys, n_samples=0 leaves the samples alone), mirrored residuals are bit-exact negatives, point-estimated
      leaves are exact zeros, nonlinearly_update / nonlinear_* modes / draw_residual satisfy
      g(pos + r_nl) - g(pos) = M r_lin per tape (for linear models r_nl = r_lin).
"""
import os
import time

import numpy as np

from vf.core import ok, bad, skip
from vf.ref import c18_models as M

ID = "C18"
LEVEL = "exploration"
JAX = True
RULE = ("case = (model spec with all numbers written out: key layout x response shape (full / rank-deficient / wide / tall / "
        "zero row / zero column / zero) x per-key nonlinearity (id / exp) x amplitude key x noise, flavour, API, mirror, "
        "n_samples, every (constants, point_estimates) split of the keys, napprox, MGVI/geoVI); full product of the "
        "alphabets listed in cases(); per case the sampler runs on EVERY unit vector of its excitation tape (exact L). "
        "non-trivial = scripted draws happened, at least one key was sampled and its exact covariance (or the geoVI "
        "defining equation) was compared with the reference")
ASSUMPTIONS = [
    "all normal draws flow through nifty.cl.random._rng[-1].normal (classic) / nifty.re random_like (JAX); for JAX the "
    "same PRNG key returns the same draw and distinct keys return fresh tape entries (counter-based PRNG semantics)",
    "Gaussianity follows from linearity in the white excitation (checked on the probes 2e_0 and one generic vector)",
    "numeric values are alphabet values (response singular values in [0.3,4], noise variances in [0.1,2], |pos|<=1, "
    "exp(0.4 x) / exp(0.3 z) nonlinearities); structure is exhaustive",
    "classic CG: GradientNormController(tol_abs_gradnorm=1e-13); JAX CG: resnorm=1e-12; compared at 1e-9 * scale",
    "geoVI minimisers: classic NewtonCG(tol_abs_gradnorm=1e-10), JAX newton_cg(xtol=1e-11); compared at 1e-6 * scale",
    "nonlinear geoVI samples are checked for their defining equation (pre-image of an exact N(0,M) variable), not for a law",
    "JAX residual_map is a Python loop (vmap/lmap would trace the scripted draw once); linear/nonlinear minimiser jit is off",
]

TOL_LIN = 1e-9
TOL_MIN = 1e-6
EPS = np.finfo(np.float64).eps


# =====================================================================================
#                                   case catalogue
# =====================================================================================
def _models(tier, seed, flavour):
    """-> list of spec.  Full products of the stated alphabets."""
    out = []
    if tier == "quick":
        plan = [("F3", ("full", "rankdef"), [("lin",), ("exp",)], ("diag",), (False,)),
                ("a2b1", ("full", "rankdef", "wide"), [("lin", "lin"), ("lin", "exp")], ("diag",), (False,)),
                ("a2b1", ("full",), [("lin", "lin")], ("diag",), (True,))]
    else:
        plan = [("F3", M.RSHAPES, [("lin",), ("exp",)], ("diag", "scalar"), (False,)),
                ("F2", ("full", "rankdef", "wide", "tall"), [("lin",), ("exp",)], ("diag",), (False,)),
                ("a2", ("full", "rankdef"), [("lin",), ("exp",)], ("diag",), (False,)),
                ("a2b1", M.RSHAPES, [("lin", "lin"), ("lin", "exp"), ("exp", "lin"), ("exp", "exp")], ("diag", "scalar"), (False,)),
                ("a1b2", ("full", "rankdef", "wide", "tall"), [("lin", "lin"), ("exp", "lin")], ("diag",), (False,)),
                ("a2b1", ("full", "rankdef"), [("lin", "lin"), ("lin", "exp")], ("diag",), (True,)),
                ("a1b1c1", ("full", "rankdef", "wide"), [("lin", "lin", "lin"), ("lin", "exp", "lin")], ("diag",), (False,))]
    var = 0
    for layout, rshapes, nls, noises, amps in plan:
        for rs in rshapes:
            for nl in nls:
                for noise in noises:
                    for amp in amps:
                        var += 1
                        out.append(M.make_spec(M.Fill(seed, var, salt=1800), layout, rs, nl, noise, amp))
    return out


def _splits(spec, tier):
    """every (point_estimates, constants) split of the keys; point estimates must leave something to sample."""
    keys = M.all_keys(spec)
    if spec["field"]:
        return [([], [])]
    res = []
    for pe in M.subsets(keys, proper=True):
        for const in M.subsets(keys):
            res.append((pe, const))
    return res


def cases(tier, seed):
    out = []
    # ---------------- classic
    for spec in _models(tier, seed, "cl"):
        three = len(M.all_keys(spec)) >= 3
        for pe, const in _splits(spec, tier):
            for mirror in (True, False):
                for ns in ((2,) if (three and tier == "quick") else (1, 2)):
                    for napprox in ((0,) if three else (0, 2)):
                        for geo in (False, True):
                            out.append(dict(flavour="cl", api="SampledKLEnergy", model=spec, pe=pe, const=const,
                                            mirror=mirror, ns=ns, napprox=napprox, geo=geo))
        # napprox = 1 (documented range "int", code path napprox >= 1): one representative per model
        out.append(dict(flavour="cl", api="SampledKLEnergy", model=spec, pe=[], const=[], mirror=True, ns=1, napprox=1,
                        geo=False))
    # ---------------- JAX
    for spec in _models(tier, seed, "re"):
        keys = M.all_keys(spec)
        lin = M.is_linear(spec)
        pes = [[]] if spec["field"] else M.subsets(keys, proper=True)
        for pe in pes:
            for fi in (True, False):
                for jit in ((False,) if tier == "quick" else (False, True)):
                    out.append(dict(flavour="re", api="draw_linear_residual", model=spec, pe=pe, from_inverse=fi, jit=jit))
            for ns in (1, 2):
                out.append(dict(flavour="re", api="ovi_linear", model=spec, pe=pe, ns=ns, jit=False))
            small = len(pe) <= 1 and (tier != "quick" or spec["name"].split("|")[1] in ("full", "wide"))
            if small:
                out.append(dict(flavour="re", api="ovi_modes", model=spec, pe=pe, jit=True))
            if tier != "quick" or spec["name"].split("|")[1] in ("full", "rankdef"):
                out.append(dict(flavour="re", api="ovi_nonlinear", model=spec, pe=pe, jit=True))
                if len(pe) <= 1:
                    out.append(dict(flavour="re", api="draw_residual", model=spec, pe=pe, jit=True))

    def cost(c):
        r = M.Ref(c["model"])
        return (0 if c["flavour"] == "cl" else 1, len(r.keys), r.n, 0 if M.is_linear(c["model"]) else 1, len(c["pe"]),
                len(c.get("const", [])), int(bool(c.get("geo"))), c.get("napprox", 0), c.get("ns", 1), c["api"], c["model"]["name"])
    out.sort(key=cost)
    return out


# =====================================================================================
#                                   helpers
# =====================================================================================
def _where(e):
    import traceback
    loc = "?"
    for fs in traceback.extract_tb(e.__traceback__):
        if os.sep + "nifty" + os.sep in fs.filename:
            loc = "%s:%s" % (os.path.basename(fs.filename), fs.name)
    return loc


def _mclass(spec):
    return ("linear" if M.is_linear(spec) else "nonlinear") + ("|field" if spec["field"] else "|multi")


def _rs(spec):
    return spec["name"].split("|")[1]


def _scale(A):
    return max(1., float(np.abs(A).max(initial=0.)))


def run(case):
    t0 = time.process_time()
    out = _run_cl(case) if case["flavour"] == "cl" else _run_re(case)
    st = out.get("stats")
    if not isinstance(st, dict):
        st = out["stats"] = {}
    st["cpu_s"] = round(time.process_time() - t0, 4)
    return out


# =====================================================================================
#                                   classic
# =====================================================================================
def _run_cl(case):
    import nifty.cl as ift
    from vf import rngseam
    M.quiet_cl()
    spec = case["model"]
    b = M.build_cl(spec)
    ref = b["ref"]
    p = ref.p
    pe, const = list(case["pe"]), list(case["const"])
    mirror, ns, napprox, geo = bool(case["mirror"]), int(case["ns"]), int(case["napprox"]), bool(case["geo"])
    S = ref.not_idx(pe)
    nS = len(S)
    mult = 2 if mirror else 1
    nsmp = ns * mult
    lin = M.is_linear(spec)
    cfg = "%s|%s%s%s" % ("geo" if geo else "mgvi", "mirror" if mirror else "nomirror",
                         "|pe" if pe else "", "|napprox" if napprox else "")
    kcfg = "geo" if geo else "mgvi"
    ic = ift.GradientNormController(tol_abs_gradnorm=1e-13, iteration_limit=300)
    H = ift.StandardHamiltonian(b["lh"], ic, prior_sampling_dtype=np.float64)
    kw = dict(mirror_samples=mirror, napprox=napprox)
    if not spec["field"]:
        kw.update(constants=const, point_estimates=pe)

    def make(geo_, napprox_=None):
        mini = ift.NewtonCG(ift.GradientNormController(tol_abs_gradnorm=1e-10, iteration_limit=200)) if geo_ else None
        k2 = dict(kw)
        if napprox_ is not None:
            k2["napprox"] = napprox_
        return ift.SampledKLEnergy(b["pos"], H, ns, mini, **k2)

    struct = {}

    def flat(e):
        sl = e.samples
        vs = []
        doms_ok = True
        for s in sl.iterator():
            doms_ok = doms_ok and (s.domain is b["pos"].domain)
            vs.append(M.cl_flat(s, ref.keys))
        struct.update(n=sl.n_samples, doms_ok=doms_ok, mean=M.cl_flat(sl.mean, ref.keys), nloc=len(vs),
                      avg=M.cl_flat(sl.average(), ref.keys))
        ys = [ref.geo(v, p, S) for v in vs] if (geo and all(v.size == ref.n for v in vs)) else []
        return np.concatenate(vs + ys)

    # ---- number of scripted scalars that belong to the preconditioner estimate (generic prefix)
    prefix = None
    try:
        if napprox:
            n0 = rngseam.measure(lambda: make(geo, 0))[0]
            t = rngseam.Tape(np.random.default_rng([1801, napprox]).normal(size=4000))
            with rngseam.scripted_cl(t):
                make(geo)
            prefix = np.random.default_rng([1802, napprox]).normal(size=t.pos - n0)
        r = M.tape_map(lambda: make(geo), flat, rngseam.scripted_cl, prefix=prefix)
    except Exception as e:   # noqa
        if isinstance(e, RuntimeError) and ("tape exhausted" in str(e) or "number of draws depends" in str(e)):
            return bad("number of normal draws depends on the drawn values: %s" % e,
                       finding_key="cl|SampledKLEnergy|draw-count-not-deterministic|" + kcfg)
        if napprox == 1 and isinstance(e, (ValueError, NotImplementedError)) and str(e):
            return skip("napprox=1 rejected with an explanatory error")
        why = cfg + (" napprox=%d" % napprox if napprox else "")
        loc = _where(e)
        dom = "any-domain" if loc.endswith(":var") else ("field" if spec["field"] else "multi")
        # the root cause is identified by where the exception comes from (the preconditioner estimate or the sampler)
        ctx = "napprox" if loc.startswith("probing.py") else kcfg + ("|pe" if pe else "")
        return bad("SampledKLEnergy(%s, %s position) raised %r in %s" % (
            why, "Field" if spec["field"] else "MultiField", e, loc),
            finding_key="cl|SampledKLEnergy|raises|%s|%s|%s@%s" % (ctx, dom, type(e).__name__, loc),
            detail=dict(model=spec["name"]))
    stats = dict(basis_runs=r["n"] + 3, excitation_dim=r["n"])
    det = dict(model=spec["name"], cfg=cfg, ndraw=r["n"], log=r["log"][:12])
    n = ref.n
    if struct["n"] != nsmp or struct["nloc"] != nsmp:
        return bad("sample list has %d samples, expected %d" % (struct["n"], nsmp),
                   finding_key="cl|%s|sample-count" % kcfg, detail=det)
    if r["off"].size != nsmp * n + (nsmp * nS if geo else 0) or not struct["doms_ok"]:
        return bad("samples do not live on the domain of the position", finding_key="cl|%s|sample-domain" % kcfg, detail=det)
    if not np.array_equal(struct["mean"], p):
        return bad(".samples.mean is not the expansion point", finding_key="cl|%s|mean-not-position" % kcfg, detail=det)
    if r["n"] == 0 or r["n"] % ns:
        return bad("%d scripted normals for %d independent samples" % (r["n"], ns),
                   finding_key="cl|%s|draw-count" % kcfg, detail=det)
    blk = r["n"] // ns
    X0 = r["off"][:nsmp * n].reshape(nsmp, n)
    Lx = r["L"][:nsmp * n].reshape(nsmp, n, r["n"])
    rx = r["resid_vec"][:nsmp * n].reshape(nsmp, n)
    # ---- zero excitation: every sample is the expansion point
    d0 = float(np.abs(X0 - p[None]).max())
    if (d0 != 0. and not geo) or d0 > 1e-12:
        return bad("sample at zero excitation differs from the expansion point by %.3g" % d0,
                   finding_key="cl|%s|nonzero-mean" % kcfg, detail=det)
    Mfull = ref.metric(p)
    MSS = Mfull[np.ix_(S, S)]
    Minv = np.linalg.inv(MSS)
    notS = np.setdiff1d(np.arange(n), S)
    tol = TOL_MIN if geo else TOL_LIN
    # ---- point-estimated keys: exact zero residual
    if notS.size and np.abs(Lx[:, notS, :]).max(initial=0.) != 0.:
        return bad("point-estimated key has a non-zero residual (%.3g)" % np.abs(Lx[:, notS, :]).max(),
                   finding_key="cl|%s|pe-residual-nonzero" % kcfg, detail=det)
    worst = 0.
    for i in range(nsmp):
        j = i // mult
        own = np.zeros(r["n"], dtype=bool)
        own[j * blk:(j + 1) * blk] = True
        if np.abs(Lx[i][:, ~own]).max(initial=0.) != 0.:
            return bad("sample %d depends on the excitation of another sample (not independent)" % i,
                       finding_key="cl|%s|samples-not-independent" % kcfg, detail=det)
        A = Lx[i][np.ix_(S, np.where(own)[0])]
        if lin or not geo:
            if rx[i].max(initial=0.) > tol * _scale(Minv):
                return bad("residual is not linear in the excitation (%.3g): not Gaussian" % rx[i].max(),
                           finding_key="cl|%s|nonlinear-in-excitation" % kcfg, detail=det)
            dev = float(np.abs(A @ A.T - Minv).max())
            worst = max(worst, dev)
            if not dev <= tol * _scale(Minv):
                return bad("covariance of sample %d differs from the inverse metric M(pos)^-1 by %.3g "
                           "(|M^-1|max %.3g; %s model, response %s)" % (i, dev, np.abs(Minv).max(), _mclass(spec), _rs(spec)),
                           finding_key="cl|%s|cov-mismatch|%s" % (kcfg, "linear" if lin else "nonlinear"), detail=det)
        if mirror and i % 2 == 1 and (lin or not geo):
            dm = float(np.abs(Lx[i] + Lx[i - 1]).max())
            lim = (TOL_MIN if geo else 16 * EPS) * _scale(np.abs(Lx[i]) + np.abs(p)[:, None])
            if dm > lim:
                return bad("mirrored sample is not the negative of its partner (%.3g)" % dm,
                           finding_key="cl|%s|mirror-not-negative" % kcfg, detail=det)
    if geo and not lin:
        Y0 = r["off"][nsmp * n:].reshape(nsmp, nS)
        Ly = r["L"][nsmp * n:].reshape(nsmp, nS, r["n"])
        ry = r["resid_vec"][nsmp * n:].reshape(nsmp, nS)
        sc = _scale(MSS)
        if np.abs(Y0).max(initial=0.) > 1e-12:
            return bad("geoVI: g(sample) - g(pos) at zero excitation is %.3g" % np.abs(Y0).max(),
                       finding_key="cl|%s|geo-nonzero-mean" % kcfg, detail=det)
        for i in range(nsmp):
            j = i // mult
            own = np.zeros(r["n"], dtype=bool)
            own[j * blk:(j + 1) * blk] = True
            if ry[i].max(initial=0.) > TOL_MIN * sc:
                return bad("geoVI: g(sample) - g(pos) is not linear in the excitation (%.3g)" % ry[i].max(),
                           finding_key="cl|%s|geo-y-not-gaussian" % kcfg, detail=det)
            A = Ly[i][:, own]
            dev = float(np.abs(A @ A.T - MSS).max())
            worst = max(worst, dev)
            if not dev <= TOL_MIN * sc:
                return bad("geoVI: covariance of g(sample) - g(pos) differs from the metric M(pos) by %.3g" % dev,
                           finding_key="cl|%s|geo-y-cov-mismatch" % kcfg, detail=det)
            if mirror and i % 2 == 1 and np.abs(Ly[i] + Ly[i - 1]).max() > TOL_MIN * sc:
                return bad("geoVI: mirrored sample does not solve g(x) - g(pos) = -y (%.3g)" % np.abs(Ly[i] + Ly[i - 1]).max(),
                           finding_key="cl|%s|geo-mirror" % kcfg, detail=det)
    # ---- sample average = expansion point (mirrored), on the generic probe tape
    if mirror and (lin or not geo):
        xi = M.generic_tape(r["n"])
        r["at"](xi)
        da = float(np.abs(struct["avg"] - p).max())
        lim = (TOL_MIN if geo else 16 * EPS) * _scale(np.abs(Lx).sum(axis=2))
        if da > lim:
            return bad("average of the mirrored samples differs from the expansion point by %.3g" % da,
                       finding_key="cl|%s|average-not-position" % kcfg, detail=det)
    det["cov_err"] = worst
    stats.update(mirrored=int(mirror), invariant_keys=int(bool(set(pe) & set(const))), rankdef=int(_rs(spec) != "full"))
    cfg2 = "%s%s%s" % ("geo" if geo else "mgvi", "|pe" if pe else "", "|napprox" if napprox else "")
    return ok(nontrivial=nS > 0, outcome="cl|%s|%s" % (_mclass(spec), cfg2), stats=stats, detail=det)


# =====================================================================================
#                                   JAX
# =====================================================================================
CGK = dict(resnorm=1e-12, miniter=1, maxiter=200)
MINK = dict(xtol=1e-11, maxiter=60, cg_kwargs=dict(resnorm=1e-13, miniter=1, maxiter=200))


def _run_re(case):
    import jax
    import nifty.re as jft
    M.quiet_re()
    spec = case["model"]
    api = case["api"]
    b = M.build_re(spec)
    ref, lh, pos = b["ref"], b["lh"], b["pos"]
    p = ref.p
    n = ref.n
    pe = tuple(case["pe"])
    S = ref.not_idx(pe)
    notS = np.setdiff1d(np.arange(n), S)
    nS = len(S)
    lin = M.is_linear(spec)
    jit = bool(case.get("jit"))
    cfg = "%s%s" % (api, "|pe" if pe else "")
    key = jax.random.PRNGKey(1800 + len(pe))
    det = dict(model=spec["name"])
    Mp = ref.metric(p)
    MSS = Mp[np.ix_(S, S)]
    Minv = np.linalg.inv(MSS)

    def fail(e):
        if isinstance(e, M.KeyReuse):
            return bad(str(e), finding_key="re|%s|prng-key-reused" % cfg, detail=det)
        if isinstance(e, RuntimeError) and ("tape exhausted" in str(e) or "number of draws depends" in str(e)):
            return bad("number of normal draws depends on the drawn values: %s" % e,
                       finding_key="re|%s|draw-count-not-deterministic" % cfg, detail=det)
        return bad("%s raised %r in %s" % (api, e, _where(e)),
                   finding_key="re|%s|raises|%s@%s" % (cfg, type(e).__name__, _where(e)), detail=det)

    def pe_shape_label(x):
        if not pe:
            return ""
        t = getattr(x, "tree", x)
        full = all(tuple(np.shape(t[k]))[-1:] == (ref.size[k],) for k in pe)
        return "|pe-leaf-full" if full else "|pe-leaf-broadcast"

    # ------------------------------------------------------------------ draw_linear_residual
    if api == "draw_linear_residual":
        fi = bool(case["from_inverse"])
        info = {}

        def runf():
            s, i = jft.draw_linear_residual(lh, pos, key, from_inverse=fi, point_estimates=pe, cg_kwargs=CGK, jit_metric=jit)
            info["i"] = i
            info["s"] = s
            return s
        try:
            r = M.tape_map(runf, lambda s: M.re_flat(s, ref), M.scripted_re_keyed)
        except Exception as e:   # noqa
            return fail(e)
        det.update(ndraw=r["n"], log=r["log"])
        T = Minv if fi else MSS
        sc = _scale(T)
        if r["n"] == 0:
            return bad("no normal draw was made", finding_key="re|%s|no-draws" % cfg, detail=det)
        if np.abs(r["off"]).max(initial=0.) != 0.:
            return bad("residual at zero excitation is %.3g" % np.abs(r["off"]).max(), finding_key="re|%s|nonzero-mean" % cfg, detail=det)
        if notS.size and np.abs(r["L"][notS]).max(initial=0.) != 0.:
            return bad("point-estimated key has a non-zero residual", finding_key="re|%s|pe-residual-nonzero" % cfg, detail=det)
        if r["resid"] > TOL_LIN * sc:
            return bad("residual not linear in the excitation (%.3g)" % r["resid"], finding_key="re|%s|nonlinear-in-excitation" % cfg, detail=det)
        if fi and (info["i"] is None or int(info["i"]) != 0):
            return bad("CG status %r for a 3..5 dimensional SPD system" % (info["i"],), finding_key="re|%s|cg-status" % cfg, detail=det)
        A = r["L"][S]
        dev = float(np.abs(A @ A.T - T).max())
        if not dev <= TOL_LIN * sc:
            return bad("covariance of the %s differs from %s by %.3g (%s, response %s)" % (
                "linear residual" if fi else "metric sample", "M(pos)^-1" if fi else "M(pos)", dev, _mclass(spec), _rs(spec)),
                finding_key="re|%s|cov-mismatch|%s" % (cfg, "inverse" if fi else "metric"), detail=det)
        return ok(nontrivial=nS > 0, outcome="re|%s|%s|%s|%s%s" % (
            _mclass(spec), cfg, "inverse" if fi else "metric", "jit" if jit else "eager", pe_shape_label(info["s"])),
            stats=dict(basis_runs=r["n"] + 3, excitation_dim=r["n"]), detail=dict(det, cov_err=dev))

    ovi = jft.OptimizeVI(lh, 1, jit=jit, linear_minimizer_jit=False, nonlinear_minimizer_jit=False, residual_map=M.pymap)
    empty = jft.Samples(pos=pos, samples=None, keys=None)
    dlk = dict(cg_kwargs=CGK)
    nlk = dict(minimize_kwargs=MINK)

    def draw(smp, k, mode, ns):
        return ovi.draw_samples(smp, key=k, sample_mode=mode, n_samples=ns, point_estimates=pe,
                                draw_linear_kwargs=dlk, nonlinearly_update_kwargs=nlk)

    def resid(smp):
        return M.re_flat(smp._samples, ref, 1)          # (2 ns, n)

    # ------------------------------------------------------------------ OptimizeVI linear sampling
    if api == "ovi_linear":
        ns = int(case["ns"])
        hold = {}

        def runf():
            s, st = draw(empty, key, "linear_resample", ns)
            hold["s"] = s
            return s
        try:
            r = M.tape_map(runf, lambda s: resid(s).ravel(), M.scripted_re_keyed)
        except Exception as e:   # noqa
            return fail(e)
        det.update(ndraw=r["n"], log=r["log"])
        s = hold["s"]
        if len(s) != 2 * ns or r["off"].size != 2 * ns * n:
            return bad("%d samples for n_samples=%d (always mirrored)" % (len(s), ns), finding_key="re|%s|sample-count" % cfg, detail=det)
        if not np.array_equal(M.re_flat(s.pos, ref), p):
            return bad("Samples.pos is not the expansion point", finding_key="re|%s|mean-not-position" % cfg, detail=det)
        if np.shape(s.keys)[0] != ns:
            return bad("%d keys stored for %d samples" % (np.shape(s.keys)[0], ns), finding_key="re|%s|keys" % cfg, detail=det)
        if r["n"] == 0 or r["n"] % ns:
            return bad("%d scripted normals for %d samples" % (r["n"], ns), finding_key="re|%s|draw-count" % cfg, detail=det)
        if np.abs(r["off"]).max(initial=0.) != 0.:
            return bad("residual at zero excitation is %.3g" % np.abs(r["off"]).max(), finding_key="re|%s|nonzero-mean" % cfg, detail=det)
        blk = r["n"] // ns
        L = r["L"].reshape(2 * ns, n, r["n"])
        if notS.size and np.abs(L[:, notS]).max(initial=0.) != 0.:
            return bad("point-estimated key has a non-zero residual", finding_key="re|%s|pe-residual-nonzero" % cfg, detail=det)
        if r["resid"] > TOL_LIN * _scale(Minv):
            return bad("residual not linear in the excitation (%.3g)" % r["resid"], finding_key="re|%s|nonlinear-in-excitation" % cfg, detail=det)
        worst = 0.
        for i in range(2 * ns):
            j = i // 2
            own = np.zeros(r["n"], dtype=bool)
            own[j * blk:(j + 1) * blk] = True
            if np.abs(L[i][:, ~own]).max(initial=0.) != 0.:
                return bad("sample %d depends on the excitation of another sample" % i, finding_key="re|%s|samples-not-independent" % cfg, detail=det)
            A = L[i][np.ix_(S, np.where(own)[0])]
            dev = float(np.abs(A @ A.T - Minv).max())
            worst = max(worst, dev)
            if not dev <= TOL_LIN * _scale(Minv):
                return bad("covariance of sample %d differs from M(pos)^-1 by %.3g" % (i, dev), finding_key="re|%s|cov-mismatch" % cfg, detail=det)
            if i % 2 == 1 and not np.array_equal(L[i], -L[i - 1]):
                return bad("mirrored residual is not the exact negative of its partner", finding_key="re|%s|mirror-not-negative" % cfg, detail=det)
        # samples = pos + residual and their mean is the position (generic tape)
        r["at"](M.generic_tape(r["n"]))
        s = hold["s"]
        full = M.re_flat(s.samples, ref, 1)
        rr = resid(s)
        lim = 16 * EPS * _scale(np.abs(rr) + np.abs(p)[None])
        if np.abs(full - (p[None] + rr)).max() > lim or np.abs(full.mean(axis=0) - p).max() > lim:
            return bad("Samples.samples is not pos + residual / its mean is not pos", finding_key="re|%s|average-not-position" % cfg, detail=det)
        it = np.array([M.re_flat(x, ref) for x in s])
        if np.abs(it - full).max() > lim:
            return bad("iterating Samples differs from Samples.samples", finding_key="re|%s|iteration" % cfg, detail=det)
        return ok(nontrivial=nS > 0, outcome="re|%s|%s%s" % (_mclass(spec), cfg, pe_shape_label(s._samples)),
                  stats=dict(basis_runs=r["n"] + 4, excitation_dim=r["n"]), detail=dict(det, cov_err=worst))

    # ------------------------------------------------------------------ sample-mode history
    if api == "ovi_modes":
        k1, k2, k3, k4, k5 = jax.random.split(key, 5)
        newp = p + 0.3 * np.cos(1. + np.arange(n))
        newpos = M.re_unflat(newp, ref, pos)
        hold = {}

        def runf():
            s1, _ = draw(empty, k1, "linear_resample", 1)
            s2, _ = draw(s1, k2, "linear_sample", 1)              # same keys -> same residuals
            s3, _ = draw(s2.at(newpos), k3, "linear_resample", 1)    # fresh noise, moved expansion point
            s4, _ = draw(s3, k4, "linear_sample", 2)              # n_samples changed -> fresh keys
            s5, _ = draw(s4, k5, "linear_resample", 0)            # MAP: nothing happens
            hold.update(s=(s1, s2, s3, s4, s5))
            return np.concatenate([resid(s).ravel() for s in (s1, s2, s3, s4, s5)])
        try:
            r = M.tape_map(runf, lambda v: v, M.scripted_re_keyed)
        except Exception as e:   # noqa
            return fail(e)
        det.update(ndraw=r["n"], log=r["log"])
        if r["n"] == 0 or r["n"] % 4 or r["off"].size != (2 + 2 + 2 + 4 + 4) * n:
            return bad("%d scripted normals / %d outputs for the history resample(1), sample(1), resample(1), sample(2), MAP"
                       % (r["n"], r["off"].size), finding_key="re|%s|draw-count" % cfg, detail=det)
        blk = r["n"] // 4
        L = r["L"].reshape(14, n, r["n"])
        L1, L2, L3, L4, L5 = L[0:2], L[2:4], L[4:6], L[6:10], L[10:14]
        if np.abs(r["off"]).max(initial=0.) != 0.:
            return bad("residual at zero excitation is not zero", finding_key="re|%s|nonzero-mean" % cfg, detail=det)
        if not np.array_equal(L1, L2):
            return bad("'linear_sample' with unchanged n_samples did not reproduce the residuals of the stored keys",
                       finding_key="re|%s|sample-mode-not-reproducing" % cfg, detail=det)
        if not np.array_equal(L4, L5):
            return bad("n_samples=0 changed the samples", finding_key="re|%s|map-changed-samples" % cfg, detail=det)
        s1, s2, s3, s4, s5 = hold["s"]
        if not (np.array_equal(M.re_flat(s3.pos, ref), newp) and np.array_equal(M.re_flat(s4.pos, ref), newp)):
            return bad("samples drawn after .at(new) are not positioned at the new expansion point",
                       finding_key="re|%s|mean-not-position" % cfg, detail=det)
        Mn = ref.metric(newp)[np.ix_(S, S)]
        Mninv = np.linalg.inv(Mn)
        plan = [(L1[0], 0, Minv, "resample"), (L3[0], 1, Mninv, "resample-moved"), (L4[0], 2, Mninv, "sample-n-changed"),
                (L4[2], 3, Mninv, "sample-n-changed")]
        for Li, j, T, lab in plan:
            own = np.zeros(r["n"], dtype=bool)
            own[j * blk:(j + 1) * blk] = True
            if np.abs(Li[:, ~own]).max(initial=0.) != 0.:
                return bad("%s: sample re-uses excitation of an earlier draw (not fresh / not independent)" % lab,
                           finding_key="re|%s|not-fresh|%s" % (cfg, lab), detail=det)
            A = Li[np.ix_(S, np.where(own)[0])]
            dev = float(np.abs(A @ A.T - T).max())
            if not dev <= TOL_LIN * _scale(T):
                return bad("%s: covariance differs from M(pos)^-1 at the current expansion point by %.3g" % (lab, dev),
                           finding_key="re|%s|cov-mismatch|%s" % (cfg, lab), detail=det)
        if r["resid"] > TOL_LIN * _scale(Minv):
            return bad("residual not linear in the excitation (%.3g)" % r["resid"], finding_key="re|%s|nonlinear-in-excitation" % cfg, detail=det)
        for Lm in (L1, L3, L4[0:2], L4[2:4]):
            if not np.array_equal(Lm[1], -Lm[0]):
                return bad("mirrored residual is not the exact negative", finding_key="re|%s|mirror-not-negative" % cfg, detail=det)
        return ok(nontrivial=nS > 0, outcome="re|%s|%s" % (_mclass(spec), cfg),
                  stats=dict(basis_runs=r["n"] + 3, excitation_dim=r["n"]), detail=det)

    # ------------------------------------------------------------------ geoVI: per-tape defining equation
    newp = p + 0.25 * np.cos(2. + np.arange(n))
    newp[notS] = p[notS]
    newpos = M.re_unflat(newp, ref, pos)

    def geo_dev(x_full, centre, r_lin):
        """| g_c(x) - g_c(c)  -  M(c) r_lin |  on the sampled indices"""
        y = ref.geo(x_full, centre, S)
        return float(np.abs(y - ref.metric(centre)[np.ix_(S, S)] @ r_lin[S]).max())

    if api == "ovi_nonlinear":
        def runf():
            sl, _ = draw(empty, key, "linear_resample", 1)
            sn, st = draw(empty, key, "nonlinear_resample", 1)
            su, _ = draw(sn.at(newpos), key, "nonlinear_update", 1)
            sl2, _ = draw(su, key, "linear_sample", 1)
            return dict(sl=resid(sl), sn=resid(sn), su=resid(su), sl2=resid(sl2), keys_same=bool(np.array_equal(sl.keys, sn.keys)),
                        su_pos=M.re_flat(su.pos, ref))
    elif api == "draw_residual":
        def runf():
            rl, _ = jft.draw_linear_residual(lh, pos, key, point_estimates=pe, cg_kwargs=CGK)
            rn, st = jft.draw_residual(lh, pos, key, point_estimates=pe, cg=jft.conjugate_gradient.cg, cg_kwargs=CGK,
                                      minimize_kwargs=MINK)
            a = M.re_flat(rl, ref)
            return dict(sl=np.stack([a, -a]), sn=M.re_flat(rn, ref, 1))
    else:
        raise ValueError(api)
    from vf import rngseam
    try:
        n0 = None
        tp = rngseam.Tape(None)
        with M.scripted_re_keyed(tp):
            res0 = runf()
        n0 = tp.pos
        tapes = [np.zeros(n0)] + [np.eye(n0)[i] for i in range(n0)] + [M.generic_tape(n0), -0.6 * M.generic_tape(n0)[::-1]]
        worst = 0.
        moved = 0.
        for ti, xi in enumerate(tapes):
            tp = rngseam.Tape(xi)
            with M.scripted_re_keyed(tp):
                res = runf()
            if tp.pos != n0:
                return bad("number of draws depends on the drawn values", finding_key="re|%s|draw-count-not-deterministic" % cfg, detail=det)
            sl, sn = res["sl"], res["sn"]
            if sn.shape != (2, n) or sl.shape != (2, n):
                return bad("unexpected sample shapes %s / %s" % (sl.shape, sn.shape), finding_key="re|%s|sample-shape" % cfg, detail=det)
            if notS.size and (np.abs(sn[:, notS]).max() != 0. or np.abs(sl[:, notS]).max() != 0.):
                return bad("point-estimated key has a non-zero residual after the nonlinear update",
                           finding_key="re|%s|pe-residual-nonzero" % cfg, detail=det)
            if ti == 0 and np.abs(sn).max() > 1e-12:
                return bad("nonlinear sample at zero excitation is not the expansion point (%.3g)" % np.abs(sn).max(),
                           finding_key="re|%s|nonzero-mean" % cfg, detail=det)
            sc = _scale(Mp) * max(1., float(np.abs(sl).max()))
            for m in (0, 1):
                d = geo_dev(p + sn[m], p, sl[m])
                worst = max(worst, d)
                if not d <= TOL_MIN * sc:
                    return bad("geoVI sample %d violates g(pos + r) - g(pos) = M r_lin by %.3g (%s model)" % (
                        m, d, "linear" if lin else "nonlinear"),
                        finding_key="re|%s|geo-equation|%s" % (cfg, "linear" if lin else "nonlinear"), detail=dict(det, tape=ti))
                if lin and np.abs(sn[m] - sl[m]).max() > TOL_MIN * max(1., float(np.abs(sl).max())):
                    return bad("linear model: the nonlinear update changed the linear sample by %.3g" % np.abs(sn[m] - sl[m]).max(),
                               finding_key="re|%s|linear-model-sample-changed" % cfg, detail=dict(det, tape=ti))
            moved = max(moved, float(np.abs(sn - sl).max()))
            if api == "ovi_nonlinear":
                if not res["keys_same"]:
                    return bad("resampling with the same key produced different sample keys", finding_key="re|%s|keys" % cfg, detail=det)
                if not np.array_equal(res["su_pos"], newp):
                    return bad("nonlinear_update moved the expansion point", finding_key="re|%s|mean-not-position" % cfg, detail=det)
                su, sl2 = res["su"], res["sl2"]
                if notS.size and np.abs(su[:, notS]).max() != 0.:
                    return bad("point-estimated key has a non-zero residual after nonlinear_update",
                               finding_key="re|%s|pe-residual-nonzero" % cfg, detail=det)
                sc2 = _scale(ref.metric(newp)) * max(1., float(np.abs(sl2).max()))
                for m in (0, 1):
                    d = geo_dev(newp + su[m], newp, sl2[m])
                    worst = max(worst, d)
                    if not d <= TOL_MIN * sc2:
                        return bad("nonlinear_update at a moved expansion point: sample %d violates g(pos+r) - g(pos) = M r_lin by %.3g"
                                   % (m, d), finding_key="re|%s|geo-equation-update|%s" % (cfg, "linear" if lin else "nonlinear"),
                                   detail=dict(det, tape=ti))
    except Exception as e:   # noqa
        return fail(e)
    curved = (not lin) and moved > 1e-4
    return ok(nontrivial=nS > 0 and n0 > 0, outcome="re|%s|%s|%s" % (
        _mclass(spec), cfg, "curved" if curved else ("identical" if lin else "uncurved")),
        stats=dict(basis_runs=len(tapes), excitation_dim=n0), detail=dict(det, ndraw=n0, geo_err=worst, nl_minus_lin=moved))


# =====================================================================================
def finish(run):
    need = ["cl|linear|field|mgvi", "cl|nonlinear|multi|mgvi", "cl|linear|multi|geo", "cl|nonlinear|multi|geo",
            "re|linear|multi|draw_linear_residual", "re|nonlinear|multi|ovi_linear", "re|nonlinear|multi|ovi_nonlinear",
            "re|nonlinear|multi|draw_residual", "re|nonlinear|multi|ovi_modes"]
    have = list(run.outcomes)
    missing = [x for x in need if not any(h.startswith(x) for h in have)]
    if missing and not run.violations and not run.extra.get("filtered_by"):
        run.violations.append((dict(vacuity=missing), bad("no compared sample for %s" % missing, finding_key="harness|vacuous-class")))
    return dict(curved_geo_cases=sum(v for o, v in run.outcomes.items() if o.endswith("|curved")),
                pe_cases=sum(v for o, v in run.outcomes.items() if "|pe" in o),
                classic_cases=sum(v for o, v in run.outcomes.items() if o.startswith("cl|")),
                jax_cases=sum(v for o, v in run.outcomes.items() if o.startswith("re|")))
