"""C32 HMC and NUTS: reversible volume-preserving dynamics, invariant target.

Mode W (weighted-choice enumeration).  `jax.random.bernoulli` as seen by
nifty.re.hmc is replaced by an enumerating chooser and the library's own
switch `nifty.re.lax._DISABLE_CONTROL_FLOW_PRIM` makes its loops/conditionals
plain Python, so EVERY outcome of every discrete random draw of a transition
is executed, each path carrying its probability.  That yields the exact
transition kernel K on a leapfrog orbit z_k = Phi^k(z_0); invariance of
exp(-H) is the finite identity  sum_k w_k K(k -> j) = w_j,  w_k = exp(-H(z_k)).

kinds
  leapfrog : Phi_{-e}(Phi_e(z)) = z, flip Phi flip Phi = id, |det dPhi/dz| = 1 (jax.jacfwd) on a phase-space grid
  hmc      : detailed balance  w(z) a(z->z') = w(z') a(z'->z), proposal of the proposal is the start
  nuts     : exact kernel by enumeration; global balance on the orbit; leaf weights sum to 1
  momentum : momentum refresh is linear in the normal draw with covariance M (scripted RNG)
"""
import itertools

import numpy as np

from vf.core import ok, bad, skip

ID = "C32"
LEVEL = "exploration"
RULE = ("leapfrog/hmc: every point of a 5^(2d) phase-space grid x step sizes x mass matrices x potentials; nuts: "
        "every start on the orbit window x EVERY outcome of every Bernoulli draw (weighted paths); non-trivial "
        "(nuts) = orbit on which the U-turn criterion truncated at least one tree and >= 2 distinct candidates "
        "were reachable")
ASSUMPTIONS = [
    "the clause 'long chains reproduce its moments' is the statistical corollary of the exactly checked kernel "
    "identities (reversibility, volume preservation, detailed/global balance, exact momentum refresh); no chain is sampled",
    "eager (Python control flow) execution of the tree builder via the library's _DISABLE_CONTROL_FLOW_PRIM switch",
]

POTS = ["quad", "quartic", "cos", "quad2d"]


def potential(name):
    import jax.numpy as jnp
    if name == "quad":
        return (lambda q: 0.5 * 1.7 * jnp.sum(q ** 2)), 1
    if name == "quartic":
        return (lambda q: jnp.sum(0.25 * q ** 4 + 0.5 * q ** 2)), 1
    if name == "cos":
        return (lambda q: jnp.sum(1.5 - jnp.cos(1.3 * q) + 0.05 * q ** 2)), 1
    if name == "quad2d":
        P = jnp.array([[2.0, 0.6], [0.6, 1.0]])
        return (lambda q: 0.5 * q @ P @ q), 2
    raise ValueError(name)


def setup(pot, mass):
    import warnings
    import jax
    import jax.numpy as jnp
    from jax import grad
    from functools import partial
    import nifty.re.hmc as hmc
    V, d = potential(pot)
    invm = jnp.ones(d) if mass == "unit" else jnp.array([0.5, 2.0][:d])

    def kinetic(inv_m, p):
        return jnp.sum(inv_m * p ** 2 / 2.0)
    stepper = partial(hmc.leapfrog_step, grad(V), lambda inv_m, mom: inv_m * mom)
    H = lambda qp: float(V(qp.position) + kinetic(invm, qp.momentum))  # noqa
    return V, d, invm, kinetic, stepper, H


GRID1 = [-1.6, -0.5, 0.0, 0.7, 1.9]


# ----------------------------------------------------------------- chooser
class Chooser:
    def __init__(self, prefix):
        self.prefix = list(prefix)
        self.trace = []     # (p, value, forced)
        self.weight = 1.0

    def __call__(self, p):
        p = float(p)
        i = len(self.trace)
        if p <= 0.0:
            v, forced = False, True
        elif p >= 1.0:
            v, forced = True, True
        else:
            forced = False
            v = self.prefix[i] if i < len(self.prefix) else True
            self.weight *= p if v else (1.0 - p)
        if forced and i < len(self.prefix) and self.prefix[i] != v:
            raise RuntimeError("replay divergence at choice %d" % i)
        self.trace.append((p, v, forced))
        return v


def enumerate_weighted(run):
    """run(choose) -> outcome; returns list of (weight, outcome, ndraws)."""
    leaves = []
    stack = [[]]
    while stack:
        prefix = stack.pop()
        ch = Chooser(prefix)
        out = run(ch)
        leaves.append((ch.weight, out, len(ch.trace)))
        vals = [t[1] for t in ch.trace]
        for i in range(len(prefix), len(ch.trace)):
            if not ch.trace[i][2]:
                stack.append(vals[:i] + [not vals[i]])
    return leaves


class _RandomProxy:
    """stands in for `jax.random` inside nifty.re.hmc"""

    def __init__(self, real, choose):
        self._real, self._choose = real, choose

    def bernoulli(self, key, p=0.5, shape=None):
        import jax.numpy as jnp
        return jnp.asarray(self._choose(p))

    def __getattr__(self, n):
        return getattr(self._real, n)


class patched_hmc:
    def __init__(self, choose):
        self.choose = choose

    def __enter__(self):
        import nifty.re.hmc as hmc
        import nifty.re.lax as nlax
        self.hmc, self.nlax = hmc, nlax
        self.saved = (hmc.random, nlax._DISABLE_CONTROL_FLOW_PRIM)
        hmc.random = _RandomProxy(self.saved[0], self.choose)
        nlax._DISABLE_CONTROL_FLOW_PRIM = True

    def __exit__(self, *a):
        self.hmc.random, self.nlax._DISABLE_CONTROL_FLOW_PRIM = self.saved
        return False


# ----------------------------------------------------------------- cases
def cases(tier, seed):
    out = []
    for pot in POTS:
        for mass in ("unit", "diag"):
            # step sizes inside the leapfrog stability region of the potential on the grid (eps * omega_max < 2):
            # outside it trajectories blow up to 1e60 and round-off, not the algorithm, decides every comparison
            for eps in ((0.1, 0.3, 0.5) if pot == "quartic" else (0.1, 0.5, 0.9) if pot in ("quad2d",) else (0.1, 0.5, 1.1)):
                out.append(dict(kind="leapfrog", pot=pot, mass=mass, eps=eps))
                for L in (1, 3):
                    out.append(dict(kind="hmc", pot=pot, mass=mass, eps=eps, L=L))
    for mass in ("unit", "diag"):
        out.append(dict(kind="momentum", mass=mass))
        out.append(dict(kind="momentum", mass=mass, tree=True))
        for cls in ("HMCChain", "NUTSChain"):
            out.append(dict(kind="sampler-momentum", mass=mass, cls=cls))
    # NUTS: one case per (orbit, start index); the orbit identity is checked in finish()
    orbits = []
    D1 = [("quartic", "unit", 0.6, (0.3, 1.1)), ("quad", "diag", 1.1, (0.8, -0.4)), ("cos", "unit", 1.1, (0.2, 1.4)),
          ("quad2d", "unit", 0.7, (0.5, -0.3, 0.4, 0.9))]
    for bias in (True, False):
        for (pot, mass, eps, z0) in D1:
            orbits.append(dict(pot=pot, mass=mass, eps=eps, z0=list(z0), D=1, bias=bias))
    D2 = [("quartic", "unit", 0.6, (0.3, 1.1))] if tier == "quick" else \
        [("quartic", "unit", 0.6, (0.3, 1.1)), ("quad", "diag", 1.1, (0.8, -0.4)), ("quad2d", "unit", 0.7, (0.5, -0.3, 0.4, 0.9))]
    for bias in ((True,) if tier == "quick" else (True, False)):
        for (pot, mass, eps, z0) in D2:
            orbits.append(dict(pot=pot, mass=mass, eps=eps, z0=list(z0), D=2, bias=bias))
    # depth 3 was tried for the thorough tier: the weighted-path enumeration did not finish in 3 hours (measured);
    # depth <= 2 on all potentials is the deepest complete enumeration
    for oi, o in enumerate(orbits):
        W = 2 ** (o["D"] + 1) - 1
        for k in range(-W - 1, W + 2):
            out.append(dict(kind="nuts", orbit=oi, k=k, **o))
    return out


def _grid(d):
    return list(itertools.product(GRID1, repeat=2 * d))


def _orbit(c, lo, hi):
    """z_k = Phi^k(z0) for k in [lo, hi], through the library's leapfrog."""
    import jax.numpy as jnp
    import nifty.re.hmc as hmc
    V, d, invm, kinetic, stepper, H = setup(c["pot"], c["mass"])
    z0 = hmc.QP(position=jnp.array(c["z0"][:d]), momentum=jnp.array(c["z0"][d:]))
    orb = {0: z0}
    z = z0
    for k in range(1, hi + 1):
        z = stepper(c["eps"], invm, z)
        orb[k] = z
    z = z0
    for k in range(-1, lo - 1, -1):
        z = stepper(-c["eps"], invm, z)
        orb[k] = z
    big = max(float(np.abs(np.asarray(z.position)).max() + np.abs(np.asarray(z.momentum)).max()) for z in orb.values())
    if big > 50.:
        raise RuntimeError("harness: unstable leapfrog orbit chosen (|z| up to %.3g)" % big)
    return orb, H


def _locate(orb, qp):
    best, bk = None, None
    for k, z in orb.items():
        dd = float(np.abs(np.asarray(z.position) - np.asarray(qp.position)).max()
                   + np.abs(np.asarray(z.momentum) - np.asarray(qp.momentum)).max())
        if best is None or dd < best:
            best, bk = dd, k
    return bk, best


def run(case):
    import warnings
    warnings.simplefilter("ignore")
    import jax
    import jax.numpy as jnp
    import nifty.re.hmc as hmc
    kind = case["kind"]
    if kind == "momentum":
        from vf import rngseam
        d = 2
        msq = jnp.array([1.0, 1.0]) if case["mass"] == "unit" else jnp.array([0.5, 2.0]) ** (-0.5)

        if case.get("tree"):
            # position = pytree with two leaves of equal shape: the leaves' momenta must be independent
            d = 4
            msq_t = {"a": msq, "b": msq[::-1] * 1.5}
            msq = jnp.concatenate([msq_t["a"], msq_t["b"]])

            def fn():
                r = hmc.sample_momentum_from_diagonal(key=jax.random.PRNGKey(0), mass_matrix_sqrt=msq_t)
                return jnp.concatenate([r["a"], r["b"]])
        else:
            def fn():
                return hmc.sample_momentum_from_diagonal(key=jax.random.PRNGKey(0), mass_matrix_sqrt=msq)
        off, L, n, resid = rngseam.linear_map(fn, lambda x: np.asarray(x), ctx=rngseam.scripted_re)
        M = np.diag(np.asarray(msq) ** 2)
        if n != d or np.abs(off).max() > 0 or resid > 1e-12 or np.abs(L @ L.T - M).max() > 1e-12:
            return bad("momentum refresh is not N(0, M): L L^T = %s, M = %s" % ((L @ L.T).tolist(), M.tolist()),
                       finding_key="momentum-refresh")
        return ok(outcome="momentum-exact")
    if kind == "sampler-momentum":
        # the sampler classes must refresh the momentum from N(0, M) with the SAME mass matrix M = 1/inverse_mass
        # that their kinetic energy / leapfrog use (scripted RNG: exact covariance, no chain is sampled)
        from vf import rngseam
        import nifty.re.hmc_oo as oo
        invm = jnp.array([1.0, 1.0]) if case["mass"] == "unit" else jnp.array([0.5, 2.0])
        V2 = lambda q: 0.5 * jnp.sum(q ** 2)   # noqa
        pos = jnp.array([0.3, -0.2])
        if case["cls"] == "HMCChain":
            smp = oo.HMCChain(V2, invm, pos, num_steps=1, step_size=0.1)
        else:
            smp = oo.NUTSChain(V2, invm, pos, step_size=0.1, max_tree_depth=1)
        captured = {}
        if case["cls"] == "NUTSChain":
            orig = oo.generate_nuts_tree

            def spy(**kw):
                captured["qp"] = kw["initial_qp"]
                return orig(**kw)
            oo.generate_nuts_tree = spy
        else:
            orig = oo.generate_hmc_acc_rej

            def spy(**kw):
                captured["qp"] = kw["initial_qp"]
                return orig(**kw)
            oo.generate_hmc_acc_rej = spy
        try:
            def fn():
                with patched_hmc(lambda p: True):
                    smp.sample_next_state(jax.random.PRNGKey(0), pos)
                return captured["qp"].momentum
            off, L, n, resid = rngseam.linear_map(fn, lambda x: np.asarray(x), ctx=rngseam.scripted_re)
        finally:
            if case["cls"] == "NUTSChain":
                oo.generate_nuts_tree = orig
            else:
                oo.generate_hmc_acc_rej = orig
        M = np.diag(1.0 / np.asarray(invm))
        # the kinetic energy the sampler itself uses must be p^T M^-1 p / 2
        p = jnp.array([0.7, -1.3])
        ke = float(smp.kinetic_energy(smp.inverse_mass_matrix, p))
        ke_ref = float(0.5 * np.sum(np.asarray(invm) * np.asarray(p) ** 2))
        if abs(ke - ke_ref) > 1e-12:
            return bad("%s kinetic energy is not p^T M^-1 p / 2" % case["cls"], finding_key="sampler-kinetic|%s" % case["cls"])
        if n != 2 or np.abs(off).max() > 0 or resid > 1e-12 or np.abs(L @ L.T - M).max() > 1e-12:
            return bad("%s refreshes the momentum with covariance %s but its dynamics use the mass matrix M = %s"
                       % (case["cls"], (L @ L.T).tolist(), M.tolist()), finding_key="sampler-momentum-refresh|%s" % case["cls"])
        return ok(nontrivial=case["mass"] != "unit", outcome="sampler-momentum-exact")
    V, d, invm, kinetic, stepper, H = setup(case["pot"], case["mass"])
    eps = case["eps"]
    if kind == "leapfrog":
        worst = 0.
        for pt in _grid(d):
            z = hmc.QP(position=jnp.array(pt[:d]), momentum=jnp.array(pt[d:]))
            z1 = stepper(eps, invm, z)
            back = stepper(-eps, invm, z1)
            e1 = float(jnp.abs(back.position - z.position).max() + jnp.abs(back.momentum - z.momentum).max())
            z2 = hmc.flip_momentum(stepper(eps, invm, hmc.flip_momentum(z1)))
            e2 = float(jnp.abs(z2.position - z.position).max() + jnp.abs(z2.momentum - z.momentum).max())
            scale = 1. + float(jnp.abs(z1.position).max() + jnp.abs(z1.momentum).max())

            def flat(v):
                r = stepper(eps, invm, hmc.QP(position=v[:d], momentum=v[d:]))
                return jnp.concatenate([r.position, r.momentum])
            J = jax.jacfwd(flat)(jnp.array(pt))
            det = float(jnp.linalg.det(J))
            # symplecticity J^T Omega J = Omega
            Om = np.block([[np.zeros((d, d)), np.eye(d)], [-np.eye(d), np.zeros((d, d))]])
            sym = float(np.abs(np.asarray(J).T @ Om @ np.asarray(J) - Om).max())
            if e1 > 1e-11 * scale ** 3:
                return bad("leapfrog not time reversible at %s: error %.3g" % (pt, e1), finding_key="leapfrog-reversible")
            if e2 > 1e-11 * scale ** 3:
                return bad("flip-step-flip-step is not the identity at %s: error %.3g" % (pt, e2),
                           finding_key="leapfrog-flip-reversible")
            if abs(abs(det) - 1) > 1e-9 or sym > 1e-9 * (1 + float(jnp.abs(J).max()) ** 2):
                return bad("leapfrog not volume preserving at %s: det = %.12g" % (pt, det), finding_key="leapfrog-volume")
            worst = max(worst, e1, e2, abs(abs(det) - 1))
        return ok(outcome="leapfrog-ok", stats=dict(grid_points=len(_grid(d))), detail=dict(worst=worst))
    if kind == "hmc":
        L = case["L"]
        n = 0
        accs = set()
        for pt in _grid(d):
            z = hmc.QP(position=jnp.array(pt[:d]), momentum=jnp.array(pt[d:]))

            def acc(zz, force):
                rec = {}

                def choose(p):
                    rec["p"] = float(p)
                    return force
                with patched_hmc(choose):
                    r = hmc.generate_hmc_acc_rej(key=jax.random.PRNGKey(1), initial_qp=zz, potential_energy=V,
                                                 kinetic_energy=kinetic, inverse_mass_matrix=invm, stepper=stepper,
                                                 num_steps=L, step_size=eps, max_energy_difference=jnp.inf)
                return rec["p"], r
            a_fwd, r = acc(z, True)
            zp = r.accepted_qp
            a_rej, rr = acc(z, False)
            if float(jnp.abs(rr.accepted_qp.position - z.position).max() + jnp.abs(rr.accepted_qp.momentum - z.momentum).max()) != 0.:
                return bad("rejected HMC transition does not stay at the start", finding_key="hmc-reject-moves")
            a_bwd, r2 = acc(zp, True)
            back = r2.accepted_qp
            scale = 1. + float(jnp.abs(zp.position).max() + jnp.abs(zp.momentum).max())
            eb = float(jnp.abs(back.position - z.position).max() + jnp.abs(back.momentum - z.momentum).max())
            if eb > 1e-10 * scale ** 3:
                return bad("HMC proposal is not an involution at %s (error %.3g)" % (pt, eb), finding_key="hmc-involution")
            Hz, Hzp = H(z), H(zp)
            lhs, rhs = np.exp(-Hz) * a_fwd, np.exp(-Hzp) * a_bwd
            if abs(lhs - rhs) > 1e-9 * max(lhs, rhs, 1e-300) + 1e-300:
                return bad("HMC detailed balance violated at %s: w a = %.12g vs %.12g" % (pt, lhs, rhs),
                           finding_key="hmc-detailed-balance")
            n += 1
            accs.add(round(a_fwd, 6))
        return ok(nontrivial=len(accs) > 2, outcome="hmc-ok", stats=dict(grid_points=n),
                  detail=dict(distinct_acceptance_probabilities=len(accs)))
    if kind == "nuts":
        D = case["D"]
        W = 2 ** (D + 1) - 1
        k = case["k"]
        orb, _ = _orbit(case, -2 * W - 2, 2 * W + 2)
        start = orb[k]

        def one(choose):
            with patched_hmc(choose):
                t = hmc.generate_nuts_tree(initial_qp=start, key=jax.random.PRNGKey(5), step_size=case["eps"],
                                           max_tree_depth=D, stepper=stepper, potential_energy=V,
                                           kinetic_energy=kinetic, inverse_mass_matrix=invm,
                                           bias_transition=case["bias"])
            j, err = _locate(orb, t.proposal_candidate)
            return dict(j=j, err=err, depth=int(t.depth), turning=bool(t.turning))
        leaves = enumerate_weighted(one)
        tot = sum(w for w, _, _ in leaves)
        if abs(tot - 1) > 1e-10:
            return bad("path weights sum to %.12g" % tot, finding_key="harness-weights")
        if max(o["err"] for _, o, _ in leaves) > 1e-8:
            return bad("NUTS candidate is not a point of the leapfrog orbit of its start (distance %.3g)"
                       % max(o["err"] for _, o, _ in leaves), finding_key="nuts-off-orbit")
        K = {}
        depths = {}
        for w, o, _ in leaves:
            K[o["j"]] = K.get(o["j"], 0.) + w
            depths[o["depth"]] = depths.get(o["depth"], 0.) + w
        return ok(nontrivial=len(K) > 1, outcome="nuts-kernel|D%d" % D,
                  stats=dict(paths=len(leaves)),
                  kernel={str(j): v for j, v in K.items()}, depths={str(a): b for a, b in depths.items()},
                  detail=dict(paths=len(leaves), targets=len(K)))
    raise ValueError(kind)


def collect(run, case, out):
    if case.get("kind") == "nuts" and out.get("status") == "ok":
        if not hasattr(run, "kernels"):
            run.kernels = {}
        e = run.kernels.setdefault(case["orbit"], dict(case=case, K={}, depths={}))
        e["K"][case["k"]] = out["kernel"]
        e["depths"][case["k"]] = out["depths"]


def finish(run):
    """Global balance on every orbit from the exact kernels of all its starts."""
    # re-collect kernels: they are not stored by the generic recorder -> recompute from run.kernels
    kern = getattr(run, "kernels", {})
    checked = trunc = 0
    worst = 0.
    for oi, info in kern.items():
        c = info["case"]
        D = c["D"]
        W = 2 ** (D + 1) - 1
        orb, H = _orbit(c, -2 * W - 2, 2 * W + 2)
        w = {k: np.exp(-H(z)) for k, z in orb.items()}
        Ks = info["K"]
        if set(Ks) != set(range(-W - 1, W + 2)):
            run.violations.append((dict(orbit=oi), bad("kernel incomplete for orbit %s" % oi, finding_key="harness-orbit")))
            continue
        full_depth = all(abs(sum(v for d_, v in info["depths"][k].items() if int(d_) == D + 1) - 1) < 1e-12
                         for k in Ks)
        trunc += not full_depth
        for j in (-1, 0, 1):
            s = sum(w[k] * Ks[k].get(str(j), 0.) for k in Ks if abs(k - j) <= W)
            rel = abs(s - w[j]) / w[j]
            worst = max(worst, rel)
            checked += 1
            if rel > 1e-8:
                run.violations.append((dict(kind="nuts-balance", orbit=oi, target=j, **{kk: c[kk] for kk in ("pot", "mass", "eps", "z0", "D", "bias")}),
                                       bad("NUTS does not leave exp(-H) invariant on the orbit of %s (%s, eps=%s, D=%d, bias=%s): "
                                           "sum_k w_k K(k->%d) = %.12g but w_%d = %.12g" % (c["z0"], c["pot"], c["eps"], D, c["bias"], j, s, j, w[j]),
                                           finding_key="nuts-global-balance|bias=%s" % c["bias"])))
    return dict(nuts_orbits=len(kern), nuts_balance_identities=checked, nuts_orbits_with_uturn_truncation=trunc,
                nuts_worst_relative_defect=worst, nuts_paths=int(run.extra.get("paths", 0)),
                grid_points=int(run.extra.get("grid_points", 0)))
