"""C33 Pytree vector arithmetic and custom maps match flat-array semantics.

Mode P.  Part 1 (tree): a case is (pytree spec, operation).  The pytree is one of ALL nestings of depth <= 2 of
{dict, tuple, list} with 1..3 leaves (plus the bare leaf), its leaves typed from a cyclic alphabet of
{f8, c16} x {(), (2,), (2,3)} (or all-int / all-real variants for integer-only and order-only operations).
Inside the case the operation is run in every operand form (Vector-Vector, Vector-scalar and scalar-Vector for
python / numpy / jax scalars, function on raw tree, function on Vector, method) and compared with plain numpy on the
CONCATENATED FLAT ARRAYS (vf/ref/c33_ref.py): same values, same leaf shapes, same container structure, same dtype
kind.  Part 2 (map): a case is (function, n_args, in_axes in {None,0,1,-1}^n_args, out_axes in {0,1,-1}, mapper in
{smap, lmap}, array rank); the result is compared with an explicit python loop over slices (numpy) AND with jax.vmap;
axis specifications jax.vmap rejects must be rejected too.
"""
import itertools
import os
import time
import warnings

import numpy as np

from vf.core import ok, bad, skip
from vf.ref import c33_ref as R

ID = "C33"
LEVEL = "exploration"
JAX = True
RULE = ("tree cases = (structure, leaf typing, operation): ALL nestings of depth<=2 of {dict,tuple,list} with <=3 leaves "
        "+ bare leaf (343 structures) x typing rotations (mixed f8/c16 over shapes (),(2,),(2,3); all-real; all-int) x "
        "every operation of the catalogue OPS (each run in all operand forms: Vector/Vector, Vector/scalar, "
        "scalar/Vector for 7 scalar kinds, raw-tree function, Vector function, method). map cases = full product "
        "function {add, inner, pytree-valued, dict-argument} x n_args {1,2,3} x in_axes {None,0,1,-1}^n_args x "
        "out_axes {0,1,-1} x {smap, lmap} x rank {2,3} (+ unroll, pytree in_axes, int in_axes forms). non-trivial = "
        "the operation combined >= 2 leaves or broadcast a scalar over a container, resp. >= 1 axis really mapped")
ASSUMPTIONS = [
    "leaves are jax arrays (float64/complex128/int64 with x64 enabled); values in +-[0.5,2] (ints +-[1,7]) chosen by VERIF_SEED",
    "numpy on the concatenated flat vector is the semantics; results compared at 1e-12 relative, dtype by kind",
    "operations numpy itself rejects on the flat arrays (ordering / floor-division of complex numbers) are outside the premise",
    "a structure mismatch between operands must raise (any exception type); it must never silently combine",
    "unite: fields under a shared key are arrays (nested containers under a shared key are outside the premise)",
    "mean_and_std: flat semantics is numpy's std (|x-m|^2, ddof = correct_bias)",
    "maps: jax.vmap is the specification for which axis specifications are valid",
]

TOL = 1e-12
TYPES6 = [("f8", ()), ("c16", (2,)), ("f8", (2, 3)), ("c16", ()), ("f8", (2,)), ("c16", (2, 3))]
SHAPES3 = [(), (2,), (2, 3)]

BINOPS = ["add", "sub", "mul", "truediv", "pow", "matmul", "eq", "ne"]
REALOPS = ["floordiv", "mod", "divmod", "lt", "le", "ge", "gt"]          # need ordered (real) entries
INTOPS = ["or", "xor", "and", "lshift", "rshift", "invert"]
UNOPS = ["neg", "pos", "abs", "conj", "real", "imag"]
REDUCE = ["sum", "any", "all", "vdot", "dot", "norm1", "norm2", "norminf", "norm-inf", "norm3", "norm0", "size"]
REALREDUCE = ["min", "max"]
HELPERS = ["where", "zeros_like", "ones_like", "result_type", "tree_shape", "vector-misc", "mismatch", "stack", "stack1",
           "stack-1", "mean", "mean_and_std", "map_forest", "unite", "random_like"]


# =====================================================================================  enumeration
QUICK2 = ["add", "pow", "eq", "neg", "sum", "vdot", "norm2", "where", "mismatch", "stack", "unite", "mean"]
QUICK3 = ["add", "sum", "where", "stack"]


def _typings(tier, nl):
    """list of (label, opclass, types)"""
    if tier == "quick":
        rots = (0, 1) if nl <= 1 else (0,) if nl == 2 else (1,)
    else:
        rots = range(6) if nl <= 2 else (1, 4)
    out = [("mixed%d" % r, "mixed", TYPES6[r:] + TYPES6[:r]) for r in rots]
    rr = (1,) if (tier == "quick" or nl == 3) else range(3)
    out += [("real%d" % r, "real", [("f8", s) for s in SHAPES3[r:] + SHAPES3[:r]]) for r in rr]
    out += [("int%d" % r, "int", [("i8", s) for s in SHAPES3[r:] + SHAPES3[:r]]) for r in rr]
    return out


def cases(tier, seed):
    out = []
    structs = R.structures(3)
    for nl, st in structs:
        for tl, cls, types in _typings(tier, nl):
            spec = R.fill_types(st, types) if st is not None else ["L", types[0][0], list(types[0][1])]
            if tier == "quick" and nl == 3:
                ops = QUICK3 if cls == "mixed" else (["lt"] if cls == "real" else [])
            elif tier == "quick" and nl == 2 and R._depth(st) > 1:
                ops = QUICK2 if cls == "mixed" else (["lt", "min"] if cls == "real" else ["and", "floordiv"])
            elif cls == "mixed":
                ops = BINOPS + UNOPS + REDUCE + HELPERS
            elif cls == "real":
                ops = REALOPS + REALREDUCE + ["pow", "where", "mean_and_std", "norm2"]
            else:
                ops = INTOPS + ["add", "floordiv", "mod", "truediv", "sum", "min", "eq", "lt"]
            for op in ops:
                out.append(dict(part="tree", tree=spec, typing=tl, op=op, seed=int(seed)))
    out.sort(key=lambda c: (R.n_leaves(c["tree"]), R._depth(c["tree"])))
    out += _map_cases(tier, seed)
    return out


def _map_cases(tier, seed):
    out = []
    AX = (None, 0, 1, -1)
    for rank in (2, 3):
        for fn, nargs in (("neg", 1), ("add", 2), ("inner", 2), ("tree", 2), ("dictarg", 2), ("add3", 3)):
            if nargs == 3 and (tier == "quick" and rank == 3):
                continue
            for in_axes in itertools.product(AX, repeat=nargs):
                for out_axes in (0, 1, -1):
                    for mapper in ("smap", "lmap"):
                        out.append(dict(part="map", fn=fn, nargs=nargs, in_axes=list(in_axes), out_axes=out_axes,
                                        mapper=mapper, rank=rank, form="tuple", seed=int(seed)))
    # other spellings of the axis specification
    for mapper in ("smap", "lmap"):
        for ax in (0, 1, -1):
            for fn in ("add", "tree", "dictarg"):
                out.append(dict(part="map", fn=fn, nargs=2, in_axes=[ax, ax], out_axes=0, mapper=mapper, rank=2,
                                form="int", seed=int(seed)))
        for da in itertools.product((None, 0, 1), repeat=2):
            for oa in ([0, 1], [1, 0], [-1, 0]):
                out.append(dict(part="map", fn="dictarg", nargs=2, in_axes=[list(da), 0], out_axes=oa, mapper=mapper,
                                rank=2, form="pytree", seed=int(seed)))
    for ur in (2, 3):
        for in_axes in itertools.product((None, 0, 1), repeat=2):
            out.append(dict(part="map", fn="tree", nargs=2, in_axes=list(in_axes), out_axes=0, mapper="smap", rank=2,
                            form="tuple", unroll=ur, seed=int(seed)))
    out.sort(key=lambda c: (c["nargs"], c["rank"], c["form"] != "tuple"))
    return out


# =====================================================================================  helpers
class Fail(Exception):
    def __init__(self, key, what):
        super().__init__(what)
        self.key, self.what = key, what


def _np(x):
    return np.asarray(x)


def _eq(a, b, tol=TOL):
    a, b = np.asarray(a), np.asarray(b)
    if a.shape != b.shape:
        return False
    if a.dtype.kind in "fc" or b.dtype.kind in "fc":
        with np.errstate(all="ignore"):
            return bool(np.all(np.isclose(a, b, rtol=tol, atol=tol, equal_nan=True)))
    return bool(np.array_equal(a, b))


def _kind(x):
    k = np.asarray(x).dtype.kind
    return "i" if k == "u" else k


def run(case):
    try:
        with warnings.catch_warnings(record=True):      # (the library's @deprecated forces the filter to "always")
            out = _run_tree(case) if case["part"] == "tree" else _run_map(case)
    except Fail as f:
        lab = R.describe(case["tree"]) if case["part"] == "tree" else str({k: case[k] for k in ("fn", "in_axes", "out_axes", "mapper", "rank", "form")})
        out = bad("%s on %s: %s" % (case.get("op", case.get("mapper")), lab, f.what), finding_key=f.key)
    return out


# =====================================================================================  part 1: trees
_PYOP = dict(add="+", sub="-", mul="*", truediv="/", floordiv="//", mod="%", pow="**", matmul="@", lt="<", le="<=",
             eq="==", ne="!=", ge=">=", gt=">", lshift="<<", rshift=">>", xor="^")
_PYOP["or"] = "|"
_PYOP["and"] = "&"


def _apply(op, a, b):
    import operator
    if op == "divmod":
        return divmod(a, b)
    return getattr(operator, {"or": "or_", "and": "and_"}.get(op, op))(a, b)


def _scalars(cls, full=True):
    """(label, scalar)"""
    out = _scalars_all(cls)
    return out if full else [x for x in out if x[0] in ("int", "np.float64", "np.int64", "jnp0d")]


def _scalars_all(cls):
    import jax.numpy as jnp
    if cls == "int":
        return [("int", 2), ("np.int64", np.int64(3)), ("np0d", np.array(2)), ("jnp0d", jnp.array(3))]
    out = [("int", 2), ("float", 1.5), ("np.float64", np.float64(0.75)), ("np0d", np.array(1.25)), ("jnp0d", jnp.array(2.5))]
    if cls == "mixed":
        out += [("complex", 1.5 - 0.5j), ("jnp0d-c", jnp.array(0.5 + 1.j))]
    return out


class Ctx:
    """one pytree with two value sets a, b: numpy leaves, flat vectors, jax trees, Vectors"""

    def __init__(self, spec, seed, mode="generic"):
        import jax.numpy as jnp
        from nifty.re.tree_math import Vector
        self.spec = spec
        self.va = R.values(spec, seed, 0, mode)
        self.vb = R.values(spec, seed, 1, mode)
        self.fa, self.fb = R.flat(self.va), R.flat(self.vb)
        self.ta = R.build(spec, self.va, jnp.asarray)
        self.tb = R.build(spec, self.vb, jnp.asarray)
        self.Va, self.Vb = Vector(self.ta), Vector(self.tb)
        self.Vector = Vector
        self.nl = len(self.va)

    def unwrap(self, t):
        return t.tree if isinstance(t, self.Vector) else t

    def check_tree(self, res, expect_flat, what, key, vals=None, want_vector=None, kinds=True):
        """`res` must have the structure of the spec, leaf shapes of the operands and flat values `expect_flat`"""
        vals = self.va if vals is None else vals
        if want_vector is not None and isinstance(res, self.Vector) != want_vector:
            raise Fail(key + "|wrapper", "%s: result is %s, expected %s" % (what, type(res).__name__, "Vector" if want_vector else "raw tree"))
        try:
            lv = R.unbuild(self.spec, self.unwrap(res))
        except R.StructureError as e:
            raise Fail(key + "|structure", "%s: result structure differs: %s" % (what, e))
        exp = [np.asarray(e) for e in expect_flat] if isinstance(expect_flat, list) else R.split_like(vals, expect_flat)
        for i, (g, e) in enumerate(zip(lv, exp)):
            g = _np(g)
            if kinds and isinstance(expect_flat, list) and _kind(g) != _kind(e):
                raise Fail(key + "|dtype-kind", "%s: leaf %d has dtype %s, numpy gives %s" % (what, i, g.dtype, e.dtype))
            if g.shape != e.shape:
                raise Fail(key + "|leaf-shape", "%s: leaf %d has shape %s, expected %s" % (what, i, g.shape, e.shape))
            if not _eq(g, e):
                raise Fail(key + "|value", "%s: leaf %d = %s, flat-array semantics %s" % (what, i, g.reshape(-1)[:4], e.reshape(-1)[:4]))

    def check_scalar(self, res, expect, what, key, tol=TOL):
        g = _np(res)
        if g.shape != ():
            raise Fail(key + "|shape", "%s: result has shape %s, expected a scalar" % (what, g.shape))
        if not _eq(g, np.asarray(expect), tol):
            raise Fail(key + "|value", "%s: %r, flat-array semantics %r" % (what, g.tolist(), np.asarray(expect).tolist()))


def _run_tree(case):
    spec, op, seed = case["tree"], case["op"], case["seed"]
    cls = case["typing"].rstrip("0123456789")
    mode = "shift" if op in ("lshift", "rshift") else ("positive" if op == "pow" else "generic")
    c = Ctx(spec, seed, mode)
    nforms = _dispatch(c, op, cls)
    return ok(nontrivial=c.nl >= 2 or (spec[0] != "L"), outcome="tree|%s|%s|leaves=%d" % (cls, op, c.nl),
              stats=dict(forms=nforms))


def _dispatch(c, op, cls):
    if op in BINOPS + REALOPS + INTOPS and op != "invert":
        return _binary(c, op, cls)
    if op in UNOPS or op == "invert":
        return _unary(c, op)
    if op in REDUCE + REALREDUCE:
        return _reduce(c, op)
    return globals()["_h_" + op.replace("-", "m")](c, cls)


def _leafwise(op, xs, ys):
    """element-wise semantics on the flat array = the same numpy operation leaf by leaf (keeps each leaf's dtype).
    xs / ys: list of leaves or a scalar"""
    L = len(xs) if isinstance(xs, list) else len(ys)
    xs = xs if isinstance(xs, list) else [xs] * L
    ys = ys if isinstance(ys, list) else [ys] * L
    with np.errstate(all="ignore"):
        if op == "matmul":
            return np.sum(R.flat([np.asarray(x) * np.asarray(y) for x, y in zip(xs, ys)]))
        if op == "divmod":
            r = [divmod(x, y) for x, y in zip(xs, ys)]
            return [q for q, _ in r], [m for _, m in r]
        return [_apply(op, x, y) for x, y in zip(xs, ys)]


def _binary(c, op, cls):
    n = 0
    key = "Vector|%s" % op
    sym = _PYOP.get(op, op)

    def check(res, exp, what, k):
        if op == "matmul":
            c.check_scalar(res, exp, what, k)
        elif op == "divmod":
            if not (isinstance(res, tuple) and len(res) == 2):
                raise Fail(k + "|structure", "%s: divmod did not return a pair" % what)
            c.check_tree(res[0], exp[0], what + " [quotient]", k, want_vector=True)
            c.check_tree(res[1], exp[1], what + " [remainder]", k, want_vector=True)
        else:
            c.check_tree(res, exp, what, k, want_vector=True)
    # Vector op Vector
    check(_apply(op, c.Va, c.Vb), _leafwise(op, c.va, c.vb), "Va %s Vb" % sym, key + "|vector-vector")
    n += 1
    if op == "matmul":
        res = c.Va.dot(c.Vb)
        c.check_scalar(res, np.sum(c.fa * c.fb), "Va.dot(Vb)", key + "|dot-method")
        return n + 1
    # scalars on either side
    deferred = None
    for sl, sc in _scalars(cls, full=c.nl <= 1):
        scn = np.asarray(sc)[()] if not isinstance(sc, (int, float, complex)) else sc
        if op in ("lshift", "rshift") and not np.issubdtype(np.asarray(scn).dtype, np.integer):
            continue
        if op in REALOPS and np.iscomplexobj(scn):
            continue
        check(_apply(op, c.Va, sc), _leafwise(op, c.va, scn), "Va %s %s(%r)" % (sym, sl, scn), key + "|vector-scalar")
        va, V = c.va, c.Va
        if op in ("lshift", "rshift", "pow") and cls == "int":
            # scalar ** negative ints etc. are numpy errors; keep exponents / shift counts non-negative
            import jax.numpy as jnp
            va = [np.abs(v) % 4 for v in c.va]
            V = c.Vector(R.build(c.spec, va, jnp.asarray))
        what = "%s(%r) %s Va" % (sl, scn, sym)
        try:
            res = _apply(op, sc, V)
            check(res, _leafwise(op, scn, va), what, key + "|scalar-vector")
        except Exception as e:      # noqa
            if sl.startswith("np") and (not isinstance(e, Fail) or "wrapper" in e.key or "structure" in e.key):
                # a numpy scalar / 0-d array on the left: numpy does not defer to Vector.__r<op>__ but treats the
                # Vector as a sequence (it has __len__/__iter__/__getitem__): one root cause whatever the symptom
                if deferred is None:
                    sympt = "raises %s" % type(e).__name__ if not isinstance(e, Fail) else "returns a bare %s" % type(res).__name__
                    deferred = Fail("Vector|numpy-left-operand|numpy-does-not-defer-to-reflected-op",
                                    "%s: %s (numpy handles the operation itself instead of deferring to Vector.__r%s__)"
                                    % (what, sympt, op))
            elif isinstance(e, Fail):
                raise
            else:
                raise Fail(key + "|scalar-vector|raises:%s" % type(e).__name__, "%s raised %r" % (what, e))
        n += 2
    if deferred is not None:
        raise deferred
    return n


def _unary(c, op):
    import operator
    import nifty.re.tree_math as tm
    f = c.fa
    if op in ("neg", "pos", "abs", "invert"):
        exp = [dict(neg=lambda v: -v, pos=lambda v: +v, abs=np.abs, invert=lambda v: ~v)[op](v) for v in c.va]
        c.check_tree(getattr(operator, op if op != "invert" else "invert")(c.Va), exp, "%s(Va)" % op, "Vector|%s" % op, want_vector=True)
        return 1
    if op == "conj":
        for what, res, wv in (("Va.conj()", c.Va.conj(), True), ("Va.conjugate()", c.Va.conjugate(), True),
                              ("conj(Va)", tm.conj(c.Va), True), ("conjugate(tree)", tm.conjugate(c.ta), False),
                              ("conj(tree)", tm.conj(c.ta), False)):
            c.check_tree(res, [np.conj(v) for v in c.va], what, "conj|%s" % what.split("(")[0], want_vector=wv)
        return 5
    exp = [np.real(v) if op == "real" else np.imag(v) for v in c.va]
    res = getattr(c.Va, op)
    c.check_tree(res, exp, "Va.%s" % op, "Vector|%s" % op, want_vector=True)
    for g in R.unbuild(c.spec, res.tree):
        if _kind(g) == "c":
            raise Fail("Vector|%s|dtype" % op, "Va.%s has a complex leaf" % op)
    return 1


def _reduce(c, op):
    import nifty.re.tree_math as tm
    f, g = c.fa, c.fb
    n = 0
    if op in ("sum", "min", "max", "any", "all"):
        src = f if op in ("sum", "min", "max") else None
        if op in ("any", "all"):
            # make the outcome depend on single entries: one non-zero (any) / one zero (all) entry in one leaf
            va = [np.zeros_like(v) if op == "any" else np.ones_like(v) for v in c.va]
            results = []
            for pos in [None] + list(range(len(va))):
                vv = [v.copy() for v in va]
                if pos is not None:
                    vv[pos].reshape(-1)[-1:] = 1 if op == "any" else 0
                results.append(vv)
            import jax.numpy as jnp
            for vv in results:
                t = R.build(c.spec, vv, jnp.asarray)
                exp = getattr(np, op)(R.flat(vv))
                c.check_scalar(getattr(tm, op)(t), exp, "%s(tree)" % op, "%s|tree" % op)
                c.check_scalar(getattr(tm, op)(c.Vector(t)), exp, "%s(Vector)" % op, "%s|Vector" % op)
                n += 2
            return n
        exp = getattr(np, op)(src)
        c.check_scalar(getattr(tm, op)(c.ta), exp, "%s(tree)" % op, "%s|tree" % op)
        c.check_scalar(getattr(tm, op)(c.Va), exp, "%s(Vector)" % op, "%s|Vector" % op)
        c.check_scalar(getattr(c.Va, op)(), exp, "Vector.%s()" % op, "%s|method" % op)
        return 3
    if op == "vdot":
        exp = np.vdot(f, g)
        c.check_scalar(tm.vdot(c.ta, c.tb), exp, "vdot(ta, tb)", "vdot|tree")
        c.check_scalar(tm.vdot(c.Va, c.Vb), exp, "vdot(Va, Vb)", "vdot|Vector")
        return 2
    if op == "dot":
        exp = np.sum(f * g)
        c.check_scalar(tm.dot(c.ta, c.tb), exp, "dot(ta, tb)", "dot|tree")
        c.check_scalar(tm.matmul(c.Va, c.Vb), exp, "matmul(Va, Vb)", "dot|Vector")
        return 2
    if op.startswith("norm"):
        o = {"norm1": 1, "norm2": 2, "norminf": np.inf, "norm-inf": -np.inf, "norm3": 3, "norm0": 0}[op]
        fz = f
        ta, Va = c.ta, c.Va
        if o == 0:
            # zero entries make the count non-trivial
            import jax.numpy as jnp
            vv = [v.copy() for v in c.va]
            for v in vv:
                if v.size > 2:          # keep >= 2 non-zero entries in every non-scalar leaf: counts must ADD UP
                    v.reshape(-1)[0] = 0
            fz = R.flat(vv)
            ta = R.build(c.spec, vv, jnp.asarray)
            Va = c.Vector(ta)
        exp = np.linalg.norm(fz, ord=o)
        c.check_scalar(tm.norm(ta, ord=o), exp, "norm(tree, ord=%s)" % o, "norm|ord=%s|tree" % o)
        c.check_scalar(tm.norm(Va, ord=o), exp, "norm(Vector, ord=%s)" % o, "norm|ord=%s|Vector" % o)
        if o == 2:
            c.check_scalar(tm.norm(ta), exp, "norm(tree)", "norm|default|tree")
        return 3
    if op == "size":
        exp = f.size
        for what, res in (("size(tree)", tm.size(c.ta)), ("size(Vector)", tm.size(c.Va)), ("len(Vector)", len(c.Va)),
                          ("Vector.size", c.Va.size)):
            if int(res) != exp:
                raise Fail("size|%s" % what, "%s = %r, flat size %d" % (what, res, exp))
        for what, res in (("shape(tree)", tm.shape(c.ta)), ("shape(Vector)", tm.shape(c.Va)), ("Vector.shape", c.Va.shape)):
            if tuple(res) != (exp,):
                raise Fail("shape|%s" % what, "%s = %r, flat shape %r" % (what, res, (exp,)))
        try:
            tm.size(c.ta, axis=0)
            raise Fail("size|axis-accepted", "size(tree, axis=0) did not raise")
        except TypeError:
            pass
        return 8
    raise ValueError(op)


# ------------------------------------------------------------------ helpers (one function per op label)
def _h_where(c, cls):
    import jax.numpy as jnp
    import nifty.re.tree_math as tm
    f, g = c.fa, c.fb
    condv = [np.real(v) > 0 for v in c.va]
    fc = R.flat(condv)
    tc = R.build(c.spec, condv, jnp.asarray)
    Vc = c.Vector(tc)
    n = 0
    for what, res, exp, wv in (
            ("where(cond_tree, ta, tb)", tm.where(tc, c.ta, c.tb), np.where(fc, f, g), False),
            ("where(cond_Vector, Va, Vb)", tm.where(Vc, c.Va, c.Vb), np.where(fc, f, g), True),
            ("where(cond_tree, ta, 0.5)", tm.where(tc, c.ta, 0.5), np.where(fc, f, 0.5), False),
            ("where(cond_tree, -1, tb)", tm.where(tc, -1, c.tb), np.where(fc, -1, g), False),
            ("where(cond_tree, 1.5, -2.5)", tm.where(tc, 1.5, -2.5), np.where(fc, 1.5, -2.5), False),
            ("where(True, ta, tb)", tm.where(True, c.ta, c.tb), f, False),
            ("where(False, Va, Vb)", tm.where(False, c.Va, c.Vb), g, True),
            ("where(jnp0d-False, ta, 2.0)", tm.where(jnp.array(False), c.ta, 2.0), np.full(f.shape, 2.0), False)):
        c.check_tree(res, exp, what, "where|%s" % what.split(",")[0].replace("where(", "") + "|" + ("scalar-branch" if "0.5" in what or "-1," in what or "1.5" in what or "2.0" in what else "tree-branches"),
                     want_vector=wv)
        n += 1
    return n


def _like(c, name, val):
    import jax
    import nifty.re.tree_math as tm
    fn = getattr(tm, name)
    exp = np.full(c.fa.shape, val)
    n = 0
    for what, arg, wv in (("%s(tree)" % name, c.ta, False), ("%s(Vector)" % name, c.Va, True)):
        res = fn(arg)
        c.check_tree(res, exp, what, "%s|%s" % (name, what.split("(")[1][:-1]), want_vector=wv)
        for g, v in zip(R.unbuild(c.spec, c.unwrap(res)), c.va):
            if _np(g).dtype != v.dtype:
                raise Fail("%s|dtype" % name, "%s: leaf dtype %s, operand %s" % (what, _np(g).dtype, v.dtype))
        n += 1
    swd = jax.tree_util.tree_map(tm.ShapeWithDtype.from_leave, c.ta)
    res = fn(swd)
    c.check_tree(res, exp, "%s(ShapeWithDtype tree)" % name, "%s|ShapeWithDtype" % name, want_vector=False)
    for g, v in zip(R.unbuild(c.spec, res), c.va):
        if _np(g).dtype != v.dtype:
            raise Fail("%s|ShapeWithDtype|dtype" % name, "leaf dtype %s, described %s" % (_np(g).dtype, v.dtype))
    return n + 1


def _h_zeros_like(c, cls):
    return _like(c, "zeros_like", 0)


def _h_ones_like(c, cls):
    return _like(c, "ones_like", 1)


def _h_result_type(c, cls):
    import nifty.re.tree_math as tm
    exp = np.result_type(*[v.dtype for v in c.va])
    for what, arg in (("result_type(tree)", c.ta), ("result_type(Vector)", c.Va)):
        res = tm.result_type(arg)
        if np.dtype(res) != exp:
            raise Fail("result_type|%s" % what, "%s = %s, flat array dtype %s" % (what, res, exp))
    res = tm.result_type(c.ta, 1j)
    if np.dtype(res).kind != "c":
        raise Fail("result_type|with-scalar", "result_type(tree, 1j) = %s" % res)
    return 3


def _h_tree_shape(c, cls):
    import nifty.re.tree_math as tm
    res = tm.tree_shape(c.ta)
    import jax
    lv = jax.tree_util.tree_leaves(res, is_leaf=lambda x: isinstance(x, tuple) and all(isinstance(i, int) for i in x))
    exp = [v.shape for v in c.va]
    if [tuple(x) for x in lv] != exp:
        raise Fail("tree_shape|value", "tree_shape = %r, expected leaf shapes %r" % (res, exp))
    return 1


def _h_vectormmisc(c, cls):
    import nifty.re.tree_math as tm
    V = c.Va
    n = 0
    if V.ravel() is not V:
        raise Fail("Vector|ravel", "ravel() is not the identity")
    cp = V.copy()
    c.check_tree(cp, c.fa, "Va.copy()", "Vector|copy", want_vector=True)
    if cp is V or (c.spec[0] != "L" and cp.tree is V.tree):
        raise Fail("Vector|copy|alias", "copy() returned the same container")
    if not tm.has_arithmetics(V) or (c.spec[0] == "D" and tm.has_arithmetics(c.ta)):
        raise Fail("has_arithmetics", "has_arithmetics wrong")
    tm.assert_arithmetics(V)
    if c.spec[0] == "D":
        try:
            tm.assert_arithmetics(c.ta)
            raise Fail("assert_arithmetics", "assert_arithmetics accepted a dict")
        except AssertionError:
            pass
        k0 = sorted(c.spec[1])[0]
        if k0 not in V or "zz" in V or sorted(iter(V)) != sorted(c.spec[1]):
            raise Fail("Vector|contains-iter", "__contains__/__iter__ do not mirror the dict")
        if V[k0] is not c.ta[k0]:
            raise Fail("Vector|getitem", "V[key] is not the stored value")
        n += 3
    elif c.spec[0] in ("T", "Li"):
        if V[0] is not c.ta[0] or len(list(iter(V))) != len(c.ta):
            raise Fail("Vector|getitem", "V[0]/iter do not mirror the sequence")
        n += 2
    if not isinstance(repr(V), str) or "Vector" not in str(V):
        raise Fail("Vector|repr", "repr")
    return n + 5


def _h_mismatch(c, cls):
    """operands of different structure must be rejected, never silently combined"""
    import jax.numpy as jnp
    n = 0
    others = []
    if c.spec[0] == "L":
        others.append(("container", c.Vector({"a": c.ta})))
    else:
        # same leaves in another container kind / one leaf dropped / raw (un-wrapped) tree
        leaves = [jnp.asarray(v) for v in c.va]
        others.append(("other-container", c.Vector(tuple(leaves) if c.spec[0] != "T" or any(x[0] != "L" for x in c.spec[1]) else list(leaves))))
        others.append(("raw-tree", c.ta))
        if c.nl > 1:
            others.append(("leaf-dropped", c.Vector(tuple(leaves[:-1]))))
    for lab, o in others:
        import jax
        same = jax.tree_util.tree_structure(o) == jax.tree_util.tree_structure(c.Va)
        if same:
            continue
        for op in ("add", "mul", "lt"):
            try:
                res = _apply(op, c.Va, o)
            except Exception:      # noqa - any rejection is fine
                n += 1
                continue
            raise Fail("Vector|%s|structure-mismatch-accepted|%s" % (op, lab),
                       "Va %s <%s> did not raise; returned %r" % (_PYOP[op], lab, R._short(res)))
    return n


def _forest(c, k=3):
    import jax.numpy as jnp
    vs = [R.values(c.spec, 1000 + c_i, 7, "generic") for c_i in range(k)]
    ts = [R.build(c.spec, v, jnp.asarray) for v in vs]
    return vs, ts


def _stack_axis(c, axis, lab):
    import nifty.re.tree_math as tm
    vs, ts = _forest(c)
    minnd = min(v.ndim for v in c.va)
    if axis != 0 and (axis > minnd or (axis < 0 and False)):
        # jnp.stack needs the axis to exist in every leaf
        try:
            tm.stack(ts, axis=axis)
        except Exception:      # noqa
            return 1
        raise Fail("stack|axis=%s|accepted-invalid" % lab, "stack(axis=%s) accepted a leaf of rank %d" % (axis, minnd))
    st = tm.stack(ts, axis=axis)
    exp = [np.stack([v[i] for v in vs], axis=axis) for i in range(c.nl)]
    lv = R.unbuild(c.spec, st)
    for i, (g, e) in enumerate(zip(lv, exp)):
        if _np(g).shape != e.shape or not _eq(g, e):
            raise Fail("stack|axis=%s|value" % lab, "stack(axis=%s): leaf %d shape %s vs %s" % (axis, i, _np(g).shape, e.shape))
    try:
        un = tm.unstack(st, axis=axis)
    except Exception as e:     # noqa
        raise Fail("unstack|axis=%s|raises:%s" % (lab, type(e).__name__),
                   "unstack(stack(trees, axis=%s), axis=%s) raised %r" % (axis, axis, e))
    if not isinstance(un, (tuple, list)) or len(un) != len(ts):
        raise Fail("unstack|axis=%s|count" % lab, "unstack returned %d trees for %d stacked" % (len(un) if hasattr(un, "__len__") else -1, len(ts)))
    for j, (u, v) in enumerate(zip(un, vs)):
        try:
            lv = R.unbuild(c.spec, u)
        except R.StructureError as e:
            raise Fail("unstack|axis=%s|structure" % lab, "unstack: tree %d: %s" % (j, e))
        for i, (g, e) in enumerate(zip(lv, v)):
            if _np(g).shape != e.shape or not _eq(g, e):
                raise Fail("unstack|axis=%s|value" % lab, "unstack(stack(.)) tree %d leaf %d: shape %s vs %s, values %s vs %s"
                           % (j, i, _np(g).shape, e.shape, _np(g).reshape(-1)[:3], e.reshape(-1)[:3]))
    return 2


def _h_stack(c, cls):
    return _stack_axis(c, 0, "0")


def _h_stack1(c, cls):
    return _stack_axis(c, 1, "1")


def _h_stackm1(c, cls):
    return _stack_axis(c, -1, "-1")


def _h_mean(c, cls):
    import nifty.re.tree_math as tm
    vs, ts = _forest(c, 4)
    F = np.stack([R.flat(v) for v in vs])
    exp = F.mean(axis=0)
    c.check_tree(tm.mean(ts), exp, "mean(trees)", "mean|tree", want_vector=False)
    c.check_tree(tm.mean(tuple(c.Vector(t) for t in ts)), exp, "mean(Vectors)", "mean|Vector", want_vector=True)
    return 2


def _h_mean_and_std(c, cls):
    import nifty.re.tree_math as tm
    vs, ts = _forest(c, 4)
    F = np.stack([R.flat(v) for v in vs])
    n = 0
    cplx = "complex" if np.iscomplexobj(F) else "real"
    for cb in (True, False):
        for wrap in (False, True):
            arg = tuple(c.Vector(t) for t in ts) if wrap else ts
            m, s = tm.mean_and_std(arg, correct_bias=cb)
            c.check_tree(m, F.mean(axis=0), "mean_and_std(.)[0]", "mean_and_std|mean", want_vector=wrap)
            # compare the std at 1e-7: sqrt(E[x^2]-m^2) loses digits by cancellation
            exp = F.std(axis=0, ddof=1 if cb else 0)
            try:
                lv = R.unbuild(c.spec, c.unwrap(s))
            except R.StructureError as e:
                raise Fail("mean_and_std|std|structure", str(e))
            got = R.flat([_np(x) for x in lv])
            if got.shape != exp.shape or not np.allclose(got, exp, rtol=1e-7, atol=1e-7, equal_nan=False):
                raise Fail("mean_and_std|std|%s|correct_bias=%s" % (cplx, cb),
                           "std = %s, numpy std(ddof=%d) of the flat samples = %s" % (got[:3], int(cb), exp[:3]))
            n += 2
    return n


def _h_map_forest(c, cls):
    import jax.numpy as jnp
    import nifty.re.tree_math as tm
    vs, ts = _forest(c)
    w = 1.5

    def f(scale, t):
        return tm.Vector(t) * scale + 1.0

    n = 0
    for mp in ("vmap", "smap", "lmap"):
        res = tm.map_forest(f, in_axes=(None, 0), map=mp)(w, tuple(ts))
        if len(res) != len(ts):
            raise Fail("map_forest|%s|count" % mp, "map_forest returned %d outputs" % len(res))
        for r, v in zip(res, vs):
            c.check_tree(r, R.flat(v) * w + 1.0, "map_forest(map=%s)" % mp, "map_forest|%s" % mp)
        res = tm.map_forest_mean(f, map=mp, in_axes=(None, 0))(w, tuple(ts))
        c.check_tree(res, np.mean([R.flat(v) * w + 1.0 for v in vs], axis=0), "map_forest_mean(map=%s)" % mp, "map_forest_mean|%s" % mp)
        n += 2
    return n


def _h_unite(c, cls):
    import operator
    import jax.numpy as jnp
    from nifty.re.tree_math.forest_math import unite
    n = 0
    if c.spec[0] != "D":
        # non-dict operands: documented to apply op directly; with array leaves only
        if c.spec[0] == "L":
            res = unite(c.Va, c.Vb)
            c.check_tree(res, c.fa + c.fb, "unite(Va, Vb)", "unite|leaf", want_vector=True)
            return 1
        return 0
    keys = sorted(c.spec[1])
    leafkeys = [k for k in keys if c.spec[1][k][0] == "L"]
    x = dict(c.ta)
    # y: shares the leaf-valued keys, lacks the container-valued ones, has one extra key
    y = {k: c.tb[k] for k in leafkeys}
    y["zz"] = jnp.asarray(np.array([7., 8.]))
    for opn, op in (("add", operator.add), ("mul", operator.mul)):
        for wrapx, wrapy in ((False, False), (True, True), (True, False), (False, True)):
            res = unite(c.Vector(x) if wrapx else x, c.Vector(y) if wrapy else y, op=op)
            wv = wrapx or wrapy
            if isinstance(res, c.Vector) != wv:
                raise Fail("unite|wrapper", "unite returned %s" % type(res).__name__)
            r = c.unwrap(res)
            if sorted(r) != sorted(set(keys) | {"zz"}):
                raise Fail("unite|keys", "unite keys %s, expected %s" % (sorted(r), sorted(set(keys) | {"zz"})))
            for k in keys:
                sub = c.spec[1][k]
                vx = R.unbuild(sub, x[k])
                got = R.unbuild(sub, r[k])
                if k in leafkeys:
                    e = op(_np(vx[0]), _np(y[k]))
                    if not _eq(got[0], e):
                        raise Fail("unite|%s|shared-key" % opn, "shared key %r: %s, expected %s" % (k, _np(got[0]).reshape(-1)[:3], e.reshape(-1)[:3]))
                else:
                    for g, e in zip(got, vx):
                        if not _eq(g, e):
                            raise Fail("unite|%s|exclusive-key" % opn, "key %r only in x was changed" % k)
            if not _eq(r["zz"], [7., 8.]):
                raise Fail("unite|%s|exclusive-key" % opn, "key only in y was changed")
            n += 1
    return n


def _h_random_like(c, cls):
    import jax
    import nifty.re.tree_math as tm
    res = tm.random_like(jax.random.PRNGKey(1), c.Va if cls != "int" else c.Va)
    real = [v for v in c.va]
    lv = R.unbuild(c.spec, c.unwrap(res))
    for g, v in zip(lv, real):
        if _np(g).shape != v.shape or _np(g).dtype != v.dtype:
            raise Fail("random_like|shape-dtype", "leaf %s/%s, expected %s/%s" % (_np(g).shape, _np(g).dtype, v.shape, v.dtype))
    fl = R.flat([_np(g) for g in lv])
    if fl.size > 1 and len(set(np.round(np.abs(fl), 12).tolist())) < fl.size:
        raise Fail("random_like|duplicate-draws", "two entries received the same draw (key reuse): %s" % fl[:6])
    return 1


# =====================================================================================  part 2: maps
def _map_fn(name):
    """(jax function, numpy function)"""
    import jax.numpy as jnp
    if name == "neg":
        return (lambda x: -2.0 * x), (lambda x: -2.0 * x)
    if name == "add":
        return (lambda x, y: x + 2.0 * y), (lambda x, y: x + 2.0 * y)
    if name == "add3":
        return (lambda x, y, z: x + 2.0 * y - 3.0 * z), (lambda x, y, z: x + 2.0 * y - 3.0 * z)
    if name == "inner":
        return (lambda x, y: jnp.vdot(x, y)), (lambda x, y: np.vdot(x, y))
    if name == "tree":
        return ((lambda x, y: {"s": x + y, "p": (x * y, jnp.sum(x))}),
                (lambda x, y: {"s": x + y, "p": (x * y, np.sum(x))}))
    if name == "dictarg":
        return ((lambda d, y: (d["a"] * y, d["b"] - y)), (lambda d, y: (d["a"] * y, d["b"] - y)))
    raise ValueError(name)


N_MAP = 3


def _arg(rank, ax, rng):
    """array with the mapped length N_MAP on axis `ax` (None: the slice shape itself)"""
    slice_shape = (2,) if rank == 2 else (2, 4)
    if ax is None:
        return np.round(rng.uniform(-2, 2, slice_shape), 3)
    full = list(slice_shape)
    pos = ax if ax >= 0 else len(slice_shape) + 1 + ax
    full.insert(pos, N_MAP)
    return np.round(rng.uniform(-2, 2, tuple(full)), 3)


def _leaves_axes(case):
    """flatten (args, in_axes) -> list of per-leaf axes in argument order; args as numpy"""
    rng = np.random.default_rng([3301, case["seed"]])
    args, axes = [], []
    for k, ax in enumerate(case["in_axes"]):
        if case["fn"] == "dictarg" and k == 0:
            if isinstance(ax, list):
                a = {"a": _arg(case["rank"], ax[0], rng), "b": _arg(case["rank"], ax[1], rng)}
                axes.append({"a": ax[0], "b": ax[1]})
            else:
                a = {"a": _arg(case["rank"], ax, rng), "b": _arg(case["rank"], ax, rng)}
                axes.append(ax)
            args.append(a)
        else:
            args.append(_arg(case["rank"], ax, rng))
            axes.append(ax)
    return args, axes


def _loop_reference(npf, args, axes, out_axes):
    """explicit python loop over the mapped index; returns list of output leaves (my own flatten) stacked on out axis"""
    def take(a, ax, i):
        if isinstance(a, dict):
            return {k: take(a[k], ax[k] if isinstance(ax, dict) else ax, i) for k in a}
        return a if ax is None else np.take(a, i, axis=ax)
    outs = [npf(*[take(a, ax, i) for a, ax in zip(args, axes)]) for i in range(N_MAP)]
    return outs


def _flatten_out(o):
    if isinstance(o, dict):
        return [l for k in sorted(o) for l in _flatten_out(o[k])]
    if isinstance(o, (tuple, list)):
        return [l for x in o for l in _flatten_out(x)]
    return [o]


def _run_map(case):
    import jax
    import jax.numpy as jnp
    from nifty.re import custom_map as cm
    jf, nf = _map_fn(case["fn"])
    args, axes = _leaves_axes(case)
    jargs = jax.tree_util.tree_map(jnp.asarray, args)
    form = case["form"]
    if form == "int":
        in_axes = case["in_axes"][0]
    else:
        in_axes = tuple(axes)
    out_axes = case["out_axes"]
    oa = tuple(out_axes) if isinstance(out_axes, list) else out_axes
    mapper = case["mapper"]
    if mapper == "smap":
        mp = cm.smap(jf, in_axes=in_axes, out_axes=oa, unroll=case.get("unroll", 1))
    else:
        mp = cm.lmap(jf, in_axes=in_axes, out_axes=oa)
    # the specification: jax.vmap
    try:
        ref_v = jax.vmap(jf, in_axes=in_axes, out_axes=oa)(*jargs)
        v_err = None
    except Exception as e:     # noqa
        ref_v, v_err = None, e
    try:
        got = mp(*jargs)
        g_err = None
    except Exception as e:     # noqa
        got, g_err = None, e
    lab = "%s|%s" % (mapper, case["fn"])
    allnone = all(a is None for a in _flatten_out(case["in_axes"]))
    if v_err is not None:
        if g_err is not None:
            return ok(nontrivial=True, outcome="map|%s|both-reject(%s)" % (mapper, "no-mapped-axis" if allnone else "invalid-out-axis"))
        raise Fail("%s|accepted-spec-vmap-rejects|%s" % (mapper, "no-mapped-axis" if allnone else "out_axes"),
                   "jax.vmap rejects in_axes=%r out_axes=%r (%s) but %s returned %r"
                   % (in_axes, oa, type(v_err).__name__, mapper, R._short(got)))
    if g_err is not None:
        if "Non-hashable static arguments" in str(g_err):
            raise Fail("%s|pytree-axes-spec|non-hashable-static-argument" % mapper,
                       "%s rejects the dict-valued axis specification in_axes=%r out_axes=%r (jit static argument must be "
                       "hashable) which jax.vmap and lmap accept: %s" % (mapper, in_axes, oa, str(g_err)[:120]))
        raise Fail("%s|raises:%s|%s" % (mapper, type(g_err).__name__, case["form"]),
                   "%s raised %r for in_axes=%r out_axes=%r which jax.vmap accepts" % (mapper, g_err, in_axes, oa))
    # independent loop reference
    outs = [_flatten_out(o) for o in _loop_reference(nf, args, [a for a in axes], oa)]
    gl = [_np(x) for x in _flatten_out(got)]
    vl = [_np(x) for x in _flatten_out(ref_v)]
    if jax.tree_util.tree_structure(got) != jax.tree_util.tree_structure(ref_v):
        raise Fail("%s|output-structure" % lab, "output structure %s differs from vmap's %s"
                   % (jax.tree_util.tree_structure(got), jax.tree_util.tree_structure(ref_v)))
    nleaf = len(outs[0])
    oal = list(oa) if isinstance(oa, tuple) else None
    for j in range(nleaf):
        sl = [np.asarray(o[j]) for o in outs]
        if oal is not None:
            # pytree out_axes (tuple output of dictarg): per top-level entry
            axj = oal[j]
        else:
            axj = oa
        exp = np.stack(sl, axis=axj)
        if gl[j].shape != exp.shape:
            raise Fail("%s|output-shape|out_axes=%s" % (lab, axj), "output leaf %d has shape %s, loop reference %s (vmap %s)"
                       % (j, gl[j].shape, exp.shape, vl[j].shape))
        if not _eq(gl[j], exp, 1e-12):
            raise Fail("%s|output-value" % lab, "output leaf %d differs from the python loop over slices: %s vs %s"
                       % (j, gl[j].reshape(-1)[:4], exp.reshape(-1)[:4]))
        if vl[j].shape != gl[j].shape or not _eq(gl[j], vl[j], 1e-12):
            raise Fail("%s|differs-from-vmap" % lab, "output leaf %d differs from jax.vmap" % j)
    nmapped = sum(a is not None for a in _flatten_out(case["in_axes"]))
    return ok(nontrivial=nmapped >= 1, outcome="map|%s|%s|mapped=%d|out=%s" % (mapper, case["fn"], nmapped, case["out_axes"]),
              stats=dict(forms=1))
