"""C21 Runs are reproducible and independent of execution strategy.

(H) explicit-state BFS over histories of RNG-stack operations on the REAL
    nifty.cl.random module, a reference model (list of (kind, seed, draws,
    spawned)) stepped in lock-step; canonical state = the reference list.
(P) cross-process bit-identity of a classic and a JAX VI run (fresh
    interpreters, random PYTHONHASHSEED); complete product residual_map x
    kl_map x jit of the JAX driver against the (vmap, vmap, jit) result.
"""
import json
import os
import subprocess
import sys

import numpy as np

from vf.core import ok, bad, skip

ID = "C21"
LEVEL = "model_checking"
RULE = ("(H) BFS to a depth over {enter/exit Context(a|b), exit-by-exception, with-block ok/raising, "
        "push_sseq_from_seed, pop, draw, spawn}; state = reference model of the stack; every state checks depth, "
        "identity of the restored generator, next draw and next spawn against numpy from the seed alone. "
        "(P) every (residual_map, kl_map, jit) configuration; two fresh processes per driver. "
        "non-trivial = history containing a context exit / configuration differing from the baseline")
ASSUMPTIONS = [
    "well-nested use of the stack (pop only what was pushed, exit only the innermost context), as documented",
    "JAX results across map/jit choices compared at 1e-10 relative (round-off), across processes bit-identical",
]

SEEDS = {"a": 11, "b": 2024}
OPS = ["enter_a", "enter_b", "exit", "exit_exc", "with_ok_a", "with_raise_b", "with_same_a", "push_a", "pop", "draw", "spawn"]


class _Boom(Exception):
    pass


# ------------------------------------------------------------ reference model
def _expected_draw(seed, ndraws):
    return np.random.default_rng(np.random.SeedSequence(seed)).normal(0., 1., size=(ndraws + 1, 2))[-1]


def _expected_spawn(seed, nspawned):
    ch = np.random.SeedSequence(seed).spawn(2 * (nspawned + 1))[-2:]
    return [tuple(c.generate_state(2)) for c in ch]


def model_enabled(model):
    top = model[-1]
    en = ["enter_a", "enter_b", "with_ok_a", "with_raise_b", "with_same_a", "push_a", "draw", "spawn"]
    if top[0] == "ctx":
        en += ["exit", "exit_exc"]
    if top[0] == "push":
        en += ["pop"]
    return [o for o in OPS if o in en]


def model_step(model, op):
    model = [list(e) for e in model]
    if op in ("enter_a", "enter_b"):
        model.append(["ctx", SEEDS[op[-1]], 0, 0])
    elif op == "push_a":
        model.append(["push", SEEDS["a"], 0, 0])
    elif op in ("exit", "exit_exc", "pop"):
        model.pop()
    elif op == "draw":
        model[-1][2] += 1
    elif op == "spawn":
        model[-1][3] += 1
    # with_ok_a / with_raise_b / with_same_a: balanced, no change of the model stack
    return tuple(tuple(e) for e in model)


INIT_MODEL = (("base", 42, 0, 0),)


# ------------------------------------------------------------ implementation stepping
class Impl:
    def __init__(self):
        import nifty.cl as ift
        from vf import models_cl
        self.rnd = ift.random
        models_cl.reset_random()
        self.same = rnd_ctx = None   # one Context object that is entered again and again (op with_same_a)
        self.ctxs = []        # live Context objects, innermost last
        self.gens = [self.rnd.current_rng()]   # generator identities per level

    def step(self, op, model_before):
        """Apply op; return violation string or None.  Observations are compared
        with the reference model computed from seeds alone."""
        rnd = self.rnd
        top = model_before[-1]
        if op in ("enter_a", "enter_b"):
            c = rnd.Context(SEEDS[op[-1]])
            c.__enter__()
            self.ctxs.append(c)
            self.gens.append(rnd.current_rng())
        elif op == "push_a":
            rnd.push_sseq_from_seed(SEEDS["a"])
            self.ctxs.append(None)
            self.gens.append(rnd.current_rng())
        elif op == "pop":
            rnd.pop_sseq()
            self.ctxs.pop()
            self.gens.pop()
        elif op == "exit":
            c = self.ctxs.pop()
            c.__exit__(None, None, None)
            self.gens.pop()
        elif op == "exit_exc":
            c = self.ctxs.pop()
            try:
                raise _Boom()
            except _Boom as e:
                r = c.__exit__(type(e), e, e.__traceback__)
            self.gens.pop()
            if r:
                return "Context.__exit__ swallows an exception raised inside the context"
        elif op == "with_ok_a":
            with rnd.Context(SEEDS["a"]):
                d = rnd.current_rng().normal(0., 1., 2)
            if not np.array_equal(d, _expected_draw(SEEDS["a"], 0)):
                return "draw inside a fresh context does not depend on its seed only"
        elif op == "with_same_a":
            # the SAME Context object entered once more (also after a block left by an exception):
            # draws inside a context depend only on its seed, so every entry sees the stream from its start
            if self.same is None:
                self.same = rnd.Context(SEEDS["a"])
            try:
                with self.same:
                    d = rnd.current_rng().normal(0., 1., 2)
                    raise _Boom()
            except _Boom:
                pass
            with self.same:
                d2 = rnd.current_rng().normal(0., 1., 2)
            if not (np.array_equal(d, _expected_draw(SEEDS["a"], 0)) and np.array_equal(d2, _expected_draw(SEEDS["a"], 0))):
                return "draws inside a re-entered Context object do not depend on its seed only"
        elif op == "with_raise_b":
            caught = False
            try:
                with rnd.Context(SEEDS["b"]):
                    d = rnd.current_rng().normal(0., 1., 2)
                    raise _Boom()
            except _Boom:
                caught = True
            if not caught:
                return "exception raised inside `with Context` did not propagate"
            if not np.array_equal(d, _expected_draw(SEEDS["b"], 0)):
                return "draw inside a fresh context does not depend on its seed only"
        elif op == "draw":
            d = rnd.current_rng().normal(0., 1., 2)
            if not np.array_equal(d, _expected_draw(top[1], top[2])):
                return "draw #%d at level (%s, seed %d) differs from numpy's stream for that seed" % (top[2], top[0], top[1])
        elif op == "spawn":
            ch = [tuple(c.generate_state(2)) for c in rnd.spawn_sseq(2)]
            if ch != _expected_spawn(top[1], top[3]):
                return "spawned seed sequences differ from numpy's for that seed"
        return None

    def invariant(self, model):
        rnd = self.rnd
        if len(rnd._sseq) != len(model) or len(rnd._rng) != len(model):
            return "stack depth %d/%d, expected %d" % (len(rnd._sseq), len(rnd._rng), len(model))
        if rnd.current_rng() is not self.gens[-1]:
            return "current generator is not the one that was current at this stack level"
        # peek (on a copy) that the top generator continues numpy's stream for its seed
        top = model[-1]
        g = rnd.current_rng()
        st = g.bit_generator.state
        d = g.normal(0., 1., 2)
        g.bit_generator.state = st
        if not np.array_equal(d, _expected_draw(top[1], top[2])):
            return "restored generator does not continue where it was (level %s seed %d after %d draws)" % (
                top[0], top[1], top[2])
        return None


def bfs(prefix, depth):
    """BFS over histories extending `prefix` up to total length `depth`."""
    from collections import deque
    seen = set()
    states = transitions = 0
    maxdepth = 0
    exits = 0

    def build(hist):
        im = Impl()
        m = INIT_MODEL
        for op in hist:
            if op not in model_enabled(m):
                return None, None, "prefix not enabled"
            v = im.step(op, m)
            if v:
                return im, m, v
            m = model_step(m, op)
            v = im.invariant(m)
            if v:
                return im, m, v
        return im, m, None

    im, m0, v = build(prefix)
    if m0 is None:
        return dict(states=0, transitions=0, violation=None, vacuous=True)
    if v:
        return dict(states=1, transitions=len(prefix), violation=dict(history=list(prefix), what=v))
    frontier = deque([list(prefix)])
    seen.add((m0, len(prefix)))
    while frontier:
        hist = frontier.popleft()
        _, m, _ = build(hist)
        states += 1
        maxdepth = max(maxdepth, len(hist))
        if len(hist) >= depth:
            continue
        for op in model_enabled(m):
            transitions += 1
            im, _, v0 = build(hist)
            v = im.step(op, m)
            m2 = model_step(m, op)
            if not v:
                v = im.invariant(m2)
            if v:
                return dict(states=states, transitions=transitions,
                            violation=dict(history=hist + [op], what=v))
            if op in ("exit", "exit_exc", "pop", "with_ok_a", "with_raise_b", "with_same_a"):
                exits += 1
            key = (m2, len(hist) + 1)   # depth-bounded search: the remaining budget is part of the state
            if key not in seen:
                seen.add(key)
                frontier.append(hist + [op])
    return dict(states=states, transitions=transitions, violation=None, maxdepth=maxdepth, exits=exits)


# ------------------------------------------------------------ (P) whole runs
def cl_run_digest():
    import nifty.cl as ift
    from vf import models_cl
    models_cl.quiet()
    lh = models_cl.four_key_model()      # no initial_position: the driver random-initialises all four keys
    mini, ic = models_cl.minimizers()
    with ift.random.Context(7):
        sl, mean = ift.optimize_kl(lh, 2, 2, mini, ic, return_final_position=True, comm=None,
                                   output_directory=None)
    return models_cl.samplelist_digest(sl, mean)


def re_run(residual_map="lmap", kl_map="vmap", jit=True, as_digest=True):
    import logging
    logging.getLogger("nifty.re.logger").setLevel(logging.ERROR)
    import jax
    import jax.numpy as jnp
    import nifty.re as jft
    data = jnp.array([0.3, -1.2, 2.0])
    R = jnp.array([[1.0, 0.5], [0.2, -1.0], [0.7, 0.3]])

    def fwd(x):
        return R @ (jnp.exp(0.3 * x["a"]) * x["b"])
    lh = jft.Gaussian(data, noise_std_inv=lambda t: 2.0 * t).amend(fwd)
    pos = jft.Vector({"a": jnp.array([0.1, -0.2]), "b": jnp.array([0.5, 1.5])})
    maps = {"vmap": jax.vmap, "lmap": "lmap", "smap": "smap"}
    delta = 1e-8
    samples, state = jft.optimize_kl(
        lh, pos, key=jax.random.PRNGKey(3), n_total_iterations=2, n_samples=2,
        sample_mode=lambda i: ["linear_resample", "nonlinear_update"][i],
        kl_map=maps[kl_map], residual_map=residual_map if residual_map != "vmap" else "vmap", jit=jit,
        # JIT/vmap-compatible minimisers for every configuration, so that only the map / jit choice varies
        draw_linear_kwargs=dict(cg=jft.conjugate_gradient.static_cg, cg_name=None,
                                cg_kwargs=dict(absdelta=delta, maxiter=20)),
        nonlinearly_update_kwargs=dict(minimize=jft.optimize._static_newton_cg,
                                       minimize_kwargs=dict(name=None, xtol=delta, cg_kwargs=dict(name=None), maxiter=5)),
        kl_kwargs=dict(minimize_kwargs=dict(name=None, xtol=delta, cg_kwargs=dict(name=None), maxiter=5)),
    )
    leaves = jax.tree_util.tree_leaves((samples.pos, samples._samples))
    flat = np.concatenate([np.asarray(l, dtype=np.float64).ravel() for l in leaves])
    if as_digest:
        return flat.tobytes().hex()
    return flat.tolist()


def re_run_long(cg_kind="static", residual_map="lmap", jit=True):
    """Linear sampling on a 24-dimensional model whose metric has 24 well-separated eigenvalues: the sampling CG
    needs more than N_RESET = 20 iterations, so the periodic exact-residual branch of both CG implementations
    (Python loop `cg`, compiled `static_cg`) is exercised.  Only the CG implementation / map / jit vary."""
    import logging
    logging.getLogger("nifty.re.logger").setLevel(logging.ERROR)
    import jax
    import jax.numpy as jnp
    import nifty.re as jft
    n = 24
    w = jnp.asarray(np.geomspace(0.3, 3., n))
    data = jnp.asarray(np.cos(np.arange(n) * 1.3))

    def fwd(x):
        return w * x["a"]
    lh = jft.Gaussian(data, noise_std_inv=lambda t: 2.0 * t).amend(fwd)
    pos = jft.Vector({"a": jnp.asarray(0.1 * np.sin(np.arange(n) * 0.7))})
    cgf = jft.conjugate_gradient.static_cg if cg_kind == "static" else jft.conjugate_gradient.cg
    its = []

    def counting_cg(*a, **k):
        res = cgf(*a, **k)
        return res
    samples, state = jft.optimize_kl(
        lh, pos, key=jax.random.PRNGKey(5), n_total_iterations=1, n_samples=2,
        sample_mode="linear_sample", kl_map=jax.vmap,
        residual_map=residual_map if residual_map != "vmap" else "vmap", jit=jit,
        draw_linear_kwargs=dict(cg=cgf, cg_name=None, cg_kwargs=dict(absdelta=1e-30, miniter=38, maxiter=38)),
        kl_kwargs=dict(minimize=jft.optimize._static_newton_cg,
                       minimize_kwargs=dict(name=None, xtol=1e-8, cg_kwargs=dict(name=None), maxiter=3)),
    )
    leaves = jax.tree_util.tree_leaves(samples._samples)
    return np.concatenate([np.asarray(l, dtype=np.float64).ravel() for l in leaves]).tolist()


def _subprocs(fn_call, hashseeds):
    """Run the call in fresh interpreters (concurrently), one per hash seed (None = random)."""
    procs = []
    code = "import json; from vf.props import c21; print('RESULT:' + json.dumps(c21.%s))" % fn_call
    for hs in hashseeds:
        env = dict(os.environ)
        env.pop("PYTHONHASHSEED", None)
        if hs is not None:
            env["PYTHONHASHSEED"] = str(hs)
        procs.append(subprocess.Popen([sys.executable, "-c", code], env=env, stdout=subprocess.PIPE,
                                      stderr=subprocess.PIPE, text=True))
    res = []
    for p in procs:
        out, err = p.communicate(timeout=1800)
        r = [json.loads(l[7:]) for l in out.splitlines() if l.startswith("RESULT:")]
        if not r:
            raise RuntimeError("subprocess failed: %s" % (err[-1500:],))
        res.append(r[0])
    return res


def cases(tier, seed):
    depth = 6 if tier == "quick" else 8
    out = []
    # BFS shards: all enabled prefixes of length 2
    for a in model_enabled(INIT_MODEL):
        m1 = model_step(INIT_MODEL, a)
        for b in model_enabled(m1):
            out.append(dict(kind="bfs", prefix=[a, b], depth=depth))
    out.append(dict(kind="xproc", driver="cl"))
    out.append(dict(kind="xproc", driver="re"))
    maps = ["vmap", "lmap", "smap"]
    for rm in maps:
        for km in maps:
            for jit in (True, False):
                out.append(dict(kind="reconf", residual_map=rm, kl_map=km, jit=jit))
    # long sampling CG (> N_RESET iterations): Python-loop cg (eager maps only) vs compiled static_cg
    for cgk, rm, jit in (("static", "vmap", True), ("static", "lmap", True), ("static", "smap", True),
                         ("static", "lmap", False), ("python", "lmap", False), ("python", "lmap", True)):
        out.append(dict(kind="reconf-long", cg=cgk, residual_map=rm, jit=jit))
    return out


_BASE = {}


def run(case):
    if case["kind"] == "bfs":
        r = bfs(case["prefix"], case["depth"])
        st = dict(states=r["states"], transitions=r["transitions"])
        if r.get("violation"):
            v = r["violation"]
            return bad("%s after history %s" % (v["what"], v["history"]), finding_key=None, detail=v, stats=st)
        return ok(nontrivial=r.get("exits", 0) > 0, outcome="bfs-ok", stats=st,
                  detail=dict(prefix=case["prefix"], states=r["states"], transitions=r["transitions"]))
    if case["kind"] == "xproc":
        call = "cl_run_digest()" if case["driver"] == "cl" else "re_run()"
        # fixed, distinct hash seeds (deterministic coverage of hash-order dependent code) plus two random ones
        res = _subprocs(call, [0, 1, 2, 3, 4, 5, None, None] if case["driver"] == "cl" else [0, 1, None])
        if any(r != res[0] for r in res[1:]):
            return bad("%s VI run is not bit-identical across fresh processes" % case["driver"],
                       finding_key="xproc|%s" % case["driver"])
        return ok(nontrivial=True, outcome="xproc-identical-" + case["driver"])
    if case["kind"] == "reconf":
        if "base" not in _BASE:
            _BASE["base"] = np.array(re_run("vmap", "vmap", True, as_digest=False))
        try:
            got = np.array(re_run(case["residual_map"], case["kl_map"], case["jit"], as_digest=False))
        except Exception as e:
            return bad("JAX VI run fails for configuration %s: %r" % (case, e),
                       finding_key="reconf-raises|%s|%s|%s" % (case["residual_map"], case["kl_map"], case["jit"]))
        base = _BASE["base"]
        err = float(np.abs(got - base).max() / max(1., np.abs(base).max()))
        if not (got.shape == base.shape and err <= 1e-10):
            return bad("JAX VI result depends on execution strategy %s: rel. deviation %.3g" % (case, err),
                       finding_key="reconf-differs|%s|%s|%s" % (case["residual_map"], case["kl_map"], case["jit"]))
        trivial = (case["residual_map"], case["kl_map"], case["jit"]) == ("vmap", "vmap", True)
        return ok(nontrivial=not trivial, outcome="reconf-agree", detail=dict(rel_dev=err))
    if case["kind"] == "reconf-long":
        if "long" not in _BASE:
            _BASE["long"] = np.array(re_run_long("static", "vmap", True))
        try:
            got = np.array(re_run_long(case["cg"], case["residual_map"], case["jit"]))
        except Exception as e:
            return bad("JAX VI run (long CG) fails for configuration %s: %r" % (case, e),
                       finding_key="reconf-long-raises|%s|%s|%s" % (case["cg"], case["residual_map"], case["jit"]))
        base = _BASE["long"]
        err = float(np.abs(got - base).max() / max(1., np.abs(base).max()))
        # same Krylov iteration in both implementations: agreement to round-off amplified by the condition number
        if not (got.shape == base.shape and err <= 1e-9):
            return bad("JAX VI samples depend on the execution strategy %s when the sampling CG runs more than "
                       "N_RESET iterations: rel. deviation %.3g" % (case, err),
                       finding_key="reconf-long-differs|%s|%s|%s" % (case["cg"], case["residual_map"], case["jit"]))
        trivial = (case["cg"], case["residual_map"], case["jit"]) == ("static", "vmap", True)
        return ok(nontrivial=not trivial, outcome="reconf-long-agree", detail=dict(rel_dev=err))
    raise ValueError(case)


def finish(run):
    return dict(states=int(run.extra.get("states", 0)), transitions=int(run.extra.get("transitions", 0)),
                traces_validated_against_impl=int(run.extra.get("transitions", 0)),
                note="every transition of the reference-model graph is executed on the real module (the model is stepped in lock-step)")
