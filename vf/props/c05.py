"""C05 Operator-tree optimisation preserves semantics.

Mode P: every straight-line program with <= L terms over {+, * (point-wise), linear@} and a leaf alphabet
(FieldAdapter, ducktaped linear operator, exp / Diagonal@exp of a FieldAdapter sharing a prefix, sigmoid of a
linear chain on a second key, one UniformOperator object applied to the keys a and c), in which a term may reuse earlier terms and leaves any number of times (shared
sub-tree objects, shared leaf objects -- the optimiser keys on object identity), is built as a NIFTy operator and
handed to `optimise_operator`.  At EVERY point of the grid 3^(#pixels of the domain) the optimised operator must
have the value and the dense Jacobian of an independent numpy transliteration (forward-mode chain rule), as must
the original operator (before and after the optimisation: the input must not be damaged); domain and target must
be the identical objects.
"""
import contextlib
import io
import itertools
import os
import re
import signal
import warnings

import numpy as np

from vf.core import ok, bad, skip
from vf.ref import c05_programs as pg

ID = "C05"
LEVEL = "exploration"
RULE = ("case = one straight-line program (DAG with sharing encoded; programs with the same object graph are "
        "identified) with <= L terms over ops {add, mul, lin S3/D4} and leaves {X FieldAdapter a, A Diagonal@X, "
        "E exp(X), G Diagonal@E (shares the chain prefix exp@X with E), B sigmoid(Diagonal@broadcast@FieldAdapter b)}; "
        "all programs in which every term is used are enumerated; each is evaluated on the full grid 3^(#pixels) "
        "(value + dense Jacobian, adjoint Jacobian at one point); non-trivial = the optimiser returned a "
        "restructured tree (contains inserted FieldAdapters)")
ASSUMPTIONS = [
    "grid values {-0.7, 0.2, 1.1} (+ seeded jitter), diagonal entries in +-[0.5,1.6]: generic numeric fill (VERIF_SEED)",
    "the random draw of the optimiser's built-in self-check is isolated by ift.random.Context",
    "comparison tolerance 1e-11 relative to max(1, |values|) (expressions have <= 4 products of O(1..20) numbers)",
    "operators are defined on MultiDomains (the optimiser documents this requirement by a warning)",
    "an optimise_operator call that consumes more than 20 s of CPU time is reported as non-terminating",
]

SPACES = {
    "quick": [
        ("all5+S3+D4:L<=2", pg.LEAVES, ("S3", "D4"), 2),
        ("XEG+S3:L<=3", ("X", "E", "G"), ("S3",), 3),
        ("EGB+S3:L<=3", ("E", "G", "B"), ("S3",), 3),
        ("XB+S3:L<=3", ("X", "B"), ("S3",), 3),
        ("E+S3:L<=4", ("E",), ("S3",), 4),      # smallest alphabet at length 4: nested shared sub-trees
        ("UV+S3:L<=3", ("U", "V"), ("S3",), 3),  # one operator object on two different keys
        ("UVE:L<=2", ("U", "V", "E"), (), 2),
    ],
    "thorough": [
        ("all5+S3+D4:L<=2", pg.LEAVES, ("S3", "D4"), 2),
        ("all5+S3:L<=3", pg.LEAVES, ("S3",), 3),
        ("EG+S3:L<=4", ("E", "G"), ("S3",), 4),
        ("EB+S3:L<=4", ("E", "B"), ("S3",), 4),
        ("UV+S3:L<=3", ("U", "V"), ("S3",), 3),
        ("UVXE+S3:L<=2", ("U", "V", "X", "E"), ("S3",), 2),
        ("UV:L<=4", ("U", "V"), (), 4),
    ],
}


def cases(tier, seed):
    seen, out, sizes = set(), [], {}
    for label, leaves, lins, L in SPACES[tier]:
        n = 0
        for ln, canon, alph, prog in pg.enumerate_programs(leaves, lins, L):
            if canon in seen:
                continue
            seen.add(canon)
            n += 1
            out.append((ln, len(canon), canon, dict(L=alph, p=prog, e=canon, s=int(seed), g=label)))
        sizes[label] = n
    out.sort(key=lambda x: x[:3])
    cases.sizes = sizes
    return [c for _, _, _, c in out]


# ------------------------------------------------------------------ building
def build(case):
    """Fresh NIFTy objects for every case (the optimiser mutates trees in place)."""
    import nifty.cl as ift
    num = pg.numbers(case["s"])
    T = ift.DomainTuple.make(ift.RGSpace(2))
    S = ift.DomainTuple.scalar_domain()

    def diag(v):
        return ift.DiagonalOperator(ift.makeField(T, np.array(v)))
    fa, fb, fc = ift.FieldAdapter(T, "a"), ift.FieldAdapter(S, "b"), ift.FieldAdapter(T, "c")
    E = fa.exp()
    uni = ift.UniformOperator(T, 0.5, 1.5)     # ONE non-linear operator object applied to two different keys
    leafobj = dict(X=fa, A=diag(num["d1"]) @ fa, E=E, G=diag(num["d2"]) @ E, U=uni @ fa, V=uni @ fc,
                   B=(diag(num["d3"]) @ ift.ContractionOperator(T, None).adjoint @ fb).sigmoid())
    lin = dict(S3=ift.ScalingOperator(T, num["s3"]), D4=diag(num["d4"]))
    ops = [leafobj[n] for n in case["L"]]
    for t in case["p"]:
        if t[0] == "add":
            ops.append(ops[t[1]] + ops[t[2]])
        elif t[0] == "mul":
            ops.append(ops[t[1]] * ops[t[2]])
        else:
            ops.append(lin[t[1]] @ ops[t[2]])
    return ops[-1], num


def structure(op):
    """Counts describing the tree: nodes, shared nodes, shared leaves, inserted FieldAdapters."""
    from nifty.cl.operators.operator import _OpChain, _OpProd, _OpSum
    from nifty.cl.operators.simple_linear_operators import FieldAdapter
    node_ids, leaf_ids = {}, {}

    def rec(o, under_node):
        if isinstance(o, (_OpSum, _OpProd)):
            node_ids[id(o)] = node_ids.get(id(o), 0) + 1
            if node_ids[id(o)] == 1:
                rec(o._op1, True)
                rec(o._op2, True)
        elif isinstance(o, _OpChain):
            has_node = False
            for s in o._ops:
                if isinstance(s, (_OpSum, _OpProd)):
                    has_node = True
                    rec(s, False)
            if not has_node and under_node:
                leaf_ids[id(o)] = leaf_ids.get(id(o), 0) + 1
        elif under_node and not isinstance(o, FieldAdapter):
            leaf_ids[id(o)] = leaf_ids.get(id(o), 0) + 1
    rec(op, False)
    shared = {k for k, v in node_ids.items() if v > 1}

    def node_descendants(o, acc):
        if isinstance(o, (_OpSum, _OpProd)):
            for c in (o._op1, o._op2):
                for n in ([c] if not isinstance(c, _OpChain) else c._ops):
                    if isinstance(n, (_OpSum, _OpProd)):
                        acc.add(id(n))
                        node_descendants(n, acc)
        return acc
    objs = {}

    def collect(o):
        if isinstance(o, (_OpSum, _OpProd)):
            objs[id(o)] = o
            collect(o._op1)
            collect(o._op2)
        elif isinstance(o, _OpChain):
            for n in o._ops:
                collect(n)
    collect(op)
    nested = any(shared & node_descendants(objs[k], set()) for k in shared)
    return dict(nodes=len(node_ids), shared_nodes=len(shared),
                shared_leaves=sum(1 for v in leaf_ids.values() if v > 1), nested_shared=bool(nested))


def grid_points(keys, num):
    g = num["grid"]
    cols = [c for k in ("a", "b", "c") if k in keys for c in pg.KEY_COLS[k]]
    for pt in itertools.product(g, repeat=len(cols)):
        x = np.zeros(pg.NX)
        x[cols] = pt
        yield x


def to_field(op, x):
    import nifty.cl as ift
    d = {}
    if "a" in op.domain.keys():
        d["a"] = ift.makeField(op.domain["a"], np.array(x[:2]))
    if "b" in op.domain.keys():
        d["b"] = ift.makeField(op.domain["b"], np.array(x[2]))
    if "c" in op.domain.keys():
        d["c"] = ift.makeField(op.domain["c"], np.array(x[3:5]))
    return ift.MultiField.from_dict(d, op.domain)


def eval_op(op, x, with_adjoint=False):
    """(value (2,), Jacobian (2,3) with zero columns for absent keys[, adjoint Jacobian (3,2)])"""
    import nifty.cl as ift
    from vf import dense
    f = to_field(op, x)
    v = np.asarray(op(f).asnumpy(), dtype=float).reshape(-1)
    lin = op(ift.Linearization.make_var(f))
    v2 = np.asarray(lin.val.asnumpy(), dtype=float).reshape(-1)
    cols = [c for k in op.domain.keys() for c in pg.KEY_COLS[k]]    # MultiDomain keys are sorted: a, b, c
    Jd = dense.rmatrix(lin.jac, ift.LinearOperator.TIMES, complex_in=False)
    m = Jd.shape[0] // 2
    J = np.zeros((2, pg.NX))
    J[:, cols] = Jd[:m]
    res = [v, v2, J, float(np.abs(Jd[m:]).max(initial=0.))]
    if with_adjoint:
        Ad = dense.rmatrix(lin.jac, ift.LinearOperator.ADJOINT_TIMES, complex_in=False)
        A = np.zeros((pg.NX, 2))
        A[cols] = Ad[:len(cols)]
        res.append(A)
    return res


def compare(op, keys, leaves, prog, num, who):
    """-> None or (what, kind, detail): first grid point where `op` deviates from the transliteration."""
    from vf import dense
    first = True
    npts = 0
    for x in grid_points(keys, num):
        rv, rJ = pg.ref_program(leaves, prog, x, num)
        r = eval_op(op, x, with_adjoint=first)
        npts += 1
        scale = max(1., np.abs(rv).max(), np.abs(rJ).max())
        tol = 1e-11
        if not dense.close(r[0], rv, tol, scale):
            return ("%s: value differs at x=%s: %s vs reference %s" % (who, x.tolist(), r[0].tolist(), rv.tolist()),
                    "value", dict(x=x.tolist(), got=r[0].tolist(), want=rv.tolist())), npts
        if not dense.close(r[1], rv, tol, scale):
            return ("%s: value of the linearization differs at x=%s: %s vs %s" % (who, x.tolist(), r[1].tolist(),
                                                                                  rv.tolist()),
                    "linearization-value", dict(x=x.tolist(), got=r[1].tolist(), want=rv.tolist())), npts
        if not dense.close(r[2], rJ, tol, scale) or r[3] > tol * scale:
            return ("%s: Jacobian differs at x=%s: %s vs reference %s" % (who, x.tolist(), np.round(r[2], 9).tolist(),
                                                                          np.round(rJ, 9).tolist()),
                    "jacobian", dict(x=x.tolist(), got=r[2].tolist(), want=rJ.tolist())), npts
        if first:
            if not dense.close(r[4], rJ.T, tol, scale):
                return ("%s: adjoint Jacobian differs at x=%s" % (who, x.tolist()), "jacobian-adjoint",
                        dict(x=x.tolist(), got=r[4].tolist(), want=rJ.T.tolist())), npts
            first = False
    return None, npts


def _site(exc):
    import traceback
    site = "?"
    for fr in traceback.extract_tb(exc.__traceback__):
        if "/nifty/" in fr.filename:
            site = "%s:%s" % (os.path.basename(fr.filename), fr.name)
    return site


def _norm_msg(exc):
    m = "%s:%s" % (type(exc).__name__, str(exc).split("\n")[0])
    m = re.sub(r"\d{6,}", "#", m)
    return m[:110]


def top_kind(op):
    from nifty.cl.operators.operator import _OpChain, _OpProd, _OpSum
    import nifty.cl as ift
    if isinstance(op, (_OpSum, _OpProd)):
        return "node"
    if isinstance(op, _OpChain):
        return "chain-with-node" if any(isinstance(o, (_OpSum, _OpProd)) for o in op._ops) else "chain-no-node"
    return "linear" if isinstance(op, ift.LinearOperator) else type(op).__name__


OPT_TIME_LIMIT = 20.   # seconds of CPU time (robust against machine load) for one optimise_operator call (normally ms)


class _Timeout(Exception):
    pass


@contextlib.contextmanager
def time_limit(seconds):
    """The optimiser iterates `while cond:` loops to a fixed point; a hang is reported, not waited for."""
    def handler(signum, frame):
        raise _Timeout()
    old = signal.signal(signal.SIGVTALRM, handler)
    signal.setitimer(signal.ITIMER_VIRTUAL, seconds)
    try:
        yield
    finally:
        signal.setitimer(signal.ITIMER_VIRTUAL, 0)
        signal.signal(signal.SIGVTALRM, old)


def run(case):
    import nifty.cl as ift
    leaves, prog = case["L"], case["p"]
    with contextlib.redirect_stdout(io.StringIO()), warnings.catch_warnings():
        warnings.simplefilter("ignore")
        op, num = build(case)
        keys = pg.keys_used(leaves, prog)
        if set(op.domain.keys()) != keys:
            raise AssertionError("harness: domain keys %s != %s" % (op.domain.keys(), keys))
        st = structure(op)
        tk = top_kind(op)
        feat = "top=%s|nodes=%s|shared_nodes=%s|shared_leaves=%s" % (
            tk, min(st["nodes"], 3), min(st["shared_nodes"], 2), min(st["shared_leaves"], 2))
        # the original operator must match the transliteration (premise; a deviation here is not the optimiser's)
        dev, npts = compare(op, keys, leaves, prog, num, "original operator")
        if dev is not None:
            return bad(dev[0] + "   [%s]" % case["e"], finding_key="original-differs-from-reference|" + dev[1],
                       detail=dev[2])
        try:
            with ift.random.Context(31), time_limit(OPT_TIME_LIMIT):
                opt = ift.optimise_operator(op)
        except _Timeout as exc:
            return bad("optimise_operator did not terminate within %g s of CPU time   [%s]" % (OPT_TIME_LIMIT, case["e"]),
                       finding_key="does-not-terminate|optimise_operator",
                       detail=dict(features=feat, interrupted_at=_site(exc)))
        except AssertionError as exc:
            # the optimiser's own self-check fired: characterise the damage with the un-checked entry point
            from copy import deepcopy
            what = "optimise_operator: built-in self-check failed (optimised tree has a different value)"
            kind = "self-check-assertion"
            try:
                with time_limit(OPT_TIME_LIMIT):
                    raw = ift.operator_tree_optimiser._optimise_operator(deepcopy(op))
                dev2, _ = compare(raw, keys, leaves, prog, num, "_optimise_operator result")
                if dev2 is not None:
                    what += "; " + dev2[0]
                    kind += "|" + dev2[1]
            except Exception as exc2:
                what += "; _optimise_operator raised %r" % (exc2,)
            return bad(what + "   [%s]" % case["e"],
                       finding_key="optimised-differs|%s|%s|shared_chain_leaf=%s" % (
                           kind, _site(exc), _shared_chain_leaf(op)),
                       detail=dict(features=feat))
        except Exception as exc:
            return bad("optimise_operator raised %r on a %s tree   [%s]" % (exc, tk, case["e"]),
                       finding_key="raises|%s|%s|top=%s" % (
                           _site(exc), _norm_msg(exc),
                           "no-node" if st["nodes"] == 0 else "has-node,nested_shared_nodes=%s" % st["nested_shared"]),
                       detail=dict(features=feat))
        if opt.domain is not op.domain or opt.target is not op.target:
            return bad("optimised operator has a different domain/target object   [%s]" % case["e"],
                       finding_key="domain-target-not-identical|" + tk)
        dev, _ = compare(opt, keys, leaves, prog, num, "optimised operator")
        if dev is not None:
            return bad(dev[0] + "   [%s]" % case["e"],
                       finding_key="optimised-differs|%s|self-check-passed|shared_chain_leaf=%s" % (
                           dev[1], _shared_chain_leaf(op)), detail=dict(features=feat, **dev[2]))
        dev, _ = compare(op, keys, leaves, prog, num, "original operator after optimise_operator")
        if dev is not None:
            return bad(dev[0] + "   [%s]" % case["e"], finding_key="input-operator-damaged|" + dev[1],
                       detail=dict(features=feat, **dev[2]))
        restructured = "<- ('" in repr(opt) and repr(opt) != repr(op)
        n_ins = len(set(re.findall(r"<- \('([A-Za-z]+\d+)',\)", repr(opt))))
    return ok(nontrivial=restructured and n_ins > 0,
              outcome="%s|inserted=%d" % (feat, min(n_ins, 3)),
              stats=dict(grid_points=npts, inserted_adapters=n_ins),
              detail=dict(expr=case["e"]))


def _shared_chain_leaf(op):
    """True iff one _OpChain leaf OBJECT hangs under two different node slots (the optimiser edits it in place)."""
    from nifty.cl.operators.operator import _OpChain, _OpProd, _OpSum
    slots, seen = {}, set()

    def rec(o):
        if isinstance(o, (_OpSum, _OpProd)):
            if id(o) in seen:
                return
            seen.add(id(o))
            for c in (o._op1, o._op2):
                if isinstance(c, _OpChain) and not any(isinstance(s, (_OpSum, _OpProd)) for s in c._ops):
                    slots[id(c)] = slots.get(id(c), 0) + 1
                rec(c)
        elif isinstance(o, _OpChain):
            for s in o._ops:
                rec(s)
    rec(op)
    return any(v > 1 for v in slots.values())


def finish(run):
    return dict(spaces=getattr(cases, "sizes", {}))
