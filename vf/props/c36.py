"""C36 Fit-quality diagnostics report the documented statistics.

Mode P (input enumeration).  A case is (residual pattern, number of samples, container).  The pattern is EVERY
word of length <= 3 (quick) / <= 4 (thorough) over the alphabet {NaN, 0, +1.5, -1.5, 2+1j}; the samples 2 and 3 of a
sample set are shifted copies (shift -1.5, +3.0: turns +1.5 into an exact zero, 0 into a non-zero), so that the
ignored entries differ between samples.  All numbers are dyadic, so the residuals the library forms are bit-exact
and the zero / NaN classification cannot depend on round-off.
Per case a real likelihood is built (classic GaussianEnergy with diagonal inverse covariance, with or without model
operator, Field / MultiField data, a sum of two named likelihoods; JAX residual function on the same latent tree, and
`jft.Gaussian(...).amend(model).normalized_residual` for container "relh") such that its normalised residual of sample k
IS the enumerated array, then
  * classic `minisanity(lh, samples, return_values=True)` (plain SampleList and ResidualSampleList with both signs)
    is compared with the defining formulas: per sample mean of |r|^2 resp. r over the entries that are neither NaN
    nor exactly zero, averaged over the samples; # dof / # ignored counts;
  * JAX `reduced_residual_stats` / `minisanity` (Samples and plain position; lmap, vmap for length 2) with theirs:
    mean over all entries, sum |r|^2 / number of real parameters, NaN propagates;
  * agreement: on sample sets free of NaN and zeros both flavours must report the same reduced chi^2, mean and # dof.
The reference (vf/ref/c36_ref.py) is plain numpy on the intended residual arrays.
"""
import numpy as np

from vf.core import ok, bad, skip
from vf.ref import c36_ref as R

ID = "C36"
LEVEL = "exploration"
JAX = True
RULE = ("case = (word over {NaN,0,+1.5,-1.5,2+1j} of length <=3 (quick) / <=4 (thorough): ALL words; number of samples "
        "1..3 (samples 2,3 = shifted copies); container in {field: no data/no model, DomainTuple latent; data: data Field + "
        "scaling model on a MultiDomain latent space with a free second key; multidata: MultiField data; sum: sum of two "
        "named likelihoods; relh: jft.Gaussian likelihood, words of length <= 2}); inside a case both classic sample-list "
        "kinds and the JAX input kinds are evaluated. non-trivial = at least one statistic with a non-empty set of "
        "non-ignored entries was compared (all-ignored words only compare the counts)")
ASSUMPTIONS = [
    "classic: ignored entries are NaN and exact zeros (table column '# ign. dof'); JAX ignores nothing, NaN propagates",
    "when every entry of a key is ignored in some sample the reduced chi^2 / mean are undefined: only the counts are compared",
    "when the number of ignored entries differs between the samples of a set, the reported counts must be those of one "
    "of the samples and add up to the size (which sample is not documented)",
    "the standard deviations over samples (classic: unbiased, JAX: population) are not part of the property and not compared",
    "agreement between the flavours is only demanded on sample sets without NaN and without exact zeros",
    "complex residuals: per flavour a complex entry may count as one entry or as two real degrees of freedom, provided "
    "reduced chi^2, # dof and # ignored use the same convention; the agreement clause then demands the SAME convention "
    "in both flavours",
    "weights / model scale / latent base values are dyadic numbers selected by VERIF_SEED; the residual alphabet is fixed",
]

CONTS = ("field", "data", "multidata", "sum")


def _fill(seed):
    s = int(seed) % 5
    return dict(w=[4.0, 16.0, 0.25, 1.0, 64.0][s], w2=[16.0, 0.25, 4.0, 64.0, 1.0][s], a=[2.0, 0.5, 4.0, 1.0, 8.0][s],
                x0=[0.5, 0.25, 1.0, -0.5, 2.0][s])


def cases(tier, seed):
    maxlen = 3 if tier == "quick" else 4
    out = []
    for pat in R.patterns(maxlen):
        for ns in (1, 2, 3):
            for cont in CONTS:
                out.append(dict(pat=pat, ns=ns, cont=cont, seed=int(seed)))
    for pat in R.patterns(2):
        out.append(dict(pat=pat, ns=2, cont="relh", seed=int(seed)))
    order = {c: i for i, c in enumerate(CONTS + ("relh",))}
    # simplest first; words grouped by (length, dtype, ns) so that array shapes repeat inside a worker's chunk
    out.sort(key=lambda c: (len(c["pat"]), R.is_complex(c["pat"]), c["ns"], order[c["cont"]],
                            sum(ch in "nz" for ch in c["pat"]), c["pat"]))
    return out


# =====================================================================================
#                     scenario: intended residual / latent arrays per key and sample
# =====================================================================================
def scenario(case):
    """-> dict with the latent samples (per key, per sample), auxiliary data arrays and the INTENDED normalised
    residuals per data key and sample (classic sign convention: sqrt(N^-1) (model(x) - d))."""
    F = _fill(case["seed"])
    pat, ns, cont = case["pat"], int(case["ns"]), case["cont"]
    sw, sw2, a, x0 = np.sqrt(F["w"]), np.sqrt(F["w2"]), F["a"], F["x0"]
    sh = R.SHIFTS[:ns]
    L = len(pat)
    p1, p2 = R.arr(pat), R.arr(R.rot(pat))
    res1 = [p1 + s for s in sh]
    res2 = [p2 + s for s in sh]
    if cont == "field":
        lat = {"<None>": [r / sw for r in res1]}
        return dict(latent=lat, data={"<None>": res1}, aux={}, F=F)
    if cont in ("data", "relh"):
        xa = [np.full(L, x0) + s / (a * sw) for s in sh]
        d = a * np.full(L, x0) - p1 / sw
        lat = {"a": xa, "b": [p2[::-1] + s for s in sh]}
        return dict(latent=lat, data={"lh": res1}, aux={"d": d}, F=F)
    if cont == "multidata":
        xu = [np.full(L, x0) + s / sw for s in sh]
        xv = [np.full(L, x0) + s / sw2 for s in sh]
        return dict(latent={"u": xu, "v": xv}, data={"u": res1, "v": res2},
                    aux={"du": np.full(L, x0) - p1 / sw, "dv": np.full(L, x0) - p2 / sw2}, F=F)
    if cont == "sum":
        xa = [np.full(L, x0) + s / sw for s in sh]
        xb = [np.full(L, x0) + s / sw2 for s in sh]
        return dict(latent={"a": xa, "b": xb}, data={"one": res1, "two": res2},
                    aux={"d1": np.full(L, x0) - p1 / sw, "d2": np.full(L, x0) - p2 / sw2}, F=F)
    raise ValueError(cont)


# =====================================================================================
#                                        classic
# =====================================================================================
def _classic(case, sc):
    """-> list of (kind, values dict, table string)"""
    import nifty.cl as ift
    cont, ns = case["cont"], int(case["ns"])
    F = sc["F"]
    L = len(case["pat"])
    U = ift.DomainTuple.make(ift.UnstructuredDomain(L))
    cdt = np.complex128 if R.is_complex(case["pat"]) else np.float64

    def diag(w, dt=cdt):
        return ift.DiagonalOperator(ift.makeField(U, np.full(L, w)), sampling_dtype=dt)

    def fld(a):
        return ift.makeField(U, np.asarray(a))

    if cont == "field":
        lh = ift.GaussianEnergy(inverse_covariance=diag(F["w"]))
        smp = [fld(x) for x in sc["latent"]["<None>"]]
    elif cont == "data":
        lh = ift.GaussianEnergy(fld(sc["aux"]["d"]), diag(F["w"])) @ (ift.ScalingOperator(U, F["a"]) @ ift.ducktape(U, None, "a"))
        lh.name = "lh"
        smp = [ift.MultiField.from_dict({"a": fld(xa), "b": fld(xb)}) for xa, xb in zip(sc["latent"]["a"], sc["latent"]["b"])]
    elif cont == "multidata":
        dom = ift.MultiDomain.make({"u": U, "v": U})
        d = ift.MultiField.from_dict({"u": fld(sc["aux"]["du"]), "v": fld(sc["aux"]["dv"])})
        icov = ift.makeOp(ift.MultiField.from_dict({"u": fld(np.full(L, F["w"])), "v": fld(np.full(L, F["w2"]))}),
                          sampling_dtype={"u": cdt, "v": cdt})
        lh = ift.GaussianEnergy(d, icov)
        smp = [ift.MultiField.from_dict({"u": fld(xu), "v": fld(xv)}) for xu, xv in zip(sc["latent"]["u"], sc["latent"]["v"])]
        del dom
    elif cont == "sum":
        lh1 = ift.GaussianEnergy(fld(sc["aux"]["d1"]), diag(F["w"])) @ ift.ducktape(U, None, "a")
        lh2 = ift.GaussianEnergy(fld(sc["aux"]["d2"]), diag(F["w2"])) @ ift.ducktape(U, None, "b")
        lh1.name, lh2.name = "one", "two"
        lh = lh1 + lh2
        smp = [ift.MultiField.from_dict({"a": fld(xa), "b": fld(xb)}) for xa, xb in zip(sc["latent"]["a"], sc["latent"]["b"])]
    else:
        raise ValueError(cont)

    out = []
    sl = ift.SampleList(smp)
    s, v = ift.extra.minisanity(lh, sl, terminal_colors=False, return_values=True)
    out.append(("plain", v, s, ift.extra.minisanity(lh, sl, terminal_colors=False)))
    mean = smp[0] * 0 + 0.25 if not any(np.isnan(np.asarray(f.asnumpy())).any() for f in _leaves(smp[0])) else None
    if mean is None:      # NaN * 0 is NaN: build the constant mean explicitly
        mean = ift.full(smp[0].domain, 0.25)
    resid, neg = [], []
    for k, x in enumerate(smp):
        ng = (k % 2 == 1)
        resid.append((mean - x) if ng else (x - mean))
        neg.append(ng)
    rsl = ift.ResidualSampleList(mean, resid, neg)
    s2, v2 = ift.extra.minisanity(lh, rsl, terminal_colors=False, return_values=True)
    out.append(("residual", v2, s2, None))
    return out


def _leaves(f):
    import nifty.cl as ift
    if isinstance(f, ift.MultiField):
        return [f[k] for k in f.domain.keys()]
    return [f]


_VALUES = [None]       # values dict of the plain SampleList run of the current case (for the agreement clause)


def _check_classic(case, sc, cls):
    """compare every key of both paths with the defining formulas; -> (violation | None, n_compared, flags)"""
    ncmp = 0
    flags = set()
    expect = {"data_residuals": sc["data"], "latent_variables": sc["latent"]}
    runs = _classic(case, sc)
    _VALUES[0] = runs[0][1]
    for kind, v, table, table_only in runs:
        tag = "" if kind == "plain" else "|residual-samplelist"
        if not isinstance(table, str) or (table_only is not None and table_only != table):
            return bad("minisanity(..., return_values=False) does not return the same table string",
                       finding_key="cl|table-string%s" % tag), ncmp, flags
        for path, exp in expect.items():
            got_keys = sorted(v["redchisq"][path].keys())
            if got_keys != sorted(exp.keys()):
                return bad("%s: reported keys %s, expected %s" % (path, got_keys, sorted(exp.keys())),
                           finding_key="cl|%s|keys|%s%s" % (path, case["cont"], tag)), ncmp, flags
            for key, Rs in exp.items():
                if key not in table:
                    return bad("key %r missing from the printed table" % key, finding_key="cl|table-missing-key%s" % tag), ncmp, flags
                ref = R.classic_stats(Rs)
                dt = "complex" if np.iscomplexobj(Rs[0]) else "real"
                kcls = R.content_class(Rs)
                nd, nig = int(v["ndof"][path][key]), int(v["nigndof"][path][key])
                where = "%s[%r] (%s, %d sample(s), residuals %s)" % (path, key, kind, len(Rs), [list(np.round(r, 4)) for r in Rs])
                # a complex entry may be counted as one entry or as two real degrees of freedom (the statement says
                # "entries", the JAX docstring "number of parameters"); either is accepted per flavour, but it must be used
                # consistently for chi^2, # dof and # ignored, and the flavours must agree (agreement clause below)
                fs = (1, 2) if dt == "complex" else (1,)
                if ref["counts_vary"]:
                    flags.add("counts-vary")
                    f = next((f for f in fs if nd in [f * k for k in ref["nvalid"]] and nd + nig == f * ref["size"]), None)
                    if f is None:
                        return bad("%s: # dof = %d, # ignored = %d; per-sample non-ignored counts are %s of %d entries"
                                   % (where, nd, nig, ref["nvalid"], ref["size"]),
                                   finding_key="cl|%s|counts|%s|%s|counts-vary%s" % (path, dt, kcls, tag)), ncmp, flags
                    if len(fs) == 2 and nd == 0:
                        f = None      # ambiguous: decided by the value below
                else:
                    f = next((f for f in fs if nd == f * ref["nvalid"][0] and nig == f * (ref["size"] - ref["nvalid"][0])), None)
                    if f is None:
                        return bad("%s: # dof = %d, # ignored = %d; expected %d and %d"
                                   % (where, nd, nig, ref["nvalid"][0], ref["size"] - ref["nvalid"][0]),
                                   finding_key="cl|%s|counts|%s|%s%s" % (path, dt, kcls, tag)), ncmp, flags
                if ref["some_empty"]:
                    flags.add("all-ignored")
                    continue
                for q in ("redchisq", "scmean"):
                    g = v[q][path][key]["mean"]
                    if q == "redchisq":
                        want = [ref[q] / f] if f is not None else [ref[q] / f_ for f_ in fs]
                    else:
                        want = [ref[q]]
                    if not any(R.close(g, w) for w in want):
                        return bad("%s: %s = %s with # dof = %d, defining formula gives %s" % (where, q, g, nd, want[0]),
                                   finding_key="cl|%s|%s|%s|%s%s" % (path, q, dt, kcls, tag)), ncmp, flags
                    ncmp += 1
    return None, ncmp, flags


# =====================================================================================
#                                          JAX
# =====================================================================================
def _jax_inputs(case, sc):
    """-> (tree of stacked samples (ns, L) incl. auxiliary leaves, residual function, expected data residuals)"""
    import jax.numpy as jnp
    cont, ns = case["cont"], int(case["ns"])
    F = sc["F"]
    sw, sw2, a = float(np.sqrt(F["w"])), float(np.sqrt(F["w2"])), float(F["a"])
    tree = {k: np.stack(v) for k, v in sc["latent"].items()}
    for k, v in sc["aux"].items():
        tree["_" + k] = np.stack([v] * ns)
    if cont == "field":
        func = lambda t: {"<None>": sw * t["<None>"]}
    elif cont == "data":
        func = lambda t: {"lh": sw * (a * t["a"] - t["_d"])}
    elif cont == "multidata":
        func = lambda t: {"u": sw * (t["u"] - t["_du"]), "v": sw2 * (t["v"] - t["_dv"])}
    elif cont == "sum":
        func = lambda t: {"one": sw * (t["a"] - t["_d1"]), "two": sw2 * (t["b"] - t["_d2"])}
    else:
        raise ValueError(cont)
    return {k: jnp.asarray(v) for k, v in tree.items()}, func


def _jax_runs(case, sc):
    """-> list of (kind, data stats tree, latent stats tree)"""
    import jax
    import jax.numpy as jnp
    import nifty.re as jft
    ns, L = int(case["ns"]), len(case["pat"])
    out = []
    if case["cont"] == "relh":
        F = sc["F"]
        sw, a = float(np.sqrt(F["w"])), float(F["a"])
        d = jnp.asarray(sc["aux"]["d"])
        lh = jft.Gaussian(d, noise_std_inv=lambda x: sw * x, noise_cov_inv=lambda x: sw * sw * x).amend(lambda t: a * t["a"])
        tree = {k: jnp.asarray(np.stack(v)) for k, v in sc["latent"].items()}
        pos = {k: jnp.full(v.shape[1:], 0.25, dtype=v.dtype) for k, v in tree.items()}
        S = jft.Samples(pos=pos, samples={k: v - 0.25 for k, v in tree.items()})
        st = jft.reduced_residual_stats(S, lh.normalized_residual, map="vmap")
        out.append(("relh-vmap", {"lh": st}, jft.reduced_residual_stats(S, map="vmap")))
        return out
    tree, func = _jax_inputs(case, sc)
    pos = {k: (jnp.full(v.shape[1:], 0.25, dtype=v.dtype) if not k.startswith("_") else v[0]) for k, v in tree.items()}
    smp = {k: (v - 0.25 if not k.startswith("_") else jnp.zeros_like(v)) for k, v in tree.items()}
    S = jft.Samples(pos=pos, samples=smp)
    maps = ["lmap"] + (["vmap"] if L == 2 else [])
    for m in maps:
        out.append(("samples-" + m, jft.reduced_residual_stats(S, func, map=m), jft.reduced_residual_stats(S, map=m)))
    st, msg = jft.minisanity(S, func)
    if not isinstance(msg, str) or not all(k in msg for k in sc["data"]):
        raise AssertionError("jft.minisanity returned no printable table with all keys")
    out.append(("minisanity-wrapper", st, None))
    if ns == 1:
        p = {k: v[0] for k, v in tree.items()}
        out.append(("position", jft.reduced_residual_stats(p, func), jft.reduced_residual_stats(p)))
    del jax
    return out


def _check_jax(case, sc):
    sign = -1.0 if case["cont"] == "relh" else 1.0       # jft.Gaussian documents noise_std_inv(data - model)
    ncmp = 0
    got_for_agreement = None
    for kind, dst, lst in _jax_runs(case, sc):
        for path, st, exp in (("data_residuals", dst, {k: [sign * r for r in v] for k, v in sc["data"].items()}),
                              ("latent_variables", lst, sc["latent"])):
            if st is None:
                continue
            for key, Rs in exp.items():
                if key not in st:
                    return bad("JAX %s: leaf %r missing from the statistics tree (%s)" % (path, key, kind),
                               finding_key="re|%s|keys" % path), ncmp, None
                ref = R.jax_stats(Rs)
                dt = "complex" if np.iscomplexobj(Rs[0]) else "real"
                kcls = R.content_class(Rs)
                g = st[key]
                where = "JAX %s[%r] (%s, %d sample(s), residuals %s)" % (path, key, kind, len(Rs), [list(np.round(r, 4)) for r in Rs])
                size = int(np.asarray(Rs[0]).size)
                if int(g.ndof) not in ((size, 2 * size) if dt == "complex" else (size,)):
                    return bad("%s: ndof = %d, expected %d" % (where, int(g.ndof), ref["ndof"]),
                               finding_key="re|%s|ndof|%s|%s" % (path, dt, kcls)), ncmp, None
                ref["redchisq"] = ref["redchisq"] * ref["ndof"] / int(g.ndof)     # same convention for value and count
                for q, val in (("redchisq", g.reduced_chisq[0]), ("mean", g.mean[0])):
                    if not R.close(complex(val), ref[q]):
                        return bad("%s: %s = %s, defining formula gives %s" % (where, q, complex(val), ref[q]),
                                   finding_key="re|%s|%s|%s|%s|%s" % (path, q, dt, kcls, kind.split("-")[0])), ncmp, None
                    ncmp += 1
        if got_for_agreement is None and kind.startswith("samples"):
            got_for_agreement = (dst, lst)
    return None, ncmp, got_for_agreement


# =====================================================================================
#                                        one case
# =====================================================================================
def run(case):
    import logging
    import warnings
    with warnings.catch_warnings():
        warnings.simplefilter("ignore")
        with np.errstate(all="ignore"):
            import nifty.cl as ift
            ift.logger.setLevel(logging.CRITICAL)
            return _run(case)


def _run(case):
    sc = scenario(case)
    allR = [r for v in sc["data"].values() for r in v]
    cls = R.content_class(allR)
    dt = "complex" if R.is_complex(case["pat"]) else "real"
    stats = dict(stat_comparisons=0)
    flags = set()
    clv = None
    if case["cont"] != "relh":
        viol, n, flags = _check_classic(case, sc, cls)
        if viol is not None:
            return viol
        stats["stat_comparisons"] += n
        clv = _VALUES[0]
    viol, n, jst = _check_jax(case, sc)
    if viol is not None:
        return viol
    stats["stat_comparisons"] += n

    # ------------------------------------------------------------ agreement of the two flavours on the same samples
    agree = "agreement-n/a(%s)" % cls
    agreed = set()
    if clv is not None and jst is not None:
        for path, exp, tree in (("data_residuals", sc["data"], jst[0]), ("latent_variables", sc["latent"], jst[1])):
            for key, Rs in exp.items():
                if R.content_class(Rs) != "clean":
                    continue
                kd = "complex" if np.iscomplexobj(Rs[0]) else "real"
                c_chi, c_mean = clv["redchisq"][path][key]["mean"], clv["scmean"][path][key]["mean"]
                c_nd = int(clv["ndof"][path][key])
                j = tree[key]
                j_chi, j_mean, j_nd = float(j.reduced_chisq[0]), complex(j.mean[0]), int(j.ndof)
                if not (R.close(c_chi, j_chi) and c_nd == j_nd):
                    return bad("same NaN/zero-free %s samples %s[%r] = %s: classic reports reduced chi^2 = %.6g with # dof = %d, "
                               "JAX reports %.6g with # dof = %d" % (kd, path, key, [list(np.round(r, 4)) for r in Rs],
                                                                     c_chi, c_nd, j_chi, j_nd),
                               finding_key="agreement|redchisq+ndof|%s|classic-counts-entries,jax-counts-real-components" % kd
                               if kd == "complex" and R.close(c_chi, 2 * j_chi) and 2 * c_nd == j_nd
                               else "agreement|redchisq+ndof|%s" % kd)
                if not R.close(c_mean, j_mean):
                    return bad("same NaN/zero-free samples %s[%r]: classic mean %s, JAX mean %s" % (path, key, c_mean, j_mean),
                               finding_key="agreement|mean|%s" % kd)
                stats["stat_comparisons"] += 2
                agreed.add(path.split("_")[0])
    if agreed:
        agree = "agree(%s)" % "+".join(sorted(agreed))
    nontrivial = stats["stat_comparisons"] > 0
    fl = ("|" + "+".join(sorted(flags))) if flags else ""
    return ok(nontrivial=nontrivial, outcome="%s|%s|ns=%d|%s|%s%s" % (case["cont"], dt, case["ns"], cls, agree, fl), stats=stats)


def finish(run):
    """Vacuity guard: every container saw real and complex words of every content class; agreement was decided."""
    have = set()
    agree = 0
    for o, cnt in run.outcomes.items():
        p = o.split("|")
        if len(p) >= 5:
            have.add((p[0], p[1], p[3]))
            if p[4].startswith("agree(") and "data" in p[4]:
                agree += cnt
    need = [(c, d, k) for c in CONTS for d in ("real", "complex") for k in ("clean", "nan", "zero", "nan+zero")]
    missing = [x for x in need if x not in have]
    hard = [x for x in missing if x[1] == "real"]      # complex classes are expected to be violations on a defective tree
    if (hard or agree == 0) and not run.violations and "filtered_by" not in run.extra:
        run.violations.append((dict(vacuity=[list(m) for m in missing], agree=agree),
                               bad("classes never compared: %s (agreement decided in %d cases)" % (missing, agree),
                                   finding_key="harness|vacuous-class")))
    return dict(classes_seen=len(have), agreement_cases=agree)
