"""C06 Field arithmetic and contractions follow array semantics with volumes.

Mode P (configuration enumeration).  A case is one configuration
(family, domain tuple, `spaces` argument, dtype(s), operation); inside the case
the operation is evaluated on a generic fill AND on every one-hot array (every
real and imaginary unit vector), which decides the linear / sesquilinear
operations (sum, integrate, mean, weight, vdot) for ALL field values of that
dtype and gives exact volume factors.  The oracle is vf/ref/c06_field.py:
numpy on raw arrays with volume arrays from closed forms.
"""
import functools
import itertools
import json
import traceback

import numpy as np

from vf.core import ok, bad, skip
from vf.ref import c06_field as R

ID = "C06"
LEVEL = "exploration"
RULE = ("case = (family, domain tuple over {RG, RG-2d, harmonic RG, HP, GL, LM, Power, DOF, Unstructured}, `spaces` "
        "argument (None / int / every subset / reversed subsets), dtype(s) in {i8,f8,c16}, operation); each case "
        "evaluates the library on a generic fill plus ALL one-hot arrays (real and imaginary units) and compares "
        "with numpy + explicit closed-form volume arrays; rejection cases enumerate operand pairs on different "
        "domains (equal and unequal shapes) x every binary op; non-trivial = the operation really combined / "
        "contracted at least one sub-domain (empty `spaces` and self-evident identities are counted as trivial)")
ASSUMPTIONS = [
    "values: generic fill (magnitudes in [0.5,2], selected by VERIF_SEED) plus all one-hot arrays; structure exhaustive",
    "volume operations over an UnstructuredDomain raise AttributeError (no volume defined): counted as skipped premise",
    "Field.imag on a non-complex field raises ValueError by design: skipped",
    "where numpy itself rejects an operation on the raw arrays (complex //, int ** negative int) the library must reject too",
    "result dtype is compared by kind (bool/int/float/complex); int->float widening (ducc vdot) is accepted",
    "CPU only (no cupy); device_id=-1",
]

DTS = ("i8", "f8", "c16")
CONTR = ("sum", "prod", "integrate", "mean", "var", "std")
VOLOPS = ("integrate", "mean", "var", "std", "weight")
POWERS = (1, -1, 2)
BINOPS = ("add", "sub", "mul", "truediv", "floordiv", "pow", "lt", "le", "gt", "ge", "eq", "ne")
UNOPS = ("neg", "pos", "abs", "conjugate", "real", "imag")
ORDS = (1, 2, 3, "inf")
SCALARS = [["int", 2], ["int", -3], ["float", 0.5], ["float", -1.5], ["complex", [1., 2.]],
           ["np.float64", 1.5], ["np.int64", 2], ["np.complex128", [2., -1.]], ["bool", True]]

MF_SCALARS = [SCALARS[0], SCALARS[3], SCALARS[4], SCALARS[5]]

ALPHA_Q = ["RG2", "RG23", "HP1", "GL32", "PSrg4", "LM1", "U2", "DOF3"]
ALPHA_EXTRA = ["RGh3", "GL23", "PSlm2", "PSrg32", "U12", "RG2def", "GL41", "LM21", "RG3d", "U3"]
TRIPLE_Q = ["RG2", "GL32"]
# a 2-axis space in every position (axis cursor), Unstructured in every position, three non-uniform volumes
TRIPLES_Q_EXTRA = [("GL32", "RG23", "PSrg4"), ("RG2", "RG23", "DOF3"), ("PSrg4", "U2", "RG23"),
                   ("RG23", "GL32", "RG2"), ("LM1", "DOF3", "RG2"), ("U2", "GL32", "RG2"), ("RG2", "GL32", "U2"),
                   ("DOF3", "PSrg4", "GL32")]

# operand pairs on DIFFERENT domains: (name, domA, domB); equal shapes first (only the domain check can reject)
MISMATCH = [
    ("same-shape:RG-vs-Unstructured", ["RG2"], ["U2"]),
    ("same-shape:RG-distances", ["RG2"], ["RG2def"]),
    ("same-shape:Power-vs-DOF", ["PSrg4"], ["DOF3"]),
    ("same-shape:harmonic-vs-position", ["RGh3"], ["RG3d"]),
    ("same-shape:swapped-product", ["RG2", "U2"], ["U2", "RG2"]),
    ("same-shape:GL-vs-GL", ["GL32"], ["GL23"]),
    ("same-shape:2d-vs-product", ["RG23"], ["RG2", "U3"]),
    ("broadcastable:sub-vs-product", ["RG2"], ["RG2", "RG2"]),
    ("broadcastable:scalar-vs-RG", [], ["RG2"]),
    ("broadcastable:U12-vs-U2", ["U12"], ["U2"]),
    ("different-shape:RG-vs-LM", ["RG2"], ["LM1"]),
]


# ------------------------------------------------------------------ enumeration
def spaces_variants(n):
    out = [None] + list(range(n))
    for k in range(n + 1):
        for s in itertools.combinations(range(n), k):
            out.append(list(s))
    for k in range(2, n + 1):
        for s in itertools.combinations(range(n), k):
            out.append(list(reversed(s)))
    return out


def domain_tuples(tier):
    doms = [(a,) for a in ALPHA_Q] + [(a, b) for a in ALPHA_Q for b in ALPHA_Q]
    trip = [t for t in itertools.product(TRIPLE_Q, repeat=3)] + list(TRIPLES_Q_EXTRA)
    if tier != "quick":
        al = ALPHA_Q + ALPHA_EXTRA
        doms = [(a,) for a in al] + [(a, b) for a in al for b in al]
        trip = [t for t in itertools.product(ALPHA_Q, repeat=3)] + list(TRIPLES_Q_EXTRA)
    cap = 150
    res, seen = [], set()
    for d in doms + trip:
        if d in seen or R.RefDomain(d).size > cap:
            continue
        seen.add(d)
        res.append(d)
    res.sort(key=lambda d: (len(d), R.RefDomain(d).size, d))
    return res


def small_domains(tier):
    if tier == "quick":
        return [("RG2",), ("U2",), ("PSrg4",), ("GL32",), ("RG23",), ("RG2", "U2"), ("GL32", "RG23")]
    al = ALPHA_Q + ALPHA_EXTRA
    return sorted([(a,) for a in al] + [(a, b) for a in ALPHA_Q for b in ALPHA_Q],
                  key=lambda d: (len(d), R.RefDomain(d).size, d))


def multi_structs(tier):
    base = [["RG2"], ["GL32"], ["U2"], ["RG2", "GL32"], []]
    if tier != "quick":
        base += [["PSrg4"], ["RG23"], ["U12", "DOF3"]]
    out = [{"a": d} for d in base]
    out += [{"a": d, "b": e} for d in base for e in base]
    out += [{"a": base[0], "b": base[1], "c": base[3]}, {"a": base[2], "b": base[0], "c": base[0]}]
    return out


def cases(tier, seed):
    seed = int(seed)
    cs = []

    def add(**kw):
        kw["seed"] = seed
        cs.append(kw)
    # ---- Field contractions / weights / vdot over every `spaces` variant
    for d in domain_tuples(tier):
        for sp in spaces_variants(len(d)):
            add(fam="geom", dom=list(d), spaces=sp)
            for dt in DTS:
                for op in CONTR:
                    add(fam="contr", dom=list(d), spaces=sp, dt=dt, op=op)
                for p in POWERS:
                    add(fam="weight", dom=list(d), spaces=sp, dt=dt, power=p)
            for da in DTS:
                for db in DTS:
                    add(fam="vdot", dom=list(d), spaces=sp, dt=[da, db])
    # ---- scalar-valued methods (s_*, norm)
    for d in domain_tuples(tier):
        if len(d) > 2 and tier == "quick":
            continue
        for dt in DTS:
            for op in ("s_sum", "s_prod", "s_integrate", "s_mean", "s_var", "s_std"):
                add(fam="sred", dom=list(d), dt=dt, op=op)
            for o in ORDS:
                add(fam="norm", dom=list(d), dt=dt, ord=o)
            for db in DTS:
                add(fam="s_vdot", dom=list(d), dt=[dt, db])
    # ---- pointwise: Field o Field, Field o scalar, scalar o Field, unary
    for d in small_domains(tier):
        for op in BINOPS:
            for da in DTS:
                for db in DTS:
                    add(fam="binop", dom=list(d), dt=[da, db], op=op)
                for sc in SCALARS:
                    for side in ("r", "l"):
                        add(fam="scalop", dom=list(d), dt=da, op=op, scalar=sc, side=side)
        for op in UNOPS:
            for dt in DTS:
                add(fam="unop", dom=list(d), dt=dt, op=op)
    # ---- rejection of operands on different domains
    for name, da, db in MISMATCH:
        for op in BINOPS + ("vdot", "s_vdot", "vdot-partial"):
            for order in (0, 1):
                add(fam="reject", pair=name, doms=[da, db], op=op, order=order)
    for d in small_domains("quick"):
        for op in BINOPS + ("vdot", "s_vdot"):
            add(fam="same-domain-fresh", dom=list(d), op=op)
    # ---- MultiField
    dtsets = {1: [(a,) for a in DTS], 2: [(a, b) for a in DTS for b in DTS],
              3: [("i8", "f8", "c16"), ("c16", "f8", "f8"), ("f8", "i8", "i8")]}
    for ms in multi_structs(tier):
        keys = sorted(ms)
        for dts in dtsets[len(keys)]:
            dtd = dict(zip(keys, dts))
            for op in UNOPS:
                if op != "pos":          # MultiField defines no unary plus; not demanded by the property
                    add(fam="mf_unop", mdom=ms, dts=dtd, op=op)
            for o in ORDS:
                add(fam="mf_norm", mdom=ms, dts=dtd, ord=o)
            add(fam="mf_red", mdom=ms, dts=dtd, op="s_sum")
            if len(keys) == 1 or tier != "quick" or dts in (("i8", "f8"), ("f8", "c16"), ("c16", "i8")) or len(keys) == 3:
                for sc in (SCALARS if tier != "quick" else MF_SCALARS):
                    for op in BINOPS:
                        for side in ("r", "l"):
                            add(fam="mf_scalop", mdom=ms, dts=dtd, op=op, scalar=sc, side=side)
            others = dtsets[len(keys)] if (len(keys) == 1 or tier != "quick") else [dts, dts[::-1], ("c16",) * len(keys)]
            for dts2 in others:
                dtd2 = dict(zip(keys, dts2))
                for op in BINOPS:
                    add(fam="mf_binop", mdom=ms, dts=dtd, dts2=dtd2, op=op)
                add(fam="mf_vdot", mdom=ms, dts=dtd, dts2=dtd2, op="s_vdot")
                add(fam="mf_vdot", mdom=ms, dts=dtd, dts2=dtd2, op="vdot")
    # MultiField operands on different domains; MultiField <-> Field mixing
    A, B, C = ["RG2"], ["U2"], ["GL32"]
    mm = [("different-keys", {"a": A}, {"b": A}), ("same-keys-different-domain", {"a": A}, {"a": B}),
          ("subset-keys", {"a": A, "b": C}, {"a": A}), ("swapped-entries", {"a": A, "b": B}, {"a": B, "b": A}),
          ("same-keys-one-differs", {"a": A, "b": C}, {"a": A, "b": ["GL23"]})]
    for name, m1, m2 in mm:
        for op in BINOPS + ("vdot", "s_vdot"):
            for order in (0, 1):
                add(fam="mf_reject", pair=name, mdoms=[m1, m2], op=op, order=order)
    for name, m1, fd in [("entries-on-field-domain", {"a": A, "b": A}, A), ("single-entry-on-field-domain", {"a": A}, A),
                         ("entries-differ", {"a": A, "b": B}, A)]:
        for op in BINOPS + ("vdot", "s_vdot"):
            for order in (0, 1):
                add(fam="mf_field_mix", pair=name, mdom=m1, fdom=fd, op=op, order=order)
    # unite / flexible_addsub over all pairs of key subsets
    pool = {"a": A, "b": C, "c": ["RG2", "U2"]}
    subsets = [s for k in (1, 2, 3) for s in itertools.combinations("abc", k)]
    for s1 in subsets:
        for s2 in subsets:
            for neg in ("False", "True", "dict"):
                add(fam="mf_addsub", k1=list(s1), k2=list(s2), neg=neg, pool=pool, clash=False)
    for neg in ("False", "True", "dict"):
        add(fam="mf_addsub", k1=["a", "b"], k2=["b", "c"], neg=neg, pool=pool, clash=True)
    seen, uniq = set(), []
    for c in cs:
        k = json.dumps(c, sort_keys=True)
        if k not in seen:
            seen.add(k)
            uniq.append(c)
    idx = {id(c): i for i, c in enumerate(uniq)}
    uniq.sort(key=lambda c: (complexity(c), idx[id(c)]))
    return uniq


def complexity(c):
    """simplest first: number of sub-domains involved, then number of pixels"""
    if "dom" in c:
        return (len(c["dom"]), refdom(tuple(c["dom"])).size)
    if "doms" in c:
        return (2, 0)
    if "mdom" in c:
        return (1 + sum(max(1, len(v)) for v in c["mdom"].values()),
                sum(refdom(tuple(v)).size for v in c["mdom"].values()))
    return (3, 0)


# ------------------------------------------------------------------ library side helpers
@functools.lru_cache(maxsize=None)
def refdom(names):
    return R.RefDomain(names)


def libdom(names, fresh=False):
    import nifty.cl as ift
    return ift.DomainTuple.make(tuple(R.build_sub(n) for n in names))


def mkfield(dom, arr):
    import nifty.cl as ift
    return ift.Field(dom, ift.AnyArray(np.array(arr)))


def mkscalar(sc):
    kind, v = sc
    if kind == "int":
        return int(v)
    if kind == "float":
        return float(v)
    if kind == "complex":
        return complex(v[0], v[1])
    if kind == "bool":
        return bool(v)
    if kind == "np.float64":
        return np.float64(v)
    if kind == "np.int64":
        return np.int64(v)
    if kind == "np.complex128":
        return np.complex128(complex(v[0], v[1]))
    raise KeyError(kind)


def tospaces(sp):
    return tuple(sp) if isinstance(sp, list) else sp


def call(fn):
    with np.errstate(all="ignore"):
        try:
            return True, fn()
        except Exception as e:      # classified by the caller (traceback is only extracted for violations)
            return False, e


def _frames(e):
    if not hasattr(e, "_tb"):
        e._tb = traceback.extract_tb(e.__traceback__)
    return e._tb


def where_raised(e):
    """innermost nifty frame that is not the AnyArray wrapper: 'file.py:function'"""
    best = "?"
    for fr in _frames(e):
        fn = fr.filename.replace("\\", "/")
        if "/nifty/" in fn and not fn.endswith("any_array.py"):
            best = "%s:%s" % (fn.split("/")[-1], fr.name)
    return best


def kind_of(x):
    k = np.asarray(x).dtype.kind
    return {"b": 0, "i": 1, "u": 1, "f": 2, "c": 3}.get(k, 9)


def compare(got, exp, scale, rel=1e-11):
    """None if equal within tolerance, else a message."""
    g, e = np.asarray(got), np.asarray(exp)
    if g.shape != e.shape:
        return "shape %s, expected %s" % (g.shape, e.shape)
    kg, ke = kind_of(g), kind_of(e)
    # dtype is compared by kind only: bool-ness must agree and a real expectation must not come back complex;
    # real-for-complex (ducc's vdot returns a float when the imaginary part is exactly 0) and int/float
    # differences are decided by VALUE below
    if (kg == 0) != (ke == 0) or (kg == 3 and ke != 3) or kg == 9:
        return "dtype %s, expected kind of %s" % (g.dtype, e.dtype)
    if e.size == 0:
        return None
    if ke <= 1 and kg <= 1:
        if not np.array_equal(g, e):
            return "got %s expected %s" % (str(g.ravel()[:6]), str(e.ravel()[:6]))
        return None
    g = g.astype(np.complex128)
    e = e.astype(np.complex128)
    fin = np.isfinite(e)
    if not np.array_equal(fin, np.isfinite(g)):
        return "non-finite pattern differs: got %s expected %s" % (str(g.ravel()[:6]), str(e.ravel()[:6]))
    nf = ~fin
    if nf.any():
        ge, ee = g[nf], e[nf]
        same = (np.isnan(ge.real) == np.isnan(ee.real)) & (np.isnan(ge.imag) == np.isnan(ee.imag))
        if not same.all():
            return "nan pattern differs"
    if fin.any():
        d = np.abs(g[fin] - e[fin])
        lim = rel * (np.abs(e[fin]) + 1e-300) * 10 if scale is None else rel * scale
        if np.any(d > lim):
            i = int(np.argmax(d - lim))
            return "max |got-expected| = %.3e (got %s, expected %s, allowed %.1e)" % (
                float(d.max()), g[fin][i], e[fin][i], float(np.max(lim)))
    return None


def volclass(Rd, spaces):
    S = Rd.norm_spaces(spaces)
    if not S:
        return "novolume-needed"
    if not Rd.has_volume(S):
        return "unstructured"
    u = [R.sub_uniform(Rd.names[i]) for i in S]
    return "uniform" if all(u) else ("nonuniform" if not any(u) else "mixed")


def spclass(Rd, sp):
    n = len(Rd.names)
    if sp is None:
        return "None"
    if isinstance(sp, int):
        return "int-full" if n == 1 else "int-partial"
    if len(sp) == 0:
        return "empty"
    t = "full" if len(sp) == n else "partial"
    return t + ("-reversed" if list(sp) != sorted(sp) else "")


def field_result(res, expect_names, what):
    """check that `res` is a Field on the expected DomainTuple; returns (array, error message)"""
    import nifty.cl as ift
    if not isinstance(res, ift.Field):
        return None, "%s returned %s, not a Field" % (what, type(res).__name__)
    if res.domain is not libdom(tuple(expect_names)):
        return None, "%s: result domain %r is not the expected %s" % (what, res.domain, list(expect_names))
    return res.asnumpy(), None


def exc_key(e, **kw):
    return "exception|%s|%s|%s" % (type(e).__name__, where_raised(e), "|".join("%s=%s" % kv for kv in sorted(kw.items())))


def exc_detail(e):
    return "".join(traceback.format_list(_frames(e)[-6:])) + repr(e)


# ------------------------------------------------------------------ families
def run_geom(c):
    Rd = refdom(tuple(c["dom"]))
    D = libdom(Rd.names)
    sp = tospaces(c["spaces"])
    f = mkfield(D, np.zeros(Rd.shape))
    if not Rd.has_volume(sp):
        okv, r = call(lambda: f.total_volume(sp))
        if not okv and isinstance(r, AttributeError):
            return skip("unstructured domain has no volume (AttributeError)")
        return skip("unstructured domain: library returned a volume; nothing to compare with")
    for name, fn, exp in (("total_volume", lambda: f.total_volume(sp), Rd.total_volume(sp)),
                          ("scalar_weight", lambda: f.scalar_weight(sp), Rd.scalar_weight(sp)),
                          ("domain.total_volume", lambda: D.total_volume(sp), Rd.total_volume(sp))):
        okv, r = call(fn)
        if not okv:
            return bad("%s(%s) raised %r" % (name, sp, r), finding_key=exc_key(r, op=name), detail=exc_detail(r))
        if exp is None:
            if r is None:
                continue
            V = Rd.volarr(sp)
            if np.all(V == V.ravel()[0]) and abs(r - V.ravel()[0]) <= 1e-13 * abs(r):
                continue   # volumes happen to be equal: a number is acceptable
            return bad("scalar_weight(%s) = %r on a domain with non-uniform volume" % (sp, r),
                       finding_key="wrong-value|scalar_weight|nonuniform")
        if r is None or abs(r - exp) > 1e-12 * abs(exp):
            return bad("%s(%s) = %r, expected %r" % (name, sp, r, exp),
                       finding_key="wrong-value|%s|%s|%s" % (name, volclass(Rd, sp), spclass(Rd, c["spaces"])))
    return ok(nontrivial=len(Rd.norm_spaces(sp)) > 0, outcome="geom|%s|%s" % (volclass(Rd, sp), spclass(Rd, c["spaces"])))


def _skip_unstructured(okv, r):
    # a volume operation whose `spaces` contain an UnstructuredDomain is outside the premise (no volume defined)
    if okv:
        return skip("volume operation over an UnstructuredDomain returned a value; nothing to compare with")
    if isinstance(r, AttributeError):
        return skip("volume operation over an UnstructuredDomain raises AttributeError (no volume defined)")
    return skip("volume operation over an UnstructuredDomain raises %s" % type(r).__name__)


def _value_arrays(Rd, dt, seed, slot=0):
    yield "generic", R.fill(Rd.shape, dt, seed, slot)
    for i, e in enumerate(R.onehots(Rd.shape, dt)):
        yield "onehot%d" % i, e


def run_contr(c):
    Rd = refdom(tuple(c["dom"]))
    D = libdom(Rd.names)
    sp = tospaces(c["spaces"])
    fam = c["fam"]
    op = c["op"] if fam == "contr" else "weight"
    dt = c["dt"]
    power = c.get("power")
    needs_vol = op in VOLOPS
    vc, sc = volclass(Rd, sp), spclass(Rd, c["spaces"])
    label = op if fam == "contr" else "weight(%d)" % power
    n_eval = 0
    for tag, arr in _value_arrays(Rd, dt, c["seed"]):
        f = mkfield(D, arr)
        if fam == "contr":
            okv, r = call(lambda: getattr(f, op)(sp))
        else:
            okv, r = call(lambda: f.weight(power, sp))
        if needs_vol and vc == "unstructured":
            return _skip_unstructured(okv, r)
        if not okv:
            return bad("%s(spaces=%s) on %s dtype %s raised %s: %s" % (label, sp, list(Rd.names), dt, type(r).__name__, r),
                       finding_key=exc_key(r, dt=dt, vol="has-nonuniform" if vc in ("mixed", "nonuniform") else vc),
                       detail=exc_detail(r))
        exp, scale = R.contract(op, arr, Rd, sp, power=power)
        expect_dom = Rd.names if op == "weight" else Rd.remaining(sp)
        got, msg = field_result(r, expect_dom, label)
        if msg is None:
            msg = compare(got, exp, scale)
        if msg is not None:
            return bad("%s(spaces=%s) on %s dtype %s, input %s: %s" % (label, sp, list(Rd.names), dt, tag, msg),
                       finding_key="wrong-value|%s|dt=%s|vol=%s|spaces=%s" % (label, dt, vc, sc),
                       detail=dict(input=np.asarray(arr).tolist() if arr.size <= 24 and dt != "c16" else tag,
                                   got=str(got), expected=str(exp)))
        n_eval += 1
    return ok(nontrivial=sc != "empty", outcome="%s|%s|%s" % (op, vc, sc), stats=dict(field_evaluations=n_eval))


def run_vdot(c):
    Rd = refdom(tuple(c["dom"]))
    D = libdom(Rd.names)
    sp = tospaces(c["spaces"])
    da, db = c["dt"]
    sc = spclass(Rd, c["spaces"])
    a0 = R.fill(Rd.shape, da, c["seed"], 0)
    b0 = R.partner(a0, Rd.shape, db, c["seed"], 1)
    pairs = [("generic", a0, b0)]
    pairs += [("onehot-left", e, b0) for e in R.onehots(Rd.shape, da)]
    pairs += [("onehot-right", a0, e) for e in R.onehots(Rd.shape, db)]
    n_eval = 0
    for tag, a, b in pairs:
        fa, fb = mkfield(D, a), mkfield(D, b)
        okv, r = call(lambda: fa.vdot(fb, sp))
        if not okv:
            return bad("vdot(spaces=%s) on %s dtypes %s,%s raised %s: %s" % (sp, list(Rd.names), da, db, type(r).__name__, r),
                       finding_key=exc_key(r, op="vdot", dt="%s,%s" % (da, db)), detail=exc_detail(r))
        exp, scale = R.contract("vdot", a, Rd, sp, b=b)
        got, msg = field_result(r, Rd.remaining(sp), "vdot")
        if msg is None:
            msg = compare(got, exp, scale)
        if msg is not None:
            return bad("vdot(spaces=%s) on %s dtypes %s,%s, input %s: %s" % (sp, list(Rd.names), da, db, tag, msg),
                       finding_key="wrong-value|vdot|dt=%s,%s|spaces=%s" % (da, db, sc),
                       detail=dict(got=str(got), expected=str(exp)))
        n_eval += 1
    return ok(nontrivial=sc != "empty", outcome="vdot|%s|%s%s" % (sc, da, db), stats=dict(field_evaluations=n_eval))


def run_sred(c):
    Rd = refdom(tuple(c["dom"]))
    D = libdom(Rd.names)
    fam, dt = c["fam"], c["dt"]
    n_eval = 0
    if fam == "s_vdot":
        da, db = dt
        a0 = R.fill(Rd.shape, da, c["seed"], 0)
        b0 = R.partner(a0, Rd.shape, db, c["seed"], 1)
        pairs = [("generic", a0, b0)] + [("onehot-left", e, b0) for e in R.onehots(Rd.shape, da)] + \
                [("onehot-right", a0, e) for e in R.onehots(Rd.shape, db)]
        for tag, a, b in pairs:
            okv, r = call(lambda: mkfield(D, a).s_vdot(mkfield(D, b)))
            if not okv:
                return bad("s_vdot dtypes %s,%s raised %r" % (da, db, r), finding_key=exc_key(r, op="s_vdot", dt="%s,%s" % (da, db)),
                           detail=exc_detail(r))
            exp, scale = R.contract("vdot", a, Rd, None, b=b)
            msg = None if np.isscalar(r) else "s_vdot returned %s, not a scalar" % type(r).__name__
            msg = msg or compare(r, exp, scale)
            if msg:
                return bad("s_vdot on %s dtypes %s,%s input %s: %s" % (list(Rd.names), da, db, tag, msg),
                           finding_key="wrong-value|s_vdot|dt=%s,%s" % (da, db))
            n_eval += 1
        return ok(outcome="s_vdot|%s%s" % (da, db), stats=dict(field_evaluations=n_eval))
    vc = volclass(Rd, None)
    for tag, arr in _value_arrays(Rd, dt, c["seed"]):
        f = mkfield(D, arr)
        if fam == "norm":
            o = np.inf if c["ord"] == "inf" else c["ord"]
            okv, r = call(lambda: f.norm(o))
            label, exp, scale = "norm(%s)" % c["ord"], R.pnorm([arr], c["ord"]), max(1., R.pnorm([arr], 1))
            needs_vol = False
        else:
            label = c["op"]
            needs_vol = label[2:] in VOLOPS
            okv, r = call(lambda: getattr(f, label)())
            if needs_vol and vc == "unstructured":
                return _skip_unstructured(okv, r)
            if okv:
                exp, scale = R.contract(label[2:], arr, Rd, None)
        if not okv:
            return bad("%s on %s dtype %s raised %s: %s" % (label, list(Rd.names), dt, type(r).__name__, r),
                       finding_key=exc_key(r, dt=dt, vol=("has-nonuniform" if vc in ("mixed", "nonuniform") else vc) if needs_vol else "-"),
                       detail=exc_detail(r))
        msg = None if np.isscalar(r) else "%s returned %s, not a scalar" % (label, type(r).__name__)
        msg = msg or compare(r, exp, scale)
        if msg:
            return bad("%s on %s dtype %s input %s: %s" % (label, list(Rd.names), dt, tag, msg),
                       finding_key="wrong-value|%s|dt=%s|vol=%s" % (label, dt, vc if needs_vol else "-"))
        n_eval += 1
    return ok(outcome="%s|%s" % (label, vc if needs_vol else "-"), stats=dict(field_evaluations=n_eval))


def _apply_bin(op, x, y):
    return R.BINOPS[op](x, y)


def _binop_values(Rd, da, db, seed):
    a0 = R.fill(Rd.shape, da, seed, 0)
    b0 = R.partner(a0, Rd.shape, db, seed, 1)
    yield "generic", a0, b0
    for i, e in enumerate(R.onehots(Rd.shape, da)):
        yield "onehot-left%d" % i, e, b0
    for i, e in enumerate(R.onehots(Rd.shape, db)):
        yield "onehot-right%d" % i, a0, e


def _judge_pointwise(what, okl, rl, okr, rr, expect_names, key):
    """library outcome (okl, rl) against numpy outcome (okr, rr)"""
    if not okr:
        if okl:
            return bad("%s: numpy rejects the raw arrays (%r) but the library returned a result" % (what, rr),
                       finding_key="accepted-what-numpy-rejects|" + key), None
        return None, "numpy-rejects-too:" + type(rr).__name__
    if not okl:
        return bad("%s raised %s: %s" % (what, type(rl).__name__, rl), finding_key=exc_key(rl, op=key),
                   detail=exc_detail(rl)), None
    got, msg = field_result(rl, expect_names, what)
    if msg is None:
        msg = compare(got, rr, None, rel=1e-13)
    if msg:
        return bad("%s: %s" % (what, msg), finding_key="wrong-value|" + key,
                   detail=dict(got=str(got), expected=str(rr))), None
    return None, "ok"


def run_binop(c):
    Rd = refdom(tuple(c["dom"]))
    D = libdom(Rd.names)
    op = c["op"]
    da, db = c["dt"]
    meth = "__%s__" % op
    n_eval, label = 0, "ok"
    for tag, a, b in _binop_values(Rd, da, db, c["seed"]):
        fa, fb = mkfield(D, a), mkfield(D, b)
        okl, rl = call(lambda: getattr(fa, meth)(fb))
        okr, rr = call(lambda: _apply_bin(op, a, b))
        v, lab = _judge_pointwise("Field(%s) %s Field(%s) on %s, input %s" % (da, op, db, list(Rd.names), tag),
                                  okl, rl, okr, rr, Rd.names, "binop|%s|dt=%s,%s" % (op, da, db))
        if v:
            return v
        if tag == "generic":
            label = lab
        n_eval += 1
    return ok(nontrivial=label == "ok", outcome="binop|%s|%s" % (op, label), stats=dict(field_evaluations=n_eval))


def run_scalop(c):
    Rd = refdom(tuple(c["dom"]))
    D = libdom(Rd.names)
    op, dt, side = c["op"], c["dt"], c["side"]
    s = mkscalar(c["scalar"])
    n_eval, label = 0, "ok"
    for tag, arr in _value_arrays(Rd, dt, c["seed"]):
        f = mkfield(D, arr)
        if side == "r":       # field o scalar
            okl, rl = call(lambda: _apply_bin(op, f, s))
            okr, rr = call(lambda: _apply_bin(op, arr, s))
        else:                 # scalar o field  (reflected method, or the numpy scalar's own operator)
            okl, rl = call(lambda: _apply_bin(op, s, f))
            okr, rr = call(lambda: _apply_bin(op, s, arr))
        v, lab = _judge_pointwise("%s: Field(%s) with scalar %r side=%s on %s, input %s" % (op, dt, s, side, list(Rd.names), tag),
                                  okl, rl, okr, rr, Rd.names, "scalop|%s|dt=%s|scalar=%s|side=%s" % (op, dt, c["scalar"][0], side))
        if v:
            return v
        if tag == "generic":
            label = lab
        n_eval += 1
    return ok(nontrivial=label == "ok", outcome="scalop|%s|%s|%s" % (op, side, label), stats=dict(field_evaluations=n_eval))


def _lib_unop(f, op):
    if op == "neg":
        return -f
    if op == "pos":
        return +f
    if op == "abs":
        return abs(f)
    if op == "conjugate":
        return f.conjugate()
    return getattr(f, op)


def run_unop(c):
    Rd = refdom(tuple(c["dom"]))
    D = libdom(Rd.names)
    op, dt = c["op"], c["dt"]
    n_eval = 0
    for tag, arr in _value_arrays(Rd, dt, c["seed"]):
        f = mkfield(D, arr)
        okl, rl = call(lambda: _lib_unop(f, op))
        if op == "imag" and dt != "c16":
            if not okl and isinstance(rl, ValueError):
                return skip(".imag of a non-complex Field raises ValueError by design")
        okr, rr = call(lambda: R.UNOPS[op](arr))
        v, lab = _judge_pointwise("%s Field(%s) on %s input %s" % (op, dt, list(Rd.names), tag), okl, rl, okr, rr, Rd.names,
                                  "unop|%s|dt=%s" % (op, dt))
        if v:
            return v
        n_eval += 1
    identity = op == "pos" or (dt != "c16" and op in ("conjugate", "real"))
    return ok(nontrivial=not identity, outcome="unop|%s|%s" % (op, dt), stats=dict(field_evaluations=n_eval))


def _lib_binary(op, x, y, partial_spaces=None):
    if op == "vdot":
        return x.vdot(y)
    if op == "s_vdot":
        return x.s_vdot(y)
    if op == "vdot-partial":
        return x.vdot(y, spaces=0)
    return _apply_bin(op, x, y)


def run_reject(c):
    da, db = [tuple(d) for d in c["doms"]]
    if c["order"]:
        da, db = db, da
    Ra, Rb = refdom(da), refdom(db)
    if c["op"] == "vdot-partial" and len(da) == 0:
        return skip("partial vdot needs at least one sub-domain on the left operand")
    fa = mkfield(libdom(da), R.fill(Ra.shape, "f8", c["seed"], 0))
    fb = mkfield(libdom(db), R.fill(Rb.shape, "f8", c["seed"], 1))
    okl, r = call(lambda: _lib_binary(c["op"], fa, fb))
    if okl:
        return bad("%s of fields on different domains %s and %s was accepted (result %s)" % (c["op"], list(da), list(db), type(r).__name__),
                   finding_key="accepted-different-domains|Field|%s|%s" % (c["op"], c["pair"].split(":")[0]))
    return ok(outcome="rejected|%s|%s" % (c["pair"].split(":")[0], type(r).__name__))


def run_same_fresh(c):
    # the same domain described twice by freshly constructed objects is the SAME domain: must be accepted
    d = tuple(c["dom"])
    Rd = refdom(d)
    a, b = R.fill(Rd.shape, "f8", c["seed"], 0), R.fill(Rd.shape, "f8", c["seed"], 1)
    fa, fb = mkfield(libdom(d), a), mkfield(libdom(d), b)
    okl, r = call(lambda: _lib_binary(c["op"], fa, fb))
    if not okl:
        return bad("%s of two fields on equal domains %s raised %r" % (c["op"], list(d), r),
                   finding_key=exc_key(r, op="same-domain|" + c["op"]), detail=exc_detail(r))
    if c["op"] in ("vdot", "s_vdot"):
        exp, scale = R.contract("vdot", a, Rd, None, b=b)
        got = r if c["op"] == "s_vdot" else r.asnumpy()
        msg = compare(got, exp, scale)
    else:
        msg = compare(r.asnumpy(), _apply_bin(c["op"], a, b), None, rel=1e-13)
    if msg:
        return bad("%s on %s: %s" % (c["op"], list(d), msg), finding_key="wrong-value|same-domain|" + c["op"])
    return ok(outcome="accepted-equal-domains")


# ------------------------------------------------------------------ MultiField families
def libmdom(ms):
    import nifty.cl as ift
    return ift.MultiDomain.make({k: libdom(tuple(v)) for k, v in ms.items()})


def mf_arrays(ms, dts, seed, slot, partner_of=None):
    out = {}
    for i, k in enumerate(sorted(ms)):
        sh = refdom(tuple(ms[k])).shape
        if partner_of is None:
            out[k] = R.fill(sh, dts[k], seed, slot + 10 * i)
        else:
            out[k] = R.partner(partner_of[k], sh, dts[k], seed, slot + 10 * i)
    return out


def mkmf(md, arrs):
    import nifty.cl as ift
    return ift.MultiField.from_raw(md, {k: ift.AnyArray(np.array(v)) for k, v in arrs.items()})


def mf_onehots(ms, dts, base):
    """base with one entry replaced by each of its one-hot arrays"""
    for k in sorted(ms):
        sh = refdom(tuple(ms[k])).shape
        for i, e in enumerate(R.onehots(sh, dts[k])):
            d = dict(base)
            d[k] = e
            yield "onehot-%s%d" % (k, i), d


def mf_check_result(res, ms, exp, what, key, rel=1e-13, scale=None):
    import nifty.cl as ift
    if not isinstance(res, ift.MultiField):
        return bad("%s returned %s, not a MultiField" % (what, type(res).__name__), finding_key="wrong-type|" + key)
    if res.domain is not libmdom(ms):
        return bad("%s: result domain is not the operands' MultiDomain" % what, finding_key="wrong-domain|" + key)
    for k in sorted(ms):
        got, msg = field_result(res[k], tuple(ms[k]), what + "[%s]" % k)
        if msg is None:
            msg = compare(got, exp[k], scale, rel=rel)
        if msg:
            return bad("%s entry %r: %s" % (what, k, msg), finding_key="wrong-value|" + key,
                       detail=dict(got=str(got), expected=str(exp[k])))
    return None


def _mf_pointwise(what, key, ms, libfn, reffn):
    okl, rl = call(libfn)
    exp, rej = {}, None
    for k in sorted(ms):
        okr, rr = call(lambda: reffn(k))
        if not okr:
            rej = rr
            break
        exp[k] = rr
    if rej is not None:
        if okl:
            return bad("%s: numpy rejects the raw arrays (%r) but the library returned a result" % (what, rej),
                       finding_key="accepted-what-numpy-rejects|" + key), None
        return None, "numpy-rejects-too:" + type(rej).__name__
    if not okl:
        return bad("%s raised %s: %s" % (what, type(rl).__name__, rl), finding_key=exc_key(rl, op=key), detail=exc_detail(rl)), None
    return mf_check_result(rl, ms, exp, what, key), "ok"


def run_mf(c):
    fam = c["fam"]
    ms, dts, seed = c["mdom"], c["dts"], c["seed"]
    md = libmdom(ms)
    keys = sorted(ms)
    a0 = mf_arrays(ms, dts, seed, 0)
    dtl = ",".join(dts[k] for k in keys)
    values = [("generic", a0)] + list(mf_onehots(ms, dts, a0))
    n_eval, label = 0, "ok"
    if fam == "mf_unop":
        op = c["op"]
        if op == "imag" and any(dts[k] != "c16" for k in keys):
            okl, rl = call(lambda: mkmf(md, a0).imag)
            if not okl and isinstance(rl, ValueError):
                return skip(".imag of a non-complex Field raises ValueError by design")
        for tag, arrs in values:
            F = mkmf(md, arrs)
            v, lab = _mf_pointwise("MultiField %s (%s) input %s" % (op, dtl, tag), "mf_unop|%s|dt=%s" % (op, dtl), ms,
                                   lambda: _lib_unop(F, op), lambda k: R.UNOPS[op](arrs[k]))
            if v:
                return v
            n_eval += 1
        return ok(nontrivial=op != "pos", outcome="mf_unop|%s|nkeys=%d" % (op, len(keys)), stats=dict(field_evaluations=n_eval))
    if fam == "mf_scalop":
        op, side = c["op"], c["side"]
        s = mkscalar(c["scalar"])
        for tag, arrs in values:
            F = mkmf(md, arrs)
            if side == "r":
                lf, rf = (lambda: _apply_bin(op, F, s)), (lambda k: _apply_bin(op, arrs[k], s))
            else:
                lf, rf = (lambda: _apply_bin(op, s, F)), (lambda k: _apply_bin(op, s, arrs[k]))
            v, lab = _mf_pointwise("MultiField(%s) %s scalar %r side=%s input %s" % (dtl, op, s, side, tag),
                                   "mf_scalop|%s|dt=%s|scalar=%s|side=%s" % (op, dtl, c["scalar"][0], side), ms, lf, rf)
            if v:
                return v
            if tag == "generic":
                label = lab
            n_eval += 1
        return ok(nontrivial=label == "ok", outcome="mf_scalop|%s|%s|%s" % (op, side, label), stats=dict(field_evaluations=n_eval))
    if fam == "mf_norm":
        o = np.inf if c["ord"] == "inf" else c["ord"]
        for tag, arrs in values:
            okl, r = call(lambda: mkmf(md, arrs).norm(o))
            if not okl:
                return bad("MultiField.norm(%s) raised %r" % (c["ord"], r), finding_key=exc_key(r, op="mf_norm"), detail=exc_detail(r))
            exp = R.pnorm([arrs[k] for k in keys], c["ord"])
            msg = None if np.isscalar(r) else "norm returned %s" % type(r).__name__
            msg = msg or compare(r, exp, max(1., R.pnorm([arrs[k] for k in keys], 1)))
            if msg:
                return bad("MultiField(%s).norm(%s) on %s input %s: %s" % (dtl, c["ord"], ms, tag, msg),
                           finding_key="wrong-value|mf_norm|ord=%s|nkeys=%s" % (c["ord"], "1" if len(keys) == 1 else ">1"))
            n_eval += 1
        return ok(nontrivial=len(keys) > 1, outcome="mf_norm|%s|nkeys=%d" % (c["ord"], len(keys)), stats=dict(field_evaluations=n_eval))
    if fam == "mf_red":
        for tag, arrs in values:
            okl, r = call(lambda: mkmf(md, arrs).s_sum())
            if not okl:
                return bad("MultiField.s_sum raised %r" % (r,), finding_key=exc_key(r, op="mf_s_sum"), detail=exc_detail(r))
            exp = sum(arrs[k].sum() for k in keys)
            msg = compare(r, exp, max(1., sum(np.abs(arrs[k]).sum() for k in keys)))
            if msg:
                return bad("MultiField(%s).s_sum on %s input %s: %s" % (dtl, ms, tag, msg), finding_key="wrong-value|mf_s_sum")
            n_eval += 1
        return ok(nontrivial=len(keys) > 1, outcome="mf_s_sum|nkeys=%d" % len(keys), stats=dict(field_evaluations=n_eval))
    dts2 = c["dts2"]
    b0 = mf_arrays(ms, dts2, seed, 1, partner_of=a0)
    dtl2 = ",".join(dts2[k] for k in keys)
    pairs = [("generic", a0, b0)] + [(t, a, b0) for t, a in mf_onehots(ms, dts, a0)] + \
            [(t + "-right", a0, b) for t, b in mf_onehots(ms, dts2, b0)]
    if fam == "mf_binop":
        op = c["op"]
        for tag, a, b in pairs:
            FA, FB = mkmf(md, a), mkmf(md, b)
            v, lab = _mf_pointwise("MultiField(%s) %s MultiField(%s) input %s" % (dtl, op, dtl2, tag),
                                   "mf_binop|%s|dt=%s;%s" % (op, dtl, dtl2), ms,
                                   lambda: _apply_bin(op, FA, FB), lambda k: _apply_bin(op, a[k], b[k]))
            if v:
                return v
            if tag == "generic":
                label = lab
            n_eval += 1
        return ok(nontrivial=label == "ok", outcome="mf_binop|%s|%s|nkeys=%d" % (op, label, len(keys)), stats=dict(field_evaluations=n_eval))
    if fam == "mf_vdot":
        import nifty.cl as ift
        op = c["op"]
        for tag, a, b in pairs:
            okl, r = call(lambda: getattr(mkmf(md, a), op)(mkmf(md, b)))
            if not okl:
                return bad("MultiField.%s (%s;%s) raised %r" % (op, dtl, dtl2, r), finding_key=exc_key(r, op="mf_" + op, dt=dtl + ";" + dtl2),
                           detail=exc_detail(r))
            exp = sum((np.conj(a[k]) * b[k]).sum() for k in keys)
            scale = max(1., sum(np.abs(np.conj(a[k]) * b[k]).sum() for k in keys))
            if op == "vdot":
                got, msg = field_result(r, (), "MultiField.vdot")
            else:
                got, msg = r, (None if np.isscalar(r) else "s_vdot returned %s, not a scalar" % type(r).__name__)
            msg = msg or compare(got, exp, scale)
            if msg:
                return bad("MultiField.%s (%s;%s) on %s input %s: %s" % (op, dtl, dtl2, ms, tag, msg),
                           finding_key="wrong-value|mf_%s|dt=%s;%s" % (op, dtl, dtl2))
            n_eval += 1
        return ok(nontrivial=True, outcome="mf_%s|nkeys=%d" % (op, len(keys)), stats=dict(field_evaluations=n_eval))
    raise KeyError(fam)


def run_mf_reject(c):
    m1, m2 = c["mdoms"]
    if c["order"]:
        m1, m2 = m2, m1
    d1 = {k: "f8" for k in m1}
    d2 = {k: "f8" for k in m2}
    FA = mkmf(libmdom(m1), mf_arrays(m1, d1, c["seed"], 0))
    FB = mkmf(libmdom(m2), mf_arrays(m2, d2, c["seed"], 1))
    okl, r = call(lambda: _lib_binary(c["op"], FA, FB))
    if okl:
        return bad("%s of MultiFields on different domains %s and %s was accepted" % (c["op"], m1, m2),
                   finding_key="accepted-different-domains|MultiField|%s|%s" % (c["op"], c["pair"]))
    return ok(outcome="mf-rejected|%s|%s" % (c["pair"], type(r).__name__))


def run_mf_field_mix(c):
    ms, fd = c["mdom"], tuple(c["fdom"])
    F = mkmf(libmdom(ms), mf_arrays(ms, {k: "f8" for k in ms}, c["seed"], 0))
    f = mkfield(libdom(fd), R.fill(refdom(fd).shape, "f8", c["seed"], 1))
    x, y = (F, f) if c["order"] == 0 else (f, F)
    okl, r = call(lambda: _lib_binary(c["op"], x, y))
    if okl and c["op"] in ("eq", "ne") and isinstance(r, bool) and r == (c["op"] == "ne"):
        # both operands answered NotImplemented: Python's identity fallback ("not equal"), nothing was combined
        return ok(outcome="mix-not-comparable|%s" % c["pair"])
    if okl:
        kind = "vdot" if "vdot" in c["op"] else "binary-op-broadcasts-field-over-entries"
        return bad("%s between a %s and a %s (a MultiDomain and a DomainTuple are different domains) was accepted: "
                   "the Field is silently broadcast over the entries" % (c["op"], type(x).__name__, type(y).__name__),
                   finding_key="accepted-different-domains|MultiField-with-Field|%s" % kind)
    return ok(outcome="mix-rejected|%s|%s" % (c["pair"], type(r).__name__))


def run_mf_addsub(c):
    import nifty.cl as ift
    pool = {k: list(v) for k, v in c["pool"].items()}
    k1, k2 = c["k1"], c["k2"]
    m1 = {k: pool[k] for k in k1}
    m2 = {k: pool[k] for k in k2}
    if c["clash"]:
        m2 = dict(m2)
        m2["b"] = ["GL23"]         # same key, same shape, different domain
    a = mf_arrays(m1, {k: "f8" for k in m1}, c["seed"], 0)
    b = mf_arrays(m2, {k: "c16" if k == "c" else "f8" for k in m2}, c["seed"], 1)
    FA, FB = mkmf(libmdom(m1), a), mkmf(libmdom(m2), b)
    neg = {"False": False, "True": True}.get(c["neg"])
    negd = {k: (k != "b") for k in set(k1) | set(k2)}
    if neg is None:
        neg = negd
    okl, r = call(lambda: FA.flexible_addsub(FB, neg))
    if c["clash"]:
        if okl:
            return bad("flexible_addsub of MultiFields whose common key lives on different domains was accepted",
                       finding_key="accepted-different-domains|MultiField|flexible_addsub|common-key")
        return ok(outcome="addsub-rejected|%s" % type(r).__name__)
    if not okl:
        return bad("flexible_addsub(%s, %s, neg=%s) raised %r" % (k1, k2, c["neg"], r),
                   finding_key=exc_key(r, op="flexible_addsub", neg=c["neg"]), detail=exc_detail(r))
    union = {k: pool[k] for k in sorted(set(k1) | set(k2))}
    exp = {}
    for k in union:
        sgn = -1. if (neg[k] if isinstance(neg, dict) else neg) else 1.
        if k in a and k in b:
            exp[k] = a[k] + sgn * b[k]
        elif k in a:
            exp[k] = a[k]
        else:
            exp[k] = sgn * b[k]
    v = mf_check_result(r, union, exp, "flexible_addsub(%s,%s,neg=%s)" % (k1, k2, c["neg"]),
                        "flexible_addsub|neg=%s|%s" % (c["neg"], "same-domain" if k1 == k2 else "union"))
    if v:
        return v
    if c["neg"] == "False":      # unite is the same thing
        r2 = FA.unite(FB)
        v = mf_check_result(r2, union, exp, "unite(%s,%s)" % (k1, k2), "unite")
        if v:
            return v
    ov = len(set(k1) & set(k2))
    return ok(nontrivial=k1 != k2, outcome="addsub|neg=%s|overlap=%d|%s" % (c["neg"], ov, "same" if k1 == k2 else "union"))


FAMS = {
    "geom": run_geom, "contr": run_contr, "weight": run_contr, "vdot": run_vdot,
    "sred": run_sred, "norm": run_sred, "s_vdot": run_sred,
    "binop": run_binop, "scalop": run_scalop, "unop": run_unop,
    "reject": run_reject, "same-domain-fresh": run_same_fresh,
    "mf_unop": run_mf, "mf_scalop": run_mf, "mf_norm": run_mf, "mf_red": run_mf, "mf_binop": run_mf, "mf_vdot": run_mf,
    "mf_reject": run_mf_reject, "mf_field_mix": run_mf_field_mix, "mf_addsub": run_mf_addsub,
}


def run(case):
    return FAMS[case["fam"]](case)


def finish(run):
    """Many configurations share one root cause: keep the 3 simplest cases per finding key as violations (replay
    files), report the full counts in the evidence."""
    by = {}
    for case, out in run.violations:
        by.setdefault(out.get("finding_key") or out.get("what"), []).append((case, out))
    kept = []
    for k, lst in by.items():
        kept.extend(lst[:3])
    order = {id(c): i for i, (c, _) in enumerate(run.violations)}
    kept.sort(key=lambda co: order[id(co[0])])
    run.violations = kept
    return dict(violating_cases_by_key={k: len(v) for k, v in sorted(by.items())},
                field_evaluations=int(run.extra.get("field_evaluations", 0)))
