"""C03 Nonlinear operator values and Jacobians are exact derivatives.

Mode P: every well-typed expression tree with at most N operator nodes over a
stated alphabet (all 24 point-wise functions of ptw_dict, arithmetic with
scalars / fields / operators, linear leaves, contractions, vdot, key
insertion / extraction, multi-domain valued sums and products, einsum, JAX
operators, likelihood energies, StandardHamiltonian, ptw_pre, ducktape) is
built three times - as nifty.cl Operator, by calling the methods of
Linearization / Field objects directly, and as a plain-array transliteration
(vf/ref/c03_expr.py) - and compared at grid points, for real and complex
input:

  value      op(x) = op(Linearization).val = Linearization-API value = Field-API value = reference
  jac        dense Jacobian (every real [and imaginary] unit vector through jac.times) = jax.jacfwd of the
             reference on the real-ified input   (decides the identity for the whole tangent space)
  adjoint    dense jac.adjoint_times = transpose of the real-ified jac.times matrix (Re<.,.> pairing)
  metric     with want_metric=True a likelihood-typed tree returns a metric equal to
             sum_likelihoods J^T F J  (J by autodiff, F closed-form Fisher metric)
"""
import json

import numpy as np

from vf.core import ok, bad, skip

ID = "C03"
LEVEL = "exploration"
JAX = True
RULE = ("case = (well-typed expression tree, real|complex input, grid point); trees = ALL trees with <= N operator "
        "nodes over the stated alphabets (see coverage.space); distinct = distinct (tree, dtype, point); non-trivial = "
        "the tree has >= 1 operator node, the point is inside the premise of every node (valid range of each "
        "point-wise function, checked on the reference values), and value+Jacobian(+metric) were compared")
ASSUMPTIONS = [
    "2-pixel RGSpace (pixel volume 0.5), keys a,b (C03) / a,b,c (C04); numeric fill of constants and grid points "
    "is generic and selected by VERIF_SEED; structure is exhaustive over the stated alphabets and size bound",
    "reference derivative = jax.jacfwd of a plain-array transliteration on the real-ified input (x64)",
    "sigmoid is taken as the library defines it (0.5+0.5*tanh x); point-wise arguments stay >= 0.2 from "
    "singularities / branch cuts and >= 0.03 from kinks",
    "for a real input point only the real part of jac.adjoint_times / metric output is compared",
    "Fisher metrics of the bare likelihoods are closed forms (their own correctness is C11)",
    "tolerance 1e-9 * max(1, |a|, |b|)",
]

TOL = 1e-9


def _close(a, b):
    a, b = np.asarray(a), np.asarray(b)
    if a.shape != b.shape:
        return False
    if a.size == 0:
        return True
    if not (np.all(np.isfinite(a)) and np.all(np.isfinite(b))):
        return False
    s = max(1., np.abs(a).max(), np.abs(b).max())
    return bool(np.abs(a - b).max() <= TOL * s)


def _md(a, b):
    a, b = np.asarray(a), np.asarray(b)
    if a.shape != b.shape:
        return "shape %s vs %s" % (a.shape, b.shape)
    return "max|diff|=%.3e" % (np.abs(a - b).max() if a.size else 0.)


# ---------------------------------------------------------------- space
U_ARITH = ["neg", "smul:r", "smul:c", "sdiv", "rdiv", "sadd", "rsadd", "ssub", "rssub", "fadd", "fsub", "rfsub",
           "fmul", "rfmul", "spow", "rpow"]
U_LIN = ["mat", "diag", "real", "imag", "conj", "sum", "integrate", "vdotc"]
U_MULTI = ["dl:u", "get:u", "get:v", "einsum", "einsum0", "jaxS", "jaxM"]
U_ENERGY = ["gauss_d", "gauss_icov", "gauss_d_icov", "poisson", "invgamma", "studentt", "bernoulli", "sqnorm",
            "quadform", "vcge", "esmul", "ham", "ham0"]
BINARY = ["add", "sub", "mul", "div", "pow", "vdot", "outer", "pair", "madd", "mmul", "eadd"]
WRAPPERS = ["pre:exp", "pre:tanh"]

# reduced alphabets for the deeper levels
U_RED = ["ptw:exp", "ptw:sqrt", "ptw:tanh", "neg", "smul:c", "fmul", "mat", "conj", "real", "sum", "vdotc",
         "dl:u", "get:u", "einsum", "gauss_d", "poisson", "esmul", "ham"]
B_RED = ["add", "mul", "vdot", "pair", "eadd"]
U_CTX = ["ptw:exp", "smul:c", "mat", "conj", "sum", "dl:u", "get:u", "gauss_d"]     # contexts of the quick mixed block
B_CTX = ["add", "mul", "vdot", "pair"]
U_TINY = ["ptw:exp", "conj", "sum"]
B_TINY = ["mul", "vdot"]
U_TINY_T = ["ptw:exp", "conj", "mat", "sum", "gauss_d", "ham"]
B_TINY_T = ["mul", "vdot", "eadd"]
E_SUM = ["gauss_d", "gauss_icov", "poisson", "studentt"]


def _full_unary():
    from vf.ref import c03_expr as X
    return ["ptw:" + f for f in X.PTW_ALL] + U_ARITH + U_LIN + U_MULTI + U_ENERGY


def _mixed_size2():
    """ALL size-2 trees with one node from the FULL alphabet and the other from the CONTEXT alphabet, over
    keys a,b, modulo renaming a<->b of the inner size-1 tree (inner trees start with leaf a)."""
    from vf.ref import c03_expr as X
    full = _full_unary()
    A = [t for t in X.enumerate_trees(["a", "b"], full, BINARY, 1, wrappers=WRAPPERS)[1] if t[1] == "a"]
    R = [t for t in X.enumerate_trees(["a", "b"], U_CTX, B_CTX, 1)[1] if t[1] == "a"]
    out = []

    def grow(inner, un, bi, wr):
        for t in inner:
            t1 = X.tree_type(t)
            for u in un:
                if X.NODES[u].typ(t1) is not None:
                    out.append([u, t])
            for w in wr:
                if t1 != "SS":
                    out.append([w, t])
            for l in ("a", "b"):
                for b in bi:
                    if X.NODES[b].typ(t1, "S") is not None:
                        out.append([b, t, l])
                    if X.NODES[b].typ("S", t1) is not None:
                        out.append([b, l, t])
    grow(A, U_CTX, B_CTX, ())
    grow(R, full, BINARY, WRAPPERS)
    return {2: out}


U_XL = ["ptw:exp", "sum", "gauss_d", "esmul", "ham"]
B_XL = ["eadd", "mul", "add"]


def _composite_leaf_trees(n):
    """trees over the library operators that live directly on two keys (vf/ref/c04_expr.py) and leaf a"""
    from vf.ref import c03_expr as X
    from vf.ref import c04_expr as X4
    by = X.enumerate_trees(["a"] + X4.XLEAF_NAMES, U_XL, B_XL, n)
    return {s: [t for t in v if any(l in json.dumps(t) for l in X4.XLEAF_NAMES)] for s, v in by.items()}


def _einsum3_trees(n):
    """MultiLinearEinsum with three operands: every permutation of key_order, all-variable and with a static
    operand, on vectors (a,b,c) and on square matrices (keys P,Q,R on (S,S)); plus a unary context"""
    from vf.ref import c03_expr as X
    from vf.ref import c04_expr as X4
    return X.enumerate_trees(X4.ME3_VEC + X4.ME3_MAT, U_XL, [], n)


def _energy_sums():
    """eadd(e1(l1), e2(l2)) for all likelihood pairs and leaf pairs, bare / scaled / inside a StandardHamiltonian"""
    out = {3: [], 4: []}
    for e1 in E_SUM:
        for e2 in E_SUM:
            for l1 in ("a", "b"):
                for l2 in ("a", "b"):
                    t = ["eadd", [e1, l1], [e2, l2]]
                    out[3].append(t)
                    out[4].append(["ham", t])
                    out[4].append(["esmul", t])
    return out


_space_cache = {}


def space(tier):
    """[(label, cfg, {size: [trees]}, grid points)] - the union (duplicates removed) is the enumerated space."""
    from vf.ref import c03_expr as X
    if tier in _space_cache:
        return _space_cache[tier]
    full = _full_unary()
    blocks = []

    def add(label, cfg, leaves, un, bi, n, wr=(), depth=None, grid=(0, 1), grid_top=None):
        by = X.enumerate_trees(leaves, un, bi, n, max_depth=depth, wrappers=wr)
        blocks.append((label, cfg, by, {s: (grid_top if (grid_top and s == n) else grid) for s in by}))

    if tier == "quick":
        add("full alphabet, <=1 node", "ab", ["a", "b", "La"], full, BINARY, 1, WRAPPERS)
        add("full alphabet, <=1 node", "x", ["x", "Lx"], full, BINARY, 1, WRAPPERS)
        blocks.append(("full x context, 2 nodes (mod a<->b)", "ab", _mixed_size2(), {2: (0, 1)}))
        add("reduced alphabet, <=2 nodes", "x", ["x"], U_CTX, B_CTX, 2, ["pre:exp"])
        add("tiny alphabet, <=3 nodes", "ab", ["a", "b"], U_TINY, B_TINY, 3, grid_top=(0,))
        blocks.append(("likelihood sums", "ab", _energy_sums(), {3: (0, 1), 4: (0,)}))
        blocks.append(("operators on two keys (composite leaves), <=2 nodes", "ab", _composite_leaf_trees(2),
                       {0: (0, 1), 1: (0, 1), 2: (0,)}))
        blocks.append(("MultiLinearEinsum, 3 operands, all key orders, <=1 node", "abc", _einsum3_trees(1),
                       {0: (0, 1), 1: (0, 1)}))
    else:
        add("full alphabet, <=2 nodes", "ab", ["a", "b", "La"], full, BINARY, 2, WRAPPERS)
        add("full alphabet, <=2 nodes", "x", ["x", "Lx"], full, BINARY, 2, WRAPPERS)
        add("reduced alphabet, <=3 nodes", "ab", ["a", "b"], U_RED, B_RED, 3, ["pre:exp"], grid_top=(0,))
        add("tiny alphabet, <=4 nodes, depth<=3", "ab", ["a", "b"], U_TINY_T, B_TINY_T, 4, depth=3, grid_top=(0,))
        blocks.append(("likelihood sums", "ab", _energy_sums(), {3: (0, 1), 4: (0, 1)}))
        blocks.append(("operators on two keys (composite leaves), <=3 nodes", "ab", _composite_leaf_trees(3),
                       {0: (0, 1), 1: (0, 1), 2: (0, 1), 3: (0,)}))
        blocks.append(("MultiLinearEinsum, 3 operands, all key orders, <=2 nodes", "abc", _einsum3_trees(2),
                       {0: (0, 1), 1: (0, 1), 2: (0, 1)}))
    _space_cache[tier] = blocks
    return blocks


def cases(tier, seed):
    from vf.ref import c03_expr as X
    seen, out = set(), []
    for label, cfg, by, grid in space(tier):
        for size in sorted(by):
            trees = list(by[size])
            if cfg == "x":
                # ducktape: the same single-domain trees behind a key
                if size <= 1 or tier == "quick":
                    trees = trees + [["dtape:a", t] for t in by[size] if X.tree_type(t) != "SS"]
            for t in trees:
                k = json.dumps(t)
                if (cfg, k) in seen:
                    continue
                seen.add((cfg, k))
                key = (X.tree_size(t), X.tree_depth(t), cfg != "x")
                for dt in ("r", "c"):
                    # the mixed-sign point 1 matters for real kinks/ranges; complex input uses it only for <= 1 node
                    gs = tuple(grid[size] if (dt == "r" or size <= 1) else grid[size][:1])
                    if size <= 1 and dt == "r" and label.startswith("full alphabet"):
                        gs += (4, 5)      # extreme arguments (|x| ~ 36, |x| ~ 1e-6): branch thresholds of piecewise formulas
                    for g in gs:
                        out.append((key + (dt != "r", g, k), dict(cfg=cfg, tree=t, dt=dt, g=g, seed=int(seed))))
    out.sort(key=lambda c: c[0])
    return [c for _, c in out]


# ---------------------------------------------------------------- one case
class Fail:
    def __init__(self, check, api, msg):
        self.check, self.api, self.msg = check, api, msg

    def __repr__(self):
        return "%s[%s]: %s" % (self.check, self.api, self.msg)


def _point(E, case, keys):
    p = E.A["points"][case["g"]]
    return {k: (p[k][0] + 1j * p[k][1]) if E.cplx else p[k][0].copy() for k in keys}


def _field(E, inp, keys):
    ift = E.ift
    if keys == ["x"]:
        return ift.makeField(E.S, inp["x"])
    return ift.MultiField.from_dict({k: ift.makeField(E.dom_of(k), inp[k]) for k in keys})


def _flatval(v):
    from vf import dense
    return dense.flatten(v)


def _check_lin(E, X, lin, api, wm, ref, fails, stats, do_adjoint):
    """compare one Linearization against the reference bundle"""
    from vf import dense
    cplx = E.cplx
    n = ref["n"]
    got = _flatval(lin.val)
    if not _close(got, ref["val"]):
        fails.append(Fail("value", api, "Linearization.val differs from reference (%s)" % _md(got, ref["val"])))
    jac = lin.jac
    try:
        T = X.dense_apply(jac.times, jac.domain, jac.target, cplx)
    except Exception as e:      # noqa
        # the same loud dtype rejections as for the adjoint can hit jac.times: a zero Jacobian (NullOperator,
        # or the real-typed Jacobian of a real-valued energy) hands a float64 tangent to Imaginizer / jax.jvp
        if _documented_rejection(e):
            stats["jac_rejected"] = stats.get("jac_rejected", 0) + 1
        else:
            fails.append(Fail("exception:%s" % type(e).__name__, api, "jac.times raised %r" % (e,)))
        return
    stats["jac_columns"] = stats.get("jac_columns", 0) + T.shape[1]
    if not _close(T, ref["J"]):
        fails.append(Fail("jac", api, "dense Jacobian differs from autodiff reference (%s)\nlib=%s\nref=%s" % (
            _md(T, ref["J"]), np.array2string(T, precision=6), np.array2string(ref["J"], precision=6))))
    if do_adjoint:
        out_c = ref["out_cplx"]
        try:
            A = X.dense_apply(jac.adjoint_times, jac.target, jac.domain, out_c)
        except Exception as e:      # noqa
            if _documented_rejection(e):
                stats["adjoint_rejected"] = stats.get("adjoint_rejected", 0) + 1
                A = None
            else:
                fails.append(Fail("exception:%s" % type(e).__name__, api, "jac.adjoint_times raised %r" % (e,)))
                A = None
        if A is not None:
            m = T.shape[0] // 2
            exp = T.T[:, :(2 * m if out_c else m)]
            gotA = A[:(2 * n if cplx else n)]
            if not _close(gotA, exp):
                fails.append(Fail("adjoint", api, "jac.adjoint_times is not the (real-ified) transpose of jac.times "
                                  "(%s)\nadj=%s\ntimes^T=%s" % (_md(gotA, exp), np.array2string(gotA, precision=6),
                                                                 np.array2string(exp, precision=6))))
            stats["adjoint_checked"] = stats.get("adjoint_checked", 0) + 1
    if wm and ref["M"] is not None:
        if lin.metric is None:
            fails.append(Fail("metric-missing", api, "want_metric=True but no metric returned for a likelihood tree"))
        else:
            try:
                Ml = X.dense_apply(lin.metric.times, lin.metric.domain, lin.metric.target, cplx)
            except Exception as e:      # noqa
                if _documented_rejection(e):
                    stats["metric_rejected"] = stats.get("metric_rejected", 0) + 1
                else:
                    fails.append(Fail("exception:%s" % type(e).__name__, api, "metric.times raised %r" % (e,)))
                return
            Ml = Ml[:(2 * n if cplx else n)]
            if not _close(Ml, ref["M"]):
                fails.append(Fail("metric", api, "metric differs from sum J^T F J (%s)\nlib=%s\nref=%s" % (
                    _md(Ml, ref["M"]), np.array2string(Ml, precision=6), np.array2string(ref["M"], precision=6))))
            stats["metric_checked"] = stats.get("metric_checked", 0) + 1


def _documented_rejection(e):
    """Loud dtype rejections of a cotangent: Imaginizer raises ValueError (its adjoint only takes real
    input); a JaxOperator's VJP raises ValueError when the cotangent dtype differs from the output dtype."""
    import traceback
    if isinstance(e, TypeError) and "primal and tangent arguments to jax.jvp do not match" in str(e):
        return True      # JaxOperator: tangent dtype differs from the primal dtype (e.g. the float64 zero of a NullOperator)
    if not isinstance(e, ValueError):
        return False
    if "unexpected JAX type" in str(e) or ".imag called on a non-complex Field" in str(e):
        return True
    tb = traceback.extract_tb(e.__traceback__)
    return any(f.name == "apply" and "simple_linear_operators" in f.filename for f in tb[-2:])


def evaluate(case, localise=True):
    """-> ("skip", why) | ("done", fails, stats, info)"""
    from vf.ref import c03_expr as X
    from vf.ref import c04_expr  # noqa: F401  (registers the composite leaves)
    cplx = case["dt"] == "c"
    E = X.get_env(case["seed"], cplx)
    ift = E.ift
    t = case["tree"]
    keys = sorted(X.tree_keys(t))
    inp = _point(E, case, keys)
    try:
        vref = X.ref_eval(t, E, np, inp, True)
    except X.Outside as e:
        return ("skip", str(e))
    typ = X.tree_type(t)
    n = NP = sum(np.asarray(inp[k]).size for k in keys)
    J = X.ref_jacobian(lambda d, xp: X.ref_eval(t, E, xp, d, False), inp, keys, cplx)
    M = X.ref_metric(t, E, inp, keys, cplx) if typ in ("E", "H", "Em") else None
    ref = dict(val=X.flat(vref).astype(np.complex128), J=J, M=M, n=n, out_cplx=bool(np.iscomplexobj(X.flat(vref))))
    if not np.all(np.isfinite(J)) or np.abs(J).max(initial=0.) > 1e8:
        return ("skip", "reference Jacobian not finite / too large")
    x = _field(E, inp, keys)
    fails, stats = [], {}
    linonly = X.has_flag(t, "linonly")

    # ---- operator API
    if not linonly:
        try:
            op = X.build_op(t, E)
            if keys == ["x"]:
                dom_ok = op.domain is E.S
            else:
                dom_ok = isinstance(op.domain, ift.MultiDomain) and list(op.domain.keys()) == keys
            if not dom_ok:
                fails.append(Fail("domain", "op", "operator domain %r is not the union of its leaves %s" % (op.domain, keys)))
            else:
                v = _flatval(op(x))
                if not _close(v, ref["val"]):
                    fails.append(Fail("value", "op", "op(x) differs from reference (%s)" % _md(v, ref["val"])))
                for wm in (False, True):
                    lin = op(ift.Linearization.make_var(x, wm))
                    # history: a LATER evaluation of the same operator object at another point must not change
                    # the Linearization obtained before (no linearisation point may live on the operator)
                    try:
                        op(ift.Linearization.make_var(0.75 * x, wm))
                        stats["interleaved"] = stats.get("interleaved", 0) + 1
                    except Exception:      # noqa  (0.75 x may lie outside the operator's domain of definition)
                        pass
                    _check_lin(E, X, lin, "op", wm, ref, fails, stats, do_adjoint=not wm)
        except Exception as e:      # noqa
            import traceback
            if _documented_rejection(e):
                stats["api_rejected"] = stats.get("api_rejected", 0) + 1
            else:
                fails.append(Fail("exception:%s" % type(e).__name__, "op", "%r\n%s" % (e, traceback.format_exc()[-1500:])))

    # ---- Linearization / Field methods
    try:
        v = _flatval(X.lin_eval(t, E, x))
        if not _close(v, ref["val"]):
            fails.append(Fail("value", "fld", "Field-method evaluation differs from reference (%s)" % _md(v, ref["val"])))
    except Exception as e:      # noqa
        import traceback
        if _documented_rejection(e):
            stats["api_rejected"] = stats.get("api_rejected", 0) + 1
        else:
            fails.append(Fail("exception:%s" % type(e).__name__, "fld", "%r\n%s" % (e, traceback.format_exc()[-1500:])))
    try:
        for wm in ((False, True) if M is not None else (False,)):
            lin = X.lin_eval(t, E, ift.Linearization.make_var(x, wm))
            try:
                X.lin_eval(t, E, ift.Linearization.make_var(0.75 * x, wm))
                stats["interleaved"] = stats.get("interleaved", 0) + 1
            except Exception:      # noqa
                pass
            _check_lin(E, X, lin, "lin", wm, ref, fails, stats, do_adjoint=not wm)
    except Exception as e:      # noqa
        import traceback
        if _documented_rejection(e):
            stats["api_rejected"] = stats.get("api_rejected", 0) + 1
        else:
            fails.append(Fail("exception:%s" % type(e).__name__, "lin", "%r\n%s" % (e, traceback.format_exc()[-1500:])))

    info = dict(type=typ, keys=keys, size=X.tree_size(t), metric=M is not None)
    return ("done", fails, stats, info)


def culprit(case):
    """smallest failing subtree: descend while a child, checked on its own, fails too"""
    from vf.ref import c03_expr as X
    t = case["tree"]
    while not X.is_leaf(t):
        nxt = None
        for c in t[1:]:
            if X.is_leaf(c) and c not in X.XLEAVES:
                continue
            cfg = "x" if X.tree_keys(c) == {"x"} else case["cfg"]
            r = evaluate(dict(case, tree=c, cfg=cfg), localise=False)
            if r[0] == "done" and r[1]:
                nxt = c
                break
        if nxt is None:
            break
        t = nxt
    return t


def _category(op):
    if op.startswith("ptw:"):
        return "ptw"
    if op in U_ARITH or op in ("add", "sub", "mul", "div", "pow"):
        return "arith"
    if op in U_LIN or op in ("vdot", "outer"):
        return "linear/contract"
    if op in U_ENERGY or op == "eadd":
        return "energy"
    if op in WRAPPERS or op == "dtape:a":
        return "wrap"
    return "multi"


def run(case):
    import time
    from vf.ref import c03_expr as X
    t0 = time.process_time()
    r = evaluate(case)
    if r[0] == "skip":
        return skip(r[1], stats=dict(cpu_s=time.process_time() - t0))
    _, fails, stats, info = r
    stats["cpu_s"] = time.process_time() - t0
    t = case["tree"]
    dts = "complex" if case["dt"] == "c" else "real"
    if fails:
        f = fails[0]
        c = culprit(case)
        cop = c if X.is_leaf(c) else c[0]
        if cop in X.XLEAVES:
            cop = cop.split(":")[0]      # family of the composite leaf (e.g. all key orders of one einsum form)
        # key = every failing check x every failing API x dtype x smallest failing subtree's root operator, so
        # that an additional failure of the same operator is still reported as new
        checks = "+".join(sorted({x.check for x in fails}))
        apis = "+".join(sorted({x.api for x in fails}))
        return bad("%s: %s [%s input, tree %s]" % (f.check, f.msg.split("\n")[0], dts, X.tree_str(t)),
                   finding_key="%s|%s|%s|%s" % (checks, apis, dts, cop),
                   detail=dict(tree=X.tree_str(t), culprit=X.tree_str(c), fails=[repr(x) for x in fails][:8]),
                   stats=stats)
    ops = X.tree_ops(t)
    for o in set(ops):
        stats["n|%s|%s" % (dts, o)] = 1
    root = ops[0] if ops else "leaf"
    if not stats.get("jac_columns"):
        # every Jacobian application was a loud dtype rejection: only the value was compared, not counted
        return ok(nontrivial=False, outcome="%s|value only: jac.times rejects the tangent dtype" % dts, stats=stats,
                  detail=dict(tree=X.tree_str(t)))
    return ok(nontrivial=len(ops) > 0 or t in X.XLEAVES,
              outcome="%s|%s->%s|size%d|%s" % (dts, _category(root) if ops else "leaf", info["type"], info["size"],
                                               "metric" if info["metric"] else "-"),
              stats=stats, detail=dict(tree=X.tree_str(t)))


def finish(run):
    from vf.ref import c03_expr as X
    cnt = {k: int(v) for k, v in run.extra.items() if k.startswith("n|")}
    for k in cnt:
        del run.extra[k]
    per = {}
    for k, v in cnt.items():
        _, dts, o = k.split("|", 2)
        per.setdefault(o, {})[dts] = v
    # no vacuity: every point-wise function must have been verified (real; complex for the holomorphic ones)
    for f in ([] if run.extra.get("filtered_by") else X.PTW_ALL):      # (not meaningful on a VERIF_FILTER slice)
        need = ["real"] + ([] if f.split(":")[0] in X.NONHOLO else ["complex"])
        for dts in need:
            if per.get("ptw:" + f, {}).get(dts, 0) == 0 and not any(
                    (o.get("finding_key") or "").endswith("|ptw:" + f) for _, o in run.violations):
                run.violations.append((dict(coverage="ptw:" + f, dt=dts),
                                       bad("point-wise function %s never verified for %s input" % (f, dts),
                                           finding_key="coverage|never-verified|%s|ptw:%s" % (dts, f))))
    return dict(space=[dict(block=l, cfg=c, trees_by_size={str(s): len(v) for s, v in by.items()},
                            grid_points_by_size={str(s): list(g) for s, g in gr.items()})
                       for l, c, by, gr in space(run.tier)],
                ops_verified={o: per[o] for o in sorted(per)},
                alphabets=dict(unary_full=_full_unary(), binary_full=BINARY, wrappers=WRAPPERS + ["dtape:a"],
                               unary_reduced=U_RED, binary_reduced=B_RED, unary_context=U_CTX, binary_context=B_CTX,
                               tiny=(U_TINY + B_TINY) if run.tier == "quick" else (U_TINY_T + B_TINY_T),
                               likelihood_sums=E_SUM))
