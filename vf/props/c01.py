"""C01 Linear-operator algebra has exact matrix semantics.

Mode P: every type-correct expression tree with at most k operator nodes over a
leaf library with known dense matrices is built twice -- as a NIFTy operator
(through the public algebra: + - @ scale .adjoint .inverse SandwichOperator.make)
and as a numpy matrix expression (vf/ref/c01_model.py).  For every mode the
NIFTy object advertises, its action on EVERY real and imaginary unit vector
(hence on all inputs) must equal the reference matrix; the advertised
capability must contain the structural rule (sum: TIMES|ADJOINT & children,
chain: & children, adapter: permuted); domain/target must be the declared
objects.
"""
import contextlib
import io
import os
import re

import numpy as np

from vf.core import ok, bad, skip
from vf.ref import c01_model as rm

ID = "C01"
LEVEL = "exploration"
RULE = ("case = one type-correct expression tree over {add, sub, @, scalar*, .adjoint, .inverse, Sandwich.make} "
        "and a leaf library (Scaling 0/1/-1/real/complex/with sampling dtype, Diagonal real/complex/every _trafo/"
        "partial-space, MatrixProduct (also on a sub-space), harness Dense (rectangular, invertible, odd capability "
        "mask), Sandwich, BlockDiagonal incl. missing entries and sub-MultiDomains, Null, FFT, Hartley, Contraction); "
        "ALL trees with <= k operator nodes are enumerated (k<=3 contains every tree of depth <= 2); every advertised "
        "mode is decided on a full real+imaginary basis; non-trivial = some make()/flip returned a structurally "
        "different object than the naive composite (Sum/Chain of exactly the operands, OperatorAdapter of the operand)")
ASSUMPTIONS = [
    "numeric fill of the leaves is generic (VERIF_SEED), |diag| in [0.5,2], singular values of matrices in [0.5,2]",
    "inverse modes are compared only where the reference matrix is invertible (sigma_min > 1e-9 sigma_max) and the "
    "propagated first-order round-off bound stays below 1e-6 relative; .inverse of an exactly singular operand that "
    "raises ZeroDivisionError is outside the premise (skip)",
    "tolerance = 1e3 x propagated round-off bound (DESIGN 2.6); leaves are complex-linear, complex-linearity of the "
    "result is part of the comparison (real-ified matrices)",
    "trees with 4 operator nodes / depth 3 only over the small core libraries stated in coverage.spaces",
]

SCAL_FULL = [(-1., 0.), (0., 0.), (2., 0.), (1., 2.)]
SCAL_CORE = [(-1., 0.), (1., 2.)]

# (label, leaf names, max ops, scalars)
SPACES = {
    "quick": [
        ("full<=1", rm.FULL, 1, SCAL_FULL),
        ("P4<=3", ["Sr", "Dc", "M", "G"], 3, SCAL_CORE),
        ("P15<=2", ["Sr", "Dc", "M", "Sc", "Srd", "Drd", "Dc1", "Dc2", "Dc3", "Dr2", "G", "G5", "N", "I", "Z"], 2,
         SCAL_CORE),
        ("X8<=2", ["Dr", "F", "Hy", "Dh", "Gpu", "Gup", "Du", "Su"], 2, SCAL_CORE),
        ("Q7<=2", ["Dq0", "Dq1", "Dq0t", "Dqf", "Sq", "Mq0", "C"], 2, SCAL_CORE),
        ("MD8<=2", ["Bdd", "Bds", "Bm", "Bma", "Bmb", "Smd", "Ba", "Bb"], 2, SCAL_CORE),
        ("bd-chain-entry<=1", ["Bch", "Bdd"], 1, SCAL_CORE),
    ],
    "thorough": [
        ("full<=2", rm.FULL, 2, SCAL_FULL),
        ("P6<=3", ["Sr", "Sc", "Drd", "Dc", "M", "G"], 3, SCAL_CORE),
        ("X6<=3", ["Dr", "F", "Dh", "Gpu", "Gup", "Du"], 3, SCAL_CORE),
        ("Q5<=3", ["Dq0", "Dq1", "Dq0t", "Sq", "C"], 3, SCAL_CORE),
        ("MD4<=3", ["Bds", "Bm", "Bma", "Ba"], 3, SCAL_CORE),
        ("P2<=4", ["Dc", "M"], 4, SCAL_CORE),
        ("bd-chain-entry<=1", ["Bch", "Bdd"], 1, SCAL_CORE),
    ],
}


def _leaf_types():
    L = rm.leaf_table(0)
    return {n: (v["dom"], v["tgt"]) for n, v in L.items()}


def cases(tier, seed):
    import json
    lt = _leaf_types()
    seen, out, sizes = set(), [], {}
    for label, names, kmax, scalars in SPACES[tier]:
        n_new = 0
        for k, tr in rm.enumerate_trees(lt, names, kmax, scalars):
            key = json.dumps(tr)
            if key in seen:
                continue
            seen.add(key)
            n_new += 1
            out.append((k, len(key), len(out), dict(t=tr, s=int(seed), g=label)))
        sizes[label] = n_new
    out.sort(key=lambda x: x[:3])
    cases.sizes = sizes
    return [c for _, _, _, c in out]


# ------------------------------------------------------------------ NIFTy environment (per worker, per seed)
class Env:
    def __init__(self, seed):
        import nifty.cl as ift
        self.ift = ift
        self.seed = seed
        self.leaves = rm.leaf_table(seed)
        self._ops = {}
        P = ift.RGSpace(3, distances=rm.DIST_P)
        R = ift.RGSpace(2, distances=rm.DIST_Q)
        U = ift.UnstructuredDomain(2)
        self._base = dict(P=ift.DomainTuple.make(P), H=ift.DomainTuple.make(P.get_default_codomain()),
                          U=ift.DomainTuple.make(U), Q=ift.DomainTuple.make((R, U)), R=ift.DomainTuple.make(R))
        self._doms = dict(self._base)

        class DenseOperator(ift.LinearOperator):
            """Harness-side leaf: explicit matrix between two DomainTuples with a chosen capability."""

            def __init__(s, domain, target, mat, capability):
                s._domain = ift.DomainTuple.make(domain)
                s._target = ift.DomainTuple.make(target)
                s._capability = int(capability)
                s._m = {1: mat, 2: mat.conj().T}
                if mat.shape[0] == mat.shape[1]:
                    s._m[4] = np.linalg.inv(mat)
                    s._m[8] = s._m[4].conj().T

            def apply(s, x, mode):
                s._check_input(x, mode)
                out = s._m[mode] @ x.asnumpy().reshape(-1)
                t = s._tgt(mode)
                return ift.makeField(t, out.reshape(t.shape))

        class DenseEndoOperator(ift.EndomorphicOperator):
            """Same, declared endomorphic (what BlockDiagonalOperator accepts as an entry)."""

            def __init__(s, domain, target, mat, capability):
                assert domain is target
                DenseOperator.__init__(s, domain, target, mat, capability)

            def apply(s, x, mode):
                s._check_input(x, mode)
                out = s._m[mode] @ x.asnumpy().reshape(-1)
                return ift.makeField(s._domain, out.reshape(s._domain.shape))
        self.DenseEndo = DenseEndoOperator
        self.Dense = DenseOperator

    def dom(self, t):
        if t not in self._doms:
            self._doms[t] = self.ift.MultiDomain.make({k: self._base[b] for k, b in rm.parts(t)})
        return self._doms[t]

    def field(self, t, vals):
        d = self.dom(t)
        return self.ift.makeField(d, np.array(vals).reshape(d.shape))

    def leaf(self, name):
        if name not in self._ops:
            self._ops[name] = self.leaves[name]["make"](self)
        return self._ops[name]


_ENV = {}


def env(seed):
    if seed not in _ENV:
        _ENV.clear()
        _ENV[seed] = Env(seed)
    return _ENV[seed]


# ------------------------------------------------------------------ labels
_SHORT = dict(ScalingOperator="Scal", DiagonalOperator="Diag", BlockDiagonalOperator="BD", SumOperator="Sum",
              ChainOperator="Chain", OperatorAdapter="Adapt", NullOperator="Null", MatrixProductOperator="Mat",
              DenseOperator="Dense", DenseEndoOperator="Dense", SandwichOperator="Sandw", FFTOperator="FFT", HartleyOperator="Hartley",
              ContractionOperator="Contr")


def coarse(op):
    n = type(op).__name__
    return _SHORT.get(n, n)


def fine(op):
    c = coarse(op)
    if c == "Scal":
        f = op._factor
        c += "[1]" if f == 1 else "[0]" if f == 0 else "[c]" if np.imag(f) != 0 else ""
        c += "[dt]" if op._dtype is not None else ""
    elif c == "Diag":
        c += ("[t%d]" % op._trafo if op._trafo else "") + ("[c]" if op._complex else "")
        c += ("[dt]" if op._dtype is not None else "") + ("[part]" if op._spaces is not None else "")
    elif c == "BD":
        c += "[miss]" if any(o is None for o in op._ops) else ""
    elif c == "Adapt":
        c += "[%d:%s]" % (op._trafo, coarse(op._op))
    return c


def _events(opname, kids, res, naive):
    """Names of the simplifier / bookkeeping branches this node exercised (for the evidence)."""
    ev = []
    kc = [coarse(k) for k in kids]
    rc = coarse(res)
    if opname in ("add", "sub"):
        if "Scal" in kc and "Diag" in kc:
            s, d = (kids[0], kids[1]) if kc[0] == "Scal" else (kids[1], kids[0])
            if rc == "Diag":
                ev.append("sum:scaling-absorbed-into-diagonal" + ("-complex" if np.imag(s._factor) != 0 else ""))
            elif s._dtype != d._dtype:
                ev.append("sum:scaling-not-absorbed-sampling-dtype-differs")
        if kc == ["Scal", "Scal"]:
            ev.append("sum:scalings-collected" + ("-dtypes-differ" if kids[0]._dtype != kids[1]._dtype else ""))
        if kc == ["Diag", "Diag"]:
            if rc == "Diag":
                ev.append("sum:diagonal-merge" + ("-mixed-trafo" if kids[0]._trafo != kids[1]._trafo else "")
                          + ("-partial-space" if (kids[0]._spaces is not None or kids[1]._spaces is not None) else ""))
            else:
                ev.append("sum:diagonals-not-merged-sampling-dtype-differs")
        if kc == ["BD", "BD"]:
            ev.append("sum:block-diagonal-merge")
        if "Sum" in kc:
            ev.append("sum:unpack-nested-sum")
        if rc == "Sum" and res.domain is not kids[0].domain:
            ev.append("sum:domain-union")
    elif opname in ("mul", "scale", "sand"):
        if "Null" in kc:
            ev.append("chain:null")
        if any(k.isIdentity() for k in kids) and len(kids) == 2:
            ev.append("chain:identity-shortcut")
        if "Scal" in kc:
            sc = [k for k in kids if coarse(k) == "Scal"]
            if any(np.imag(k._factor) != 0 for k in sc):
                ev.append("chain:complex-scaling-kept")
            if any(np.imag(k._factor) == 0 and k._factor != 1 for k in sc):
                ev.append("chain:real-scaling-collected" + ("-into-diagonal" if "Diag" in kc else ""))
        if kc == ["Diag", "Diag"]:
            ev.append("chain:diagonal-product" + ("-mixed-trafo" if kids[0]._trafo != kids[1]._trafo else "")
                      + ("-partial-space" if (kids[0]._spaces is not None or kids[1]._spaces is not None) else ""))
        if kc == ["BD", "BD"]:
            ev.append("chain:block-diagonal-merge")
        if "Chain" in kc:
            ev.append("chain:unpack-nested-chain")
    elif opname in ("adj", "inv"):
        if not naive:
            ev.append("flip:%s-of-%s->%s" % (opname, kc[0], rc))
        elif kc[0] == "Adapt":
            ev.append("flip:adapter-of-adapter")
    return ev


# ------------------------------------------------------------------ building the NIFTy expression
class BuildError(Exception):
    def __init__(self, exc, opname, kids, subtree):
        self.exc, self.opname, self.kids, self.subtree = exc, opname, kids, subtree


def build(tree, e, info):
    """-> nifty operator.  info collects simplification flags / events."""
    ift = e.ift
    if isinstance(tree, str):
        try:
            return e.leaf(tree)
        except Exception as exc:
            raise BuildError(exc, "leaf:" + tree, [], tree) from exc
    opname = tree[0]
    if opname == "scale":
        kids = [build(tree[2], e, info)]
    elif opname == "sand":
        kids = [build(tree[1], e, info)] + ([] if tree[2] is None else [build(tree[2], e, info)])
    else:
        kids = [build(t, e, info) for t in tree[1:]]
    try:
        with np.errstate(all="ignore"):
            if opname == "add":
                res = kids[0] + kids[1]
            elif opname == "sub":
                res = kids[0] - kids[1]
            elif opname == "mul":
                res = kids[0] @ kids[1]
            elif opname == "scale":
                c = complex(*tree[1])
                c = c.real if c.imag == 0 else c
                res = c * kids[0]
            elif opname == "adj":
                res = kids[0].adjoint
            elif opname == "inv":
                res = kids[0].inverse
            elif opname == "sand":
                res = ift.SandwichOperator.make(kids[0], kids[1] if len(kids) > 1 else None)
            else:
                raise ValueError(opname)
    except Exception as exc:  # classified by the caller
        if opname not in ("add", "sub", "mul", "scale", "adj", "inv", "sand"):
            raise
        raise BuildError(exc, opname, kids, tree) from exc
    from nifty.cl.operators.sum_operator import SumOperator
    from nifty.cl.operators.chain_operator import ChainOperator
    from nifty.cl.operators.operator_adapter import OperatorAdapter
    if opname in ("add", "sub"):
        naive = isinstance(res, SumOperator) and len(res._ops) == 2 and \
            res._ops[0] is kids[0] and res._ops[1] is kids[1] and tuple(res._neg) == (False, opname == "sub")
    elif opname == "mul":
        naive = isinstance(res, ChainOperator) and len(res._ops) == 2 and \
            res._ops[0] is kids[0] and res._ops[1] is kids[1]
    elif opname == "scale":
        naive = isinstance(res, ChainOperator) and len(res._ops) == 2 and res._ops[1] is kids[0]
    elif opname in ("adj", "inv"):
        naive = isinstance(res, OperatorAdapter) and res._op is kids[0]
    else:
        naive = isinstance(res, ift.SandwichOperator) and isinstance(res._op, ChainOperator) and \
            len(res._op._ops) == 3
    info["nodes"] += 1
    if not naive:
        info["simplified"] += 1
    ekids = kids
    if opname == "scale":
        ekids = [ift.ScalingOperator(kids[0].target, c)] + kids
    for ev in _events(opname, ekids, res, naive):
        info["events"][ev] = info["events"].get(ev, 0) + 1
    info["top"] = "%s(%s)->%s" % (opname, ",".join(fine(k) for k in kids), fine(res))
    info["top_coarse"] = "%s(%s)" % (opname if opname not in ("add", "sub") else "sum", ",".join(coarse(k) for k in kids))
    return res


def _site(exc):
    """Innermost frame inside the nifty package: 'file.py:function' (names the root cause, not the case)."""
    import traceback
    site = "?"
    for fr in traceback.extract_tb(exc.__traceback__):
        if "/nifty/" in fr.filename:
            site = "%s:%s" % (os.path.basename(fr.filename), fr.name)
    return site


def _norm_msg(exc):
    lines = [ln.strip() for ln in str(exc).split("\n") if ln.strip()] or [""]
    m = "%s:%s" % (type(exc).__name__, lines[-1] if "ducc0" in str(exc) else lines[0])
    m = re.sub(r"0x[0-9a-f]+", "0x", m)
    m = re.sub(r"[-+]?\d+\.\d+(e[-+]?\d+)?", "#", m)
    return m[:110]


# ------------------------------------------------------------------ the check of one tree
def check_tree(tree, e):
    """-> (verdict, payload): ("skip", why) | ("bad", (what, key, detail)) | ("ok", info)"""
    from vf import dense
    ref = rm.ref_eval(tree, e.leaves)
    info = dict(nodes=0, simplified=0, events={}, top="leaf", top_coarse="leaf")
    try:
        op = build(tree, e, info)
    except BuildError as be:
        if isinstance(be.exc, (ZeroDivisionError, FloatingPointError)) and ref.singular_inverse:
            return "skip", "inverse of an exactly singular operand rejected (ZeroDivisionError)"
        key = "build-raises|%s|%s" % (_site(be.exc), _norm_msg(be.exc))
        return "bad", ("building %s raised %r" % (_show(be.subtree), be.exc), key,
                       dict(subtree=be.subtree, operands=[fine(k) for k in be.kids]))
    if isinstance(tree, str):
        info["top"] = "leaf:" + fine(op)
    # declared domain / target objects
    if op.domain is not e.dom(ref.dom) or op.target is not e.dom(ref.tgt):
        return "bad", ("domain/target of the result are not the declared objects: %s -> %s, expected %s -> %s"
                       % (op.domain, op.target, ref.dom, ref.tgt), "wrong-domain|" + info["top_coarse"], None)
    cap = int(op.capability)
    if cap & ref.cap != ref.cap:
        return "bad", ("capability %d lacks modes of the structural rule %d for %s" % (cap, ref.cap, info["top"]),
                       "capability-missing|%s|%s" % (info["top_coarse"], _modes(ref.cap & ~cap)), None)
    wrong, checked, unver = [], 0, 0
    detail = {}
    raised = None
    for mode in rm.MODES:
        if not cap & mode:
            continue
        M, E = ref.mode_matrix(mode)
        if M is None or not np.isfinite(E) or 1e3 * E > 1e-6 * max(np.abs(M).max(), 1e-30):
            unver += 1
            continue
        try:
            with np.errstate(all="ignore"):
                R = dense.rmatrix(op, mode)
        except Exception as exc:
            wrong.append(mode)
            detail[rm.MODE_NAME[mode]] = "apply raised %s" % _norm_msg(exc)
            raised = raised or "apply-raises|%s|%s" % (_site(exc), _norm_msg(exc))
            continue
        checked += 1
        Rref = dense.realify(M)
        tol = 1e3 * E + 1e-300
        d = dense.maxdiff(R, Rref)
        if not (np.all(np.isfinite(R)) and d <= tol):
            wrong.append(mode)
            detail[rm.MODE_NAME[mode]] = dict(maxdiff=d, tol=tol, got=np.round(R, 6).tolist(),
                                              want=np.round(Rref, 6).tolist())
    if raised:
        return "bad", ("%s: applying an advertised mode raised (%s): %s" % (info["top"], _modes(sum(wrong)), raised),
                       raised, detail)
    if wrong:
        return "bad", ("%s: action differs from the matrix expression in mode(s) %s" % (info["top"], _modes(sum(wrong))),
                       "wrong-action|%s|%s" % (info["top_coarse"], _modes(sum(wrong))), detail)
    info.update(checked=checked, unverifiable=unver, cap=cap, extra_cap=cap & ~ref.cap)
    if checked == 0:
        return "skip", "no advertised mode has a defined reference (singular / ill-conditioned)"
    return "ok", info


def _modes(mask):
    return "+".join(rm.MODE_NAME[m] for m in rm.MODES if mask & m)


def _show(tree):
    if isinstance(tree, str) or tree is None:
        return str(tree)
    if tree[0] == "scale":
        return "(%g%+gj)*%s" % (tree[1][0], tree[1][1], _show(tree[2]))
    if tree[0] in ("adj", "inv"):
        return "%s.%s" % (_show(tree[1]), "adjoint" if tree[0] == "adj" else "inverse")
    if tree[0] == "sand":
        return "Sandwich(%s,%s)" % (_show(tree[1]), _show(tree[2]))
    return "(%s %s %s)" % (_show(tree[1]), {"add": "+", "sub": "-", "mul": "@"}[tree[0]], _show(tree[2]))


def _subtrees(tree):
    if isinstance(tree, str):
        return []
    return [t for t in tree[1:] if isinstance(t, str) or (isinstance(t, list) and isinstance(t[0], str)
                                                           and t[0] in ("add", "sub", "mul", "scale", "adj", "inv", "sand"))]


def _minimal_failure(tree, e):
    """Smallest failing subtree (root cause) of a failing tree."""
    for sub in _subtrees(tree):
        try:
            v, p = check_tree(sub, e)
        except Exception:
            continue
        if v == "bad":
            return _minimal_failure(sub, e) or (sub, p)
    return None


def run(case):
    e = env(int(case["s"]))
    buf = io.StringIO()    # MatrixProductOperator.apply prints a debug line
    with contextlib.redirect_stdout(buf):
        verdict, p = check_tree(case["t"], e)
        if verdict == "bad":
            mf = _minimal_failure(case["t"], e)
            if mf is not None:
                sub, (what, key, detail) = mf
                return bad("%s   [inside %s]" % (what, _show(case["t"])), finding_key=key,
                           detail=dict(minimal_subtree=sub, info=detail))
            what, key, detail = p
            return bad("%s   [%s]" % (what, _show(case["t"])), finding_key=key, detail=detail)
    if verdict == "skip":
        return skip(p)
    stats = {"ev|" + k: v for k, v in p["events"].items()}
    stats.update(modes_checked=p["checked"], modes_unverifiable=p["unverifiable"],
                 nodes_simplified=p["simplified"], extra_modes_advertised=bin(p["extra_cap"]).count("1"))
    return ok(nontrivial=p["simplified"] > 0, outcome=p["top"], stats=stats,
              detail=dict(expr=_show(case["t"]), cap=p["cap"]))


def finish(run):
    branches = {k[3:]: int(run.extra.pop(k)) for k in sorted(run.extra) if k.startswith("ev|")}
    return dict(spaces=getattr(cases, "sizes", {}), simplifier_branches_hit=branches)
