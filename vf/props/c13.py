"""C13 Gaussian sampling from covariance operators has the right covariance.

Mode P through the RNG seam (DESIGN 2.4): every normal draw of `nifty.cl` is served
from a scripted tape.  For every operator of a finite catalogue (scaling, diagonal
with every `_trafo`, sandwich with invertible / rank-deficient / complex / library
buns, block-diagonal, sums, `SamplingEnabler` sums drawn through CG, adjoints and
inverses of all of them, real and complex sampling dtype, forward and inverse draw)
`draw_sample` is run once per unit vector of the tape.  The sampler is linear in its
white excitation xi (checked), so these runs give the exact L with sample = L xi and
the distributional claim becomes the algebraic identity
        E[s s^H] = L L^H = c * T,   T = C or C^-1,   c = 1 (real) | 2 (complex dtype),
        E[s s^T] = L L^T = 0 for complex dtype,  Im L = 0 for real dtype on real operators,
        mean = sample at xi = 0 = 0,
decided to round-off with no Monte-Carlo error.  C is NOT taken from the library: it
is the dense matrix of an independent numpy model of the spec (vf/ref/c13_model.py);
`op.apply` is compared against it as well, so "covariance equal to the operator"
is checked against both.  Operators that cannot be a covariance must raise.
"""
import itertools
import json
import os
import time

import numpy as np

from vf.core import ok, bad, skip
from vf.ref import c13_model as M

ID = "C13"
LEVEL = "exploration"
RULE = ("case = (operator spec with all numbers written out, top-level transform none/adjoint/inverse/"
        "adjoint-inverse, from_inverse flag); the catalogue is the full product of the leaf / bun / cheese / "
        "block-entry / sum / enabler alphabets listed in cases(); per case the sampler is run on EVERY unit "
        "vector of its excitation tape (exact L). non-trivial = a sample came back, had >0 scripted draws and its "
        "exact covariance was compared with the reference, or an operator that cannot be a covariance raised; "
        "documented limitations (inverse of a general sum, non-invertible bun, missing block entry) are skips")
ASSUMPTIONS = [
    "all randomness of nifty.cl flows through nifty.cl.random._rng[-1].normal (other generator methods are refused "
    "loudly by the scripted generator)",
    "Gaussianity follows from linearity in the white excitation (linearity is checked on probes e_i+e_j-like and 2e_i)",
    "numeric values are alphabet values (diagonals in [0.5,2], buns with singular values in [0.3,4]); structure is exhaustive",
    "CG inside SamplingEnabler/InversionEnabler runs with tol_abs_gradnorm=1e-13, iteration_limit=200; compared at 1e-8",
    "complex sampling dtype follows the documented convention: unit variance per real component (E[ss^H]=2C, E[ss^T]=0)",
    "for a real sampling dtype behind a complex bun only E[ss^H]=C is demanded (E[ss^T] is not specified anywhere)",
]

TOL_DIRECT = 1e-10
TOL_CG = 1e-8
TOL_SINGLE = 2e-5


# =====================================================================================
#                                   case catalogue
# =====================================================================================
def _r(x, nd=3):
    return float(np.round(x, nd))


class Fill:
    """Generic numeric fill (selected by VERIF_SEED; never the structure)."""

    def __init__(self, seed, variant=0):
        self.rng = np.random.default_rng([1300, int(seed), int(variant)])

    def pos(self, n):
        return [_r(x) for x in self.rng.uniform(0.5, 2.0, n)]

    def signed(self, n):
        v = self.rng.uniform(0.5, 2.0, n) * self.rng.choice([-1., 1.], n)
        v[0] = -abs(v[0])
        if n > 1:
            v[1] = abs(v[1])
        return [_r(x) for x in v]

    def matrix(self, m, n, rank=None):
        """m x n real matrix, singular values of the leading min(m,n) (or `rank`) block in [0.3, 4]."""
        for _ in range(1000):
            A = np.round(self.rng.uniform(-1.5, 1.5, (m, n)), 2)
            if rank is not None and rank < min(m, n):
                # last row := combination of the first ones (exactly rank deficient after rounding? no:
                # build it exactly from rows already rounded, with dyadic weights)
                A[-1] = 0.5 * A[0] - 0.25 * A[1 % (m - 1)]
            s = np.linalg.svd(A, compute_uv=False)
            r = min(m, n) if rank is None else rank
            if s[r - 1] >= 0.3 and s[0] <= 4.:
                return [[float(x) for x in row] for row in A]
        raise RuntimeError("no well-conditioned matrix found")

    def spd(self, n):
        A = np.array(self.matrix(n, n))
        S = np.round(A.T @ A + 0.5 * np.eye(n), 3)
        S = (S + S.T) / 2
        return [[float(x) for x in row] for row in S]


def scal(dom, f, dt):
    return dict(k="scal", dom=dom, f=f, dt=dt)


def diag(dom, d, dt, sp=None):
    return dict(k="diag", dom=dom, d=d, dt=dt, sp=sp)


def dense(dom, tgt, m, mi=None, inv=False):
    return dict(k="dense", dom=dom, tgt=tgt, m=m, mi=mi, inv=inv)


def sand(bun, cheese, dt=None):
    return dict(k="sand", bun=bun, cheese=cheese, dt=dt)


def T(t, op):
    return dict(k="T", t=t, op=op)


def ssum(terms, neg=None):
    return dict(k="sum", terms=terms, neg=[False] * len(terms) if neg is None else neg)


def enab(lik, prior, sfz=False, approx=False):
    return dict(k="enab", lik=lik, prior=prior, sfz=sfz, approx=approx)


def _buns(F, N, tier):
    """Bun alphabet on RGSpace(N) -> (label, spec)."""
    D = [["rg", N]]
    U = lambda n: [["un", n]]
    out = []
    out.append(("dense-wide", dense(D, U(N - 1), F.matrix(N - 1, N))))
    out.append(("dense-tall", dense(D, U(N + 1), F.matrix(N + 1, N))))
    out.append(("dense-sq-inv", dense(D, U(N), F.matrix(N, N), inv=True)))
    out.append(("dense-sq-noinvcap", dense(D, U(N), F.matrix(N, N), inv=False)))
    out.append(("dense-sq-singular", dense(D, U(N), F.matrix(N, N, rank=N - 1), inv=False)))
    out.append(("dense-cplx-wide", dense(D, U(N - 1), F.matrix(N - 1, N), mi=F.matrix(N - 1, N))))
    out.append(("dense-cplx-sq-inv", dense(D, U(N), F.matrix(N, N), mi=F.matrix(N, N), inv=True)))
    out.append(("diag-real-signed", diag(D, F.signed(N), None)))
    out.append(("diag-cplx", diag(D, [[a, b] for a, b in zip(F.signed(N), F.signed(N))], None)))
    out.append(("scal-neg", scal(D, -2.0, None)))
    out.append(("scal-cplx-unit", scal(D, [0.6, 0.8], None)))       # |f| = 1: make() returns the cheese itself
    out.append(("scal-cplx", scal(D, [0.0, 1.5], None)))
    flags = [0] * N
    flags[1] = 1
    out.append(("mask", dict(k="mask", dom=D, flags=flags)))
    out.append(("chain-diag-dense", dict(k="chain", ops=[diag(U(N), F.signed(N), None),
                                                         dense(D, U(N), F.matrix(N, N), inv=True)])))
    out.append(("adj-of-dense-tall", T(1, dense(U(N + 1), D, F.matrix(N, N + 1)))))   # acts D -> U(N+1)
    out.append(("inv-of-dense-sq", T(2, dense(U(N), D, F.matrix(N, N), inv=True))))   # acts D -> U(N)
    if tier != "quick":
        out.append(("adjinv-of-dense-cplx", T(3, dense(D, U(N), F.matrix(N, N), mi=F.matrix(N, N), inv=True))))
        out.append(("inven-spd", dict(k="inven", op=dense(D, D, F.spd(N), inv=False))))
    return out


def _cheeses(F, tgt, tier):
    n = M.dsize(tgt)
    out = [("none-f8", None, "f8"), ("none-c16", None, "c16"), ("none-nodtype", None, None),
           ("diag-f8", diag(tgt, F.pos(n), "f8"), None), ("diag-c16", diag(tgt, F.pos(n), "c16"), None),
           ("scal-f8", scal(tgt, 1.7, "f8"), None),
           ("diag-neg", diag(tgt, F.signed(n), "f8"), None),
           ("diag-zero", diag(tgt, [0.] + F.pos(n - 1), "f8"), None),
           ("diag-inv", T(2, diag(tgt, F.pos(n), "f8")), None)]
    # nested sandwich (make() flattens it) and a sum as cheese
    inner = sand(dense(tgt, [["un", n + 1]], F.matrix(n + 1, n)), diag([["un", n + 1]], F.pos(n + 1), "f8"))
    out.append(("sand", inner, None))
    out.append(("sum-sand-diag", ssum([inner, diag(tgt, F.pos(n), "f8")]), None))
    if tier != "quick":
        out.append(("diag-f4", diag(tgt, F.pos(n), "f4"), None))
        out.append(("scal-c8", scal(tgt, 0.8, "c8"), None))
        out.append(("scal-one-c16", scal(tgt, 1.0, "c16"), None))
    return out


def _catalogue(tier, seed):
    """-> list of (group, label, spec).  Full products of the alphabets, no sampling."""
    ops = []
    sizes = [3, 2] if tier == "quick" else [3, 2, 4]
    variants = [0] if tier == "quick" else [0, 1, 2]
    for N, var in itertools.product(sizes, variants):
        F = Fill(seed, 10 * N + var)
        tag = "N%d.v%d" % (N, var)
        D, U = [["rg", N]], [["un", N]]
        P = [["rg", 2], ["un", N]]
        MD = {"a": [["rg", 2]], "b": [["un", N - 1]]}

        # ---- 1. scaling operators
        for dom_l, dom in (("rg", D), ("multi", MD)):
            for f_l, f in (("pos", 1.7), ("one", 1.0), ("zero", 0.0), ("neg", -0.8), ("cplx", [0.6, 0.4]),
                           ("cplx-typed-real", [1.3, 0.0])):
                for dt in ("f8", "c16", None) + (() if tier == "quick" else ("f4", "c8", "pyfloat", "pycomplex")):
                    ops.append(("scal", "%s|%s|%s|%s" % (tag, dom_l, f_l, dt), scal(dom, f, dt)))
            ops.append(("scal", "%s|%s|scaled" % (tag, dom_l), dict(k="scaled", f=2.5, op=scal(dom, 1.7, "f8"))))
        ops.append(("scal", "%s|multi|pos|dict" % tag, scal(MD, 1.7, {"a": "f8", "b": "c16"})))
        ops.append(("scal", "%s|multi|pos|dict-dtype-instances" % tag, scal(MD, 1.7, {"a": "f8i", "b": "c16i"})))
        ops.append(("scal", "%s|single|pos|dtype-instance" % tag, scal(D, 1.7, "f8i")))
        ops.append(("scal", "%s|multi|pos|dict-none" % tag, scal(MD, 1.7, {"a": "f8", "b": None})))

        # ---- 2. diagonal operators
        dvals = lambda n: (("pos", F.pos(n)), ("zero", F.pos(n - 1) + [0.]), ("neg", F.signed(n)),
                           ("cplx", [[a, b] for a, b in zip(F.pos(n), F.signed(n))]),
                           ("cplx-typed-real", [[a, 0.] for a in F.pos(n)]))
        for d_l, d in dvals(N):
            for dt in ("f8", "c16", None) + (() if tier == "quick" else ("f4", "c8")):
                ops.append(("diag", "%s|rg|%s|%s" % (tag, d_l, dt), diag(D, d, dt)))
        for sp, n in ((None, 2 * N), ([0], 2), ([1], N)):
            for d_l, d in dvals(n)[:3]:
                for dt in ("f8", "c16"):
                    ops.append(("diag", "%s|prod|sp=%s|%s|%s" % (tag, sp, d_l, dt), diag(P, d, dt, sp)))
        for dt in ("f8", "c16"):
            ops.append(("diag", "%s|scaled-pos|%s" % (tag, dt), dict(k="scaled", f=2.5, op=diag(D, F.pos(N), dt))))
            ops.append(("diag", "%s|scaled-neg|%s" % (tag, dt), dict(k="scaled", f=-1.0, op=diag(D, F.pos(N), dt))))
            ops.append(("diag", "%s|chain-pos-pos|%s" % (tag, dt),
                        dict(k="chain", ops=[diag(D, F.pos(N), dt), diag(D, F.pos(N), dt)])))
            ops.append(("diag", "%s|chain-neg-neg|%s" % (tag, dt),
                        dict(k="chain", ops=[diag(D, [-x for x in F.pos(N)], dt), diag(D, [-x for x in F.pos(N)], dt)])))
            ops.append(("diag", "%s|chain-pos-neg|%s" % (tag, dt),
                        dict(k="chain", ops=[diag(D, F.pos(N), dt), diag(D, F.signed(N), dt)])))
            ops.append(("diag", "%s|chain-inv-pos|%s" % (tag, dt),
                        dict(k="chain", ops=[T(2, diag(D, F.pos(N), dt)), diag(D, F.pos(N), dt)])))
        ops.append(("diag", "%s|chain-mixed-dtype" % tag,
                    dict(k="chain", ops=[diag(D, F.pos(N), "f8"), diag(D, F.pos(N), "c16")])))

        # ---- 3. sandwiches: every bun x every cheese
        buns = _buns(F, N, tier)
        for (b_l, b) in buns:
            for (c_l, c, dt) in _cheeses(F, M.tgt_of(b), tier):
                ops.append(("sand", "%s|%s|%s" % (tag, b_l, c_l), sand(b, c, dt)))
        # scaled sandwich (ChainOperator), InversionEnabler around a sandwich
        s0 = sand(buns[0][1], diag(M.tgt_of(buns[0][1]), F.pos(N - 1), "f8"))
        ops.append(("sand", "%s|scaled-sandwich" % tag, dict(k="scaled", f=2.0, op=s0)))
        ops.append(("sand", "%s|inven-sandwich" % tag, dict(k="inven", op=s0)))
        if tier != "quick":
            si0 = sand(buns[2][1], diag(M.tgt_of(buns[2][1]), F.pos(N), "c16"))
            for t in (1, 2, 3):
                ops.append(("sand", "%s|adapter(%d)-of-sandwich-inv" % (tag, t), T(t, si0)))
            e0 = enab(s0, diag(D, F.pos(N), "f8"))
            ops.append(("sand", "%s|dense-tall|enabler-cheese" % tag, sand(dense([["un", N - 1]], D, F.matrix(N, N - 1)), e0)))
            ops.append(("sand", "%s|dense-sq-inv|enabler-cheese" % tag, sand(dense(U, D, F.matrix(N, N), inv=True), e0)))
            ops.append(("block", "%s|a=enabler|b=diag" % tag,
                        dict(k="block", dom={"a": D, "b": U}, ops={"a": e0, "b": diag(U, F.pos(N), "f8")})))
        # multi-domain sandwich: bun MultiDomain -> un, and bun rg -> MultiDomain with block cheese
        nmd = M.dsize(MD)
        ops.append(("sand", "%s|multidom-bun|diag-f8" % tag,
                    sand(dense(MD, U, F.matrix(N, nmd)), diag(U, F.pos(N), "f8"))))
        ops.append(("sand", "%s|multidom-bun|none-c16" % tag, sand(dense(MD, U, F.matrix(N, nmd)), None, "c16")))
        for dt in ("f8", "c16"):
            blk = dict(k="block", dom=MD, ops={"a": diag(MD["a"], F.pos(2), dt), "b": scal(MD["b"], 0.7, dt)})
            ops.append(("sand", "%s|multitgt-bun|block-cheese-%s" % (tag, dt),
                        sand(dense(D, MD, F.matrix(nmd, N)), blk)))
            ops.append(("sand", "%s|multitgt-bun-inv|block-cheese-%s" % (tag, dt),
                        sand(dense(MD, MD, F.matrix(nmd, nmd), inv=True), blk)))

        # ---- 4. block-diagonal: every entry x every entry
        def entries(dom, which):
            n = M.dsize(dom)
            e = [("diag-f8", diag(dom, F.pos(n), "f8")), ("diag-c16", diag(dom, F.pos(n), "c16")),
                 ("scal-f8", scal(dom, 1.3, "f8")), ("scal-nodtype", scal(dom, 1.3, None)),
                 ("diag-neg", diag(dom, F.signed(n), "f8")),
                 ("sand-wide", sand(dense(dom, [["un", max(1, n - 1)]], F.matrix(max(1, n - 1), n)),
                                    diag([["un", max(1, n - 1)]], F.pos(max(1, n - 1)), "f8"))),
                 ("sand-inv", sand(dense(dom, [["un", n]], F.matrix(n, n), inv=True), None, "c16")),
                 ("missing", None)]
            if tier != "quick":
                e.append(("diag-zero", diag(dom, [0.] + F.pos(n - 1), "f8")))
                e.append(("sum-sand-diag", ssum([e[5][1], diag(dom, F.pos(n), "f8")])))
            return e
        for (la, ea), (lb, eb) in itertools.product(entries(MD["a"], "a"), entries(MD["b"], "b")):
            o = {}
            if ea is not None:
                o["a"] = ea
            if eb is not None:
                o["b"] = eb
            ops.append(("block", "%s|a=%s|b=%s" % (tag, la, lb), dict(k="block", dom=MD, ops=o)))
        if tier != "quick":
            MD3 = {"a": [["rg", 2]], "b": [["un", 2]], "c": [["rg", 1]]}
            for la, lb, lc in itertools.product(range(3), range(3), range(4)):
                ea, eb = entries(MD3["a"], "a")[la], entries(MD3["b"], "b")[lb]
                ec = [("scal-f8", scal(MD3["c"], 0.9, "f8")), ("scal-c16", scal(MD3["c"], 0.9, "c16")),
                      ("diag-f8", diag(MD3["c"], F.pos(1), "f8")), ("missing", None)][lc]
                o = {"a": ea[1], "b": eb[1]}
                if ec[1] is not None:
                    o["c"] = ec[1]
                ops.append(("block", "%s|3keys|%s|%s|%s" % (tag, ea[0], eb[0], ec[0]), dict(k="block", dom=MD3, ops=o)))

        # ---- 5. sums
        for dt in ("f8", "c16"):
            sw = sand(dense(D, [["un", N - 1]], F.matrix(N - 1, N)), diag([["un", N - 1]], F.pos(N - 1), dt))
            si = sand(dense(D, U, F.matrix(N, N), inv=True), diag(U, F.pos(N), dt))
            big = [_r(x + 2.5) for x in F.pos(N)]
            small = [_r(0.2 * x) for x in F.pos(N)]
            S = [("scal+scal", ssum([scal(D, 1.7, dt), scal(D, 0.4, dt)])),
                 ("scal-scal-pos", ssum([scal(D, 1.7, dt), scal(D, 0.4, dt)], [False, True])),
                 ("scal-scal-neg", ssum([scal(D, 0.4, dt), scal(D, 1.7, dt)], [False, True])),
                 ("scal+scal-nodtype", ssum([scal(D, 1.7, dt), scal(D, 0.4, None)])),
                 ("scal+diag", ssum([scal(D, 1.7, dt), diag(D, F.pos(N), dt)])),
                 ("diag+diag", ssum([diag(D, F.pos(N), dt), diag(D, F.pos(N), dt)])),
                 ("diag+diag-nodtype", ssum([diag(D, F.pos(N), dt), diag(D, F.pos(N), None)])),
                 ("diag-diag-pos", ssum([diag(D, big, dt), diag(D, F.pos(N), dt)], [False, True])),
                 ("diag-diag-neg", ssum([diag(D, F.pos(N), dt), diag(D, big, dt)], [False, True])),
                 ("diag-scal-pos", ssum([diag(D, big, dt), scal(D, 0.4, dt)], [False, True])),
                 ("diag+invdiag", ssum([diag(D, F.pos(N), dt), T(2, diag(D, F.pos(N), dt))])),
                 ("invdiag+scal", ssum([T(2, diag(D, F.pos(N), dt)), scal(D, 0.4, dt)])),
                 ("invdiag-scal", ssum([T(3, diag(D, [_r(0.2 * x) for x in F.pos(N)], dt)), scal(D, 0.4, dt)], [False, True])),
                 ("sandwide+diag", ssum([sw, diag(D, F.pos(N), dt)])),
                 ("sandwide+scal", ssum([sw, scal(D, 0.9, dt)])),
                 ("sandwide+sandinv", ssum([sw, si])),
                 ("sandwide+diag+scal", ssum([sw, diag(D, F.pos(N), dt), scal(D, 0.3, dt)])),
                 ("sandwide+scal+scal", ssum([sw, scal(D, 0.3, dt), scal(D, 0.5, dt)])),
                 ("sandinv-diag-psd", ssum([sand(dense(D, U, F.matrix(N, N), inv=True), scal(U, 40., dt)),
                                            diag(D, small, dt)], [False, True])),
                 ("sandwide-diag-indef", ssum([sw, diag(D, small, dt)], [False, True])),
                 ("diag-sandwide-psd", ssum([diag(D, [_r(x + 40.) for x in F.pos(N)], dt), sw], [False, True])),
                 ("sandwide+diag-scal", ssum([sw, diag(D, big, dt), scal(D, 0.3, dt)], [False, False, True])),
                 ("sandwide-diag+scal", ssum([sand(dense(D, U, F.matrix(N, N), inv=True), scal(U, 40., dt)),
                                              diag(D, small, dt), scal(D, 0.01, dt)], [False, True, False])),
                 ]
            bA = dict(k="block", dom=MD, ops={"a": diag(MD["a"], F.pos(2), dt), "b": scal(MD["b"], 0.7, dt)})
            bB = dict(k="block", dom=MD, ops={"a": diag(MD["a"], F.pos(2), dt),
                                              "b": sand(dense(MD["b"], [["un", 1]], F.matrix(1, N - 1)), None, dt)})
            S.append(("block+block-merge", ssum([bA, bA])))
            S.append(("block+block-sand", ssum([bA, bB])))
            S.append(("block+scal", ssum([bB, scal(MD, 0.6, dt)])))
            for l, s in S:
                ops.append(("sum", "%s|%s|%s" % (tag, l, dt), s))

        # ---- 6. SamplingEnabler: every likelihood x every prior x options
        for dt in ("f8", "c16"):
            def liks():
                return [("sand-wide", sand(dense(D, [["un", N - 1]], F.matrix(N - 1, N)), diag([["un", N - 1]], F.pos(N - 1), dt))),
                        ("sand-inv", sand(dense(D, U, F.matrix(N, N), inv=True), diag(U, F.pos(N), dt))),
                        ("sand-cplx", sand(dense(D, [["un", N - 1]], F.matrix(N - 1, N), mi=F.matrix(N - 1, N)), None, dt)),
                        ("sand-mask", sand(dict(k="mask", dom=D, flags=[0, 1] + [0] * (N - 2)), T(2, diag([["un", N - 1]], F.pos(N - 1), dt)))),
                        ("diag", diag(D, F.pos(N), dt)),
                        ("sand-negcheese", sand(dense(D, [["un", N - 1]], F.matrix(N - 1, N)), diag([["un", N - 1]], F.signed(N - 1), dt))),
                        ("sum-sand-sand", ssum([sand(dense(D, [["un", 1]], F.matrix(1, N)), None, dt),
                                                sand(dense(D, [["un", N - 1]], F.matrix(N - 1, N)), None, dt)]))]

            def priors():
                return [("diag", diag(D, F.pos(N), dt)), ("invdiag", T(2, diag(D, F.pos(N), dt))),
                        ("scal", scal(D, 0.6, dt)), ("scal-one", scal(D, 1.0, dt)),
                        ("sand-inv", sand(dense(D, U, F.matrix(N, N), inv=True), None, dt)),
                        ("diag-zero", diag(D, [0.] + F.pos(N - 1), dt)),
                        ("scal-nodtype", scal(D, 0.6, None)),
                        ("sand-wide", sand(dense(D, [["un", N - 1]], F.matrix(N - 1, N)), None, dt))]
            for (ll, lk), (pl, pr) in itertools.product(liks(), priors()):
                for sfz, approx in ((False, False), (True, False), (False, True)) + (() if tier == "quick" else ((True, True),)):
                    if sfz and pl in ("diag-zero", "sand-wide"):
                        continue    # start_from_zero never looks at the prior alone; singular sums are out of premise
                    ops.append(("enab", "%s|%s|lik=%s|prior=%s|sfz=%d|approx=%d" % (tag, dt, ll, pl, sfz, approx),
                                enab(lk, pr, sfz, approx)))
            # multi-domain Wiener-filter like set-up
            likm = sand(dense(MD, U, F.matrix(N, nmd)), T(2, diag(U, F.pos(N), dt)))
            for pl, pr in (("block", dict(k="block", dom=MD, ops={"a": diag(MD["a"], F.pos(2), dt), "b": scal(MD["b"], 0.7, dt)})),
                           ("scal", scal(MD, 1.0, dt)),
                           ("block-missing", dict(k="block", dom=MD, ops={"a": diag(MD["a"], F.pos(2), None)}))):
                for sfz in (False, True):
                    ops.append(("enab", "%s|%s|multi|prior=%s|sfz=%d" % (tag, dt, pl, sfz), enab(likm, pr, sfz, False)))
            # block likelihood + block prior: the sum merges into a block of sums
            blik = dict(k="block", dom=MD, ops={"a": sand(dense(MD["a"], [["un", 1]], F.matrix(1, 2)), None, dt),
                                                "b": sand(dense(MD["b"], [["un", 1]], F.matrix(1, N - 1)), None, dt)})
            bpri = dict(k="block", dom=MD, ops={"a": diag(MD["a"], F.pos(2), dt), "b": scal(MD["b"], 0.7, dt)})
            ops.append(("enab", "%s|%s|block+block" % (tag, dt), enab(blik, bpri, False, False)))
    return ops


def cases(tier, seed):
    out = []
    for group, label, spec in _catalogue(tier, seed):
        zero_scal = _singular(spec) and _root_kind(spec) == "scal"
        for trafo in (0, 1, 2, 3):
            if trafo >= 2 and zero_scal:
                continue     # ScalingOperator(0).inverse cannot even be formed (1/0): outside the premise
            for inv in (False, True):
                out.append(dict(group=group, label=label, trafo=trafo, inv=inv, op=spec))
    gorder = dict(scal=0, diag=1, sand=2, block=3, sum=4, enab=5)
    out.sort(key=lambda c: (M.nodes(c["op"]) + (1 if c["trafo"] else 0), gorder[c["group"]], M.dsize(M.dom_of(c["op"])),
                            c["label"], c["trafo"], c["inv"]))
    seen, res = set(), []
    for c in out:
        k = json.dumps(c, sort_keys=True)
        if k not in seen:
            seen.add(k)
            res.append(c)
    return res


def _singular(spec):
    try:
        C = M.mat(spec)
    except np.linalg.LinAlgError:
        return True
    if not np.all(np.isfinite(C)):
        return True
    s = np.linalg.svd(C, compute_uv=False)
    return bool(s.min(initial=1.) <= 1e-9 * max(1., s.max(initial=1.)))


# =====================================================================================
#                                   building the real operators
# =====================================================================================
def _npdt(dt):
    if isinstance(dt, dict):
        return {k: _npdt(v) for k, v in dt.items()}
    return {"f8": np.float64, "c16": np.complex128, "f4": np.float32, "c8": np.complex64,
            "pyfloat": float, "pycomplex": complex, None: None,
            # np.dtype INSTANCES (what Field.dtype / optimize_kl hand over); note np.dtype("f8") == None is True
            "f8i": np.dtype("float64"), "c16i": np.dtype("complex128")}[dt]


def mkdom(D):
    import nifty.cl as ift
    if isinstance(D, dict):
        return ift.MultiDomain.make({k: mkdom(v) for k, v in D.items()})
    return ift.DomainTuple.make(tuple(ift.RGSpace(int(n)) if t == "rg" else ift.UnstructuredDomain(int(n))
                                      for t, n in D))


def _flat(x):
    import nifty.cl as ift
    if isinstance(x, ift.MultiField):
        return np.concatenate([np.asarray(x[k].asnumpy()).reshape(-1) for k in x.domain.keys()])
    return np.asarray(x.asnumpy()).reshape(-1)


_DenseOp = None


def _dense_cls():
    """Harness-side rectangular matrix operator (MatrixProductOperator is square-only)."""
    global _DenseOp
    if _DenseOp is not None:
        return _DenseOp
    import nifty.cl as ift
    from vf import dense as vd

    class DenseOp(ift.LinearOperator):
        def __init__(self, dom, tgt, mat, inv):
            self._domain, self._target = dom, tgt
            self._m = np.asarray(mat)
            self._capability = self.TIMES | self.ADJOINT_TIMES
            if inv:
                self._capability |= self.INVERSE_TIMES | self.ADJOINT_INVERSE_TIMES

        def apply(self, x, mode):
            self._check_input(x, mode)
            v = _flat(x)
            if mode == self.TIMES:
                r, d = self._m @ v, self._target
            elif mode == self.ADJOINT_TIMES:
                r, d = self._m.conj().T @ v, self._domain
            elif mode == self.INVERSE_TIMES:
                r, d = np.linalg.solve(self._m, v), self._domain
            else:
                r, d = np.linalg.solve(self._m.conj().T, v), self._target
            return vd.unflatten(d, r)

        def __repr__(self):
            return "DenseOp%s" % (self._m.shape,)
    _DenseOp = DenseOp
    return DenseOp


def _pynum(f):
    return complex(f[0], f[1]) if isinstance(f, (list, tuple)) else float(f)


def _controller():
    import nifty.cl as ift
    return ift.GradientNormController(tol_abs_gradnorm=1e-13, iteration_limit=200)


def build(s):
    import nifty.cl as ift
    from vf import dense as vd
    k = s["k"]
    if k == "scal":
        return ift.ScalingOperator(mkdom(s["dom"]), _pynum(s["f"]), sampling_dtype=_npdt(s.get("dt")))
    if k == "diag":
        dom = mkdom(s["dom"])
        ct = M.diag_ctyped(s)
        vals = np.array([M.cnum(x) for x in s["d"]]) if ct else np.array(s["d"], dtype=np.float64)
        sp = s.get("sp")
        if sp is None:
            return ift.DiagonalOperator(ift.makeField(dom, vals.reshape(dom.shape)), sampling_dtype=_npdt(s.get("dt")))
        sub = ift.DomainTuple.make(tuple(dom[i] for i in sp))
        return ift.DiagonalOperator(ift.makeField(sub, vals.reshape(sub.shape)), domain=dom, spaces=tuple(sp),
                                    sampling_dtype=_npdt(s.get("dt")))
    if k == "dense":
        m = np.array(s["m"], dtype=np.float64)
        if s.get("mi") is not None:
            m = m + 1j * np.array(s["mi"], dtype=np.float64)
        return _dense_cls()(mkdom(s["dom"]), mkdom(s["tgt"]), m, bool(s.get("inv")))
    if k == "mask":
        dom = mkdom(s["dom"])
        return ift.MaskOperator(ift.makeField(dom, np.array(s["flags"], dtype=np.int64).reshape(dom.shape)))
    if k == "sand":
        bun = build(s["bun"])
        if s["cheese"] is None:
            return ift.SandwichOperator.make(bun, None, sampling_dtype=_npdt(s.get("dt")))
        return ift.SandwichOperator.make(bun, build(s["cheese"]))
    if k == "block":
        return ift.BlockDiagonalOperator(mkdom(s["dom"]), {key: build(o) for key, o in s["ops"].items()})
    if k == "sum":
        r = build(s["terms"][0])
        for t, ng in zip(s["terms"][1:], s["neg"][1:]):
            r = (r - build(t)) if ng else (r + build(t))
        return r
    if k == "enab":
        lik, prior = build(s["lik"]), build(s["prior"])
        approx = None
        if s.get("approx"):
            dg = np.real(np.diag(M.mat(s["lik"]) + M.mat(s["prior"])))
            approx = ift.makeOp(vd.unflatten(prior.domain, dg, force_real=True))
        return ift.SamplingEnabler(lik, prior, _controller(), approximation=approx,
                                   start_from_zero=bool(s.get("sfz")))
    if k == "inven":
        return ift.InversionEnabler(build(s["op"]), _controller())
    if k == "T":
        o = build(s["op"])
        return {1: lambda: o.adjoint, 2: lambda: o.inverse, 3: lambda: o.adjoint.inverse}[s["t"]]()
    if k == "scaled":
        return _pynum(s["f"]) * build(s["op"])
    if k == "chain":
        r = build(s["ops"][0])
        for o in s["ops"][1:]:
            r = r @ build(o)
        return r
    raise ValueError(k)


# =====================================================================================
#                                   one case
# =====================================================================================
def _root_kind(spec):
    while spec["k"] in ("T", "inven", "scaled"):
        spec = spec["op"]
    return spec["k"]


def _key(case, symptom, kindlabel=None, direction=True):
    spec = case["op"]
    parts = [_root_kind(spec), symptom]
    tags = [t for t in ("neg-term", "missing-entry") if M.has_tag(spec, t)]
    if tags:
        parts.append("+".join(tags))
    if kindlabel:
        parts.append(kindlabel)
    if direction:
        parts.append("inv" if _eff_inv(case) else "fwd")
    return "|".join(parts)


def _where(e):
    """file:function of the innermost nifty frame of an exception (semantic, no line numbers)."""
    import traceback
    loc = "?"
    for fs in traceback.extract_tb(e.__traceback__):
        if os.sep + "nifty" + os.sep in fs.filename:
            loc = "%s:%s" % (os.path.basename(fs.filename), fs.name)
    return loc


def _eff_inv(case):
    return bool(case["inv"]) ^ bool(case["trafo"] & 2)


def run(case):
    t0 = time.process_time()
    out = _run(case)
    st = out.get("stats")
    if not isinstance(st, dict):
        st = out["stats"] = {}
    st["cpu_s"] = round(time.process_time() - t0, 4)
    return out


def _run(case):
    import logging
    import warnings
    import nifty.cl as ift
    from vf import rngseam, dense as vd
    ift.logger.setLevel(logging.CRITICAL)

    trafo = int(case["trafo"])
    spec = case["op"] if not trafo else T(trafo, case["op"])
    inv = bool(case["inv"])
    exp, why = M.expect(spec, inv)
    kd = M.kinds(spec)
    if np.any(kd < 0):
        return skip("mixed sampling kinds: no documented oracle")
    ukinds = sorted(set(kd.tolist()))
    kindlabel = {(1,): "real", (2,): "complex", (0,): "nodtype"}.get(tuple(ukinds), "mixed-blocks")
    single = any(d in M.SINGLE for d in M.dtypes_used(spec))
    stats = dict(basis_runs=0)

    # ---- construct (must not fail: every spec in the catalogue is a documented construction)
    try:
        with warnings.catch_warnings():
            warnings.simplefilter("ignore")
            op = build(spec)
    except Exception as e:       # noqa
        tags = [t for t in ("missing-entry",) if M.has_tag(spec, t)]
        return bad("constructing the operator raised %r in %s" % (e, _where(e)),
                   finding_key="|".join(["construction", type(e).__name__, _where(e)] + tags),
                   detail=dict(label=case["label"]))

    # ---- premise: op.apply is the reference matrix (otherwise "covariance equal to the operator" is ambiguous)
    # (X.inverse).draw_sample(from_inverse) is a draw from X in the opposite direction; working from the
    # untransformed matrix keeps singular X (zero variances, rank-deficient sandwiches) inside the space
    Cb, herm, mineig, Tgt = M.covariance_facts(case["op"], _eff_inv(case), adjoint=bool(trafo & 1))
    n = Cb.shape[0]
    singular = _singular(case["op"])
    if op.domain.size != n:
        return bad("domain size %d != reference %d" % (op.domain.size, n), finding_key=_key(case, "domain-size"))
    C = None
    if not (trafo & 2):
        C = Cb
    elif not singular:
        C = np.linalg.inv(Cb)
    if C is not None and (op.capability & op.TIMES):
        try:
            R = vd.rmatrix(op, op.TIMES)
        except Exception as e:   # noqa
            return bad("applying the operator raised %r" % (e,), finding_key=_key(case, "apply:%s" % type(e).__name__))
        dev = vd.maxdiff(R, vd.realify(C))
        if not dev <= (TOL_CG if M.uses_cg(spec, False) or M.uses_cg(spec, True) else TOL_DIRECT) * max(1., np.abs(C).max()):
            return bad("op.apply differs from the reference matrix by %.3g" % dev,
                       finding_key=_key(case, "apply-differs-from-reference"), detail=dict(label=case["label"]))

    # ---- draw through the RNG seam: exact L with sample = off + L xi
    def fn():
        with warnings.catch_warnings():
            warnings.simplefilter("ignore")
            return op.draw_sample(from_inverse=inv)

    first = {}

    def flat(s):
        first.setdefault("dom", s.domain)
        return vd.flatten(s)

    try:
        off, L, ndraw, resid = rngseam.linear_map(fn, flat)
    except Exception as e:       # noqa  -- the operator refused to sample
        et = type(e).__name__
        if isinstance(e, RuntimeError) and ("tape exhausted" in str(e) or "number of draws depends" in str(e)):
            return bad("number of normal draws depends on the drawn values: %s" % e,
                       finding_key=_key(case, "draw-count-not-deterministic", kindlabel))
        if exp == M.REFUSE:
            return ok(nontrivial=True, outcome="%s|refused(%s)|%s" % (case["group"], why, et), stats=stats)
        if exp == M.DECLINE:
            return skip("declined: %s [%s]" % (why, et))
        return bad("a valid covariance of a supported kind refused to sample: %r in %s" % (e, _where(e)),
                   finding_key=_key(case, "refused-valid:%s@%s" % (et, _where(e)), kindlabel),
                   detail=dict(label=case["label"], mineig=mineig))
    stats["basis_runs"] = int(ndraw) + 1
    stats["excitation_dim"] = int(ndraw)
    L = np.asarray(L, dtype=np.complex128)
    det = dict(label=case["label"], ndraw=int(ndraw), expect=exp, why=why)

    # ---- a sample came back
    if first["dom"] is not op.domain and first["dom"] != op.domain:
        return bad("sample lives on %r, operator on %r" % (first["dom"], op.domain),
                   finding_key=_key(case, "sample-domain", kindlabel), detail=det)
    if L.shape[0] != n:
        return bad("sample has %d entries, operator domain %d" % (L.shape[0], n),
                   finding_key=_key(case, "sample-size", kindlabel), detail=det)
    if 0 in ukinds:
        return bad("a sample was drawn although no sampling dtype is defined (%s)" % why,
                   finding_key=_key(case, "sampled-without-dtype"), detail=det)
    if Tgt is None:
        what = ("not Hermitian" if not herm else "min eigenvalue %.3g" % mineig)
        return bad("a sample was drawn from %s operator that cannot be a covariance (%s; %s)"
                   % ("the inverse of an" if _eff_inv(case) else "an", what, why or exp),
                   finding_key=_key(case, "sampled-noncovariance"), detail=det)
    cg = M.uses_cg(spec, inv)
    tol = TOL_SINGLE if single else (TOL_CG if cg else TOL_DIRECT)
    c = np.where(kd == 2, 2., 1.)
    G_exp = Tgt * np.sqrt(np.outer(c, c))
    scale = max(1., float(np.abs(G_exp).max(initial=0.)))
    if not np.all(np.isfinite(L)) or not np.all(np.isfinite(off)):
        return bad("sample is not finite", finding_key=_key(case, "non-finite", kindlabel), detail=det)
    if np.abs(off).max(initial=0.) > 1e-13:
        return bad("sample at zero excitation is %.3g, not 0 (non-zero mean)" % np.abs(off).max(),
                   finding_key=_key(case, "nonzero-mean", kindlabel), detail=det)
    if resid > tol * scale:
        return bad("sampler is not linear in its excitation (residual %.3g): not Gaussian" % resid,
                   finding_key=_key(case, "nonlinear", kindlabel), detail=det)
    G = L @ L.conj().T
    dG = float(np.abs(G - G_exp).max(initial=0.))
    det["cov_err"] = dG
    if not dG <= tol * scale:
        i, j = np.unravel_index(np.argmax(np.abs(G - G_exp)), G.shape)
        return bad("E[s s^H] differs from %s%s by %.3g (entry %d,%d: got %s, expected %s)"
                   % ("2*" if kindlabel == "complex" else "", "C^-1" if _eff_inv(case) else "C", dG, i, j,
                      np.round(G[i, j], 6), np.round(G_exp[i, j], 6)),
                   finding_key=_key(case, "cov-mismatch", kindlabel), detail=det)
    P = L @ L.T
    cmask = (kd == 2)
    if cmask.any():
        dP = float(np.abs(P[cmask, :]).max(initial=0.))
        if dP > tol * scale:
            return bad("complex sampling dtype: pseudo-covariance E[s s^T] = %.3g, not 0 (real and imaginary part "
                       "are not independent with equal variance)" % dP,
                       finding_key=_key(case, "pseudo-cov-nonzero", kindlabel), detail=det)
    herm_only = False
    rmask = (kd == 1)
    if rmask.any():
        if M.is_real(spec):
            dI = float(np.abs(L[rmask, :].imag).max(initial=0.))
            if dI > tol * scale:
                return bad("real sampling dtype on a real operator gives a sample with imaginary part %.3g" % dI,
                           finding_key=_key(case, "imag-nonzero", kindlabel), detail=det)
        else:
            herm_only = True
    if ndraw == 0:
        if np.abs(Tgt).max(initial=0.) > 0:
            return bad("no normal draw was made", finding_key=_key(case, "no-draws", kindlabel), detail=det)
        return ok(nontrivial=False, outcome="no-draws-zero-cov", stats=stats)
    path = "cg" if cg else "direct"
    zero = "zero-cov|" if np.abs(Tgt).max(initial=0.) == 0 else ""
    return ok(nontrivial=not zero,       # a zero covariance cannot expose a wrong factor
              outcome="%s|%s|%s|%s|%ssampled%s%s" % (case["group"], kindlabel, "inv" if inv else "fwd", path, zero,
                                                     "|hermitian-only" if herm_only else "",
                                                     "|although-%s" % exp if exp != M.SAMPLE else ""),
              stats=stats, detail=det)


def finish(run):
    """Vacuity guard: every group must have produced compared samples in both directions and both kinds."""
    need = [(g, k, d) for g in ("scal", "diag", "sand", "block", "sum", "enab") for k in ("real", "complex")
            for d in ("fwd", "inv")]
    have = set()
    for o in run.outcomes:
        p = o.split("|")
        if len(p) >= 5 and "sampled" in o:
            have.add((p[0], p[1], p[2]))
    missing = [x for x in need if x not in have]
    # the inverse of a general sum is a documented limitation: nothing to sample there
    missing = [x for x in missing if not (x[0] == "sum" and x[2] == "inv")]
    if missing and not run.violations:
        run.violations.append((dict(vacuity=[list(m) for m in missing]),
                               bad("no compared sample for %s" % missing, finding_key="harness|vacuous-class")))
    return dict(sampled_classes=len(have), cg_sampled=sum(v for o, v in run.outcomes.items() if "|cg|" in o),
                refused=sum(v for o, v in run.outcomes.items() if "refused(" in o))
